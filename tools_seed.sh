#!/bin/bash
# dev helper: tools_seed.sh <ID> <N> <check...>  — apply /tmp/seed/<ID>-out/patchN.diff to /repo, run the given quick checks, undo
set -u
ID=$1; N=$2; shift 2
P=/tmp/seed/${ID}-out/patch${N}.diff
cd /repo || exit 2
git diff --quiet || { echo "repo dirty"; exit 2; }
git apply --3way "$P" 2>/tmp/seed/apply.err || patch -p1 --no-backup-if-mismatch < "$P" >/tmp/seed/apply.err 2>&1 || { echo "APPLY FAILED"; cat /tmp/seed/apply.err; git checkout -- .; exit 2; }
git reset -q
echo "applied: $(git diff --stat | tail -1)"
cd /verif
for c in "$@"; do
  out=$(./check $c quick 2>&1)
  echo "$out" | grep -E "^VIOLATION|MACHINERY|\[$c quick\]" | cut -c1-220
  echo "$out" | grep -E "^  fingerprint:" | cut -c1-260
done
git -C /repo checkout -- .
git -C /repo status --short | head -3
