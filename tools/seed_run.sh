#!/bin/bash
# dev helper: tools/seed_run.sh <patch.diff> <tier> <check ids...>  — apply the patch to /repo, run the given checks, undo; prints one line per check
set -u
P=$1; TIER=$2; shift 2
cd /repo || exit 2
git diff --quiet || { echo "repo dirty"; exit 2; }
git apply "$P" || { echo "APPLY FAILED"; git checkout -- .; exit 2; }
echo "applied: $(git diff --stat | tail -1)"
cd /verif
export VERIF_EVIDENCE_DIR=/verif/target/seed-evidence
for c in "$@"; do
  out=$(./check $c $TIER 2>&1); rc=$?
  echo "== $c $TIER exit=$rc"
  echo "$out" | grep -E "^VIOLATION|MACHINERY|^\[$c $TIER\]" | cut -c1-240
  echo "$out" | grep -E "^  fingerprint:" | cut -c1-300
done
git -C /repo checkout -- .
git -C /repo status --short | head -3
