#!/bin/bash
# dev helper: tools/seed_detect.sh <seed id> <tier> [check ids...]  — the prescribed procedure: apply seeded/<id>/patch.diff to
# /repo, run the registered quick/thorough commands of the given checks (default: the property it breaks), undo; the output goes
# to seeded/<id>/detect-<tier>.txt. Evidence files are written to a scratch directory, not to /verif/evidence.
set -u
ID=$1; TIER=$2; shift 2
D=/verif/seeded/$ID
CHECKS="$*"
[ -z "$CHECKS" ] && CHECKS=$(echo $ID | cut -d- -f1)
cd /repo || exit 2
git diff --quiet || { echo "repo dirty"; exit 2; }
git apply "$D/patch.diff" || { echo "APPLY FAILED"; git checkout -- .; exit 2; }
{
echo "# $(date -u +%FT%TZ) /repo HEAD $(git rev-parse --short HEAD) + seeded/$ID/patch.diff; /verif HEAD $(git -C /verif rev-parse --short HEAD)"
cd /verif
export VERIF_EVIDENCE_DIR=/verif/target/seed-evidence
for c in $CHECKS; do
  out=$(./check $c $TIER 2>&1); rc=$?
  echo "== $c $TIER exit=$rc"
  echo "$out" | grep -E "^VIOLATION|MACHINERY|^\[$c $TIER\]" | cut -c1-300
  echo "$out" | grep -E "^  fingerprint:" | cut -c1-300
done
} > "$D/detect-$TIER.txt" 2>&1
git -C /repo checkout -- .
cat "$D/detect-$TIER.txt" | grep -E "^== |^VIOLATION" | cut -c1-200
