#!/usr/bin/env python3
"""dev helper: (re)generate /verif/seeded/<id>/meta.json and the table in DESIGN.md §15 from
   - tools/seed_catalog.json  (hand-written: property, what, needs, source dir, which checks catch it, history)
   - seeded/<id>/confirm.txt  (what tools/seed_confirm.sh ran and saw)
   - seeded/<id>/detect-*.txt (output of the registered checks run against the change, see tools/seed_detect.sh)
Never used by the checks themselves."""
import json, os, re, sys, glob

ROOT = os.path.dirname(os.path.dirname(os.path.abspath(__file__)))
cat = json.load(open(os.path.join(ROOT, "tools", "seed_catalog.json")))
rows = []
for sid, c in sorted(cat.items()):
    d = os.path.join(ROOT, "seeded", sid)
    if not os.path.isdir(d):
        continue
    confirm = open(os.path.join(d, "confirm.txt")).read() if os.path.exists(os.path.join(d, "confirm.txt")) else ""
    m = re.search(r"RESULT clean_demo=(\d+) patched_demo=(\d+)", confirm)
    summ = re.search(r"Summary \[[^\]]*\] ([^\n]*)", confirm)
    scope = re.search(r"scope: ([^\n]*)", confirm)
    head = re.search(r"repo HEAD (\w+)", confirm)
    demo = open(os.path.join(d, "demo.txt")).read().split("\n") if os.path.exists(os.path.join(d, "demo.txt")) else ["", ""]
    detections = []
    for f in sorted(glob.glob(os.path.join(d, "detect-*.txt"))):
        txt = open(f).read()
        for blk in re.split(r"^== ", txt, flags=re.M)[1:]:
            hdr = blk.split("\n", 1)[0]
            mm = re.match(r"(C\d+) (\w+) exit=(\d+)", hdr)
            if not mm:
                continue
            fps = [x.strip() for x in re.findall(r"fingerprint: (.+)", blk)]
            detections.append({"check": mm.group(1), "tier": mm.group(2), "exit": int(mm.group(3)), "new_violation_fingerprints": fps[:6]})
    meta = {
        "id": sid,
        "breaks_property": c["property"],
        "source": "independent sub-agent: given only the property text and a scratch worktree of /repo, nothing from /verif",
        "change": c["what"],
        "needs_to_manifest": c["needs"],
        "files": c.get("files", []),
        "patch": "patch.diff (confirmed at /repo commit %s; the detection runs applied it to the /repo HEAD named in detect-*.txt%s)" % (head.group(1) if head else "?", "; patch.orig.diff is the sub-agent's original, made before hook H10 touched the same lines" if os.path.exists(os.path.join(d, "patch.orig.diff")) else ""),
        "demonstration": {"file": demo[0].strip(), "command": demo[1].strip() if len(demo) > 1 else "",
                          "exit_on_unchanged_tree": int(m.group(1)) if m else None, "exit_with_change": int(m.group(2)) if m else None},
        "existing_suite_with_change": {"command": "cargo nextest run %s --no-fail-fast --test-threads 8 --retries 3 --offline" % (scope.group(1).split(" (")[0] if scope else "--workspace"),
                                       "result": summ.group(1).strip() if summ else "not run"},
        "checks_run_against_it": detections,
        "caught_by": c.get("caught_by", ""),
        "history": c.get("history", ""),
    }
    json.dump(meta, open(os.path.join(d, "meta.json"), "w"), indent=1, ensure_ascii=False)
    caught = [x for x in detections if x["exit"] == 1]
    own = [x for x in caught if x["check"] == c["property"]]
    others = sorted({x["check"] for x in caught if x["check"] != c["property"]})
    verdict = "yes" if own else ("only by the %s check" % ", ".join(others) if others else ("NO" if detections else "not run"))
    rows.append((sid, c["property"], (c["what"][:157] + "…" if len(c["what"]) > 158 else c["what"]), c.get("caught_by", ""), verdict, c.get("history", "")))

lines = ["| seeded change | property | what it does | caught by | raised VIOLATION | what it took |", "|---|---|---|---|---|---|"]
for r in rows:
    lines.append("| `%s` | %s | %s | %s | %s | %s |" % r)
table = "\n".join(lines)
p = os.path.join(ROOT, "DESIGN.md")
s = open(p).read()
a = s.index("<!-- SEED-TABLE-BEGIN -->") + len("<!-- SEED-TABLE-BEGIN -->")
b = s.index("<!-- SEED-TABLE-END -->")
open(p, "w").write(s[:a] + "\n" + table + "\n" + s[b:])
print(len(rows), "seeded changes")
