#!/bin/bash
# dev helper: tools/seed_run_iso.sh <patch.diff|-> <tier> <check ids...>
# Like seed_run.sh but isolated: a copy of committed /verif (/root/vseed, engines re-pointed at /root/repo-seed, a worktree
# of /repo HEAD) so that /repo and /verif stay free for other work. Uses what is COMMITTED in /verif and /repo.
set -u
P=$1; TIER=$2; shift 2
RS=/root/repo-seed; VS=/root/vseed
[ -d $RS ] || git -C /repo worktree add --detach $RS HEAD >/dev/null 2>&1
[ -d $VS ] || git -C /verif worktree add --detach $VS HEAD >/dev/null 2>&1
( cd $RS && git checkout -q -- . && git checkout -q --detach "$(git -C /repo rev-parse HEAD)" ) || exit 2
( cd $VS; export CARGO_BUILD_JOBS=8 && git checkout -q -- . && git checkout -q --detach "$(git -C /verif rev-parse HEAD)" && grep -rl '"/repo/' engines/*/Cargo.toml | xargs -r sed -i 's#"/repo/#"/root/repo-seed/#g' ) || exit 2
if [ "$P" != "-" ]; then ( cd $RS && git apply "$P" ) || { echo "APPLY FAILED"; exit 2; }; echo "applied: $(git -C $RS diff --stat | tail -1)"; fi
cd $VS; export CARGO_BUILD_JOBS=8
for c in "$@"; do
  out=$(./check $c $TIER 2>&1); rc=$?
  echo "== $c $TIER exit=$rc"
  echo "$out" | grep -E "^VIOLATION|MACHINERY|^\[$c $TIER\]" | cut -c1-240
  echo "$out" | grep -E "^  fingerprint:" | cut -c1-300
done
( cd $RS && git checkout -q -- . )
