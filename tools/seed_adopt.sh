#!/bin/bash
# dev helper: tools/seed_adopt.sh <agent deliverable dir> <seed id>  — copy into /verif/seeded/<id>/ and confirm it there
set -eu
SRC=$1; ID=$2
DST=/verif/seeded/$ID
mkdir -p "$DST"
cp "$SRC"/patch.diff "$SRC"/demo.txt "$DST"/
cp "$SRC"/*.rs "$DST"/
[ -f "$SRC/patch.orig.diff" ] && cp "$SRC/patch.orig.diff" "$DST"/
[ -f "$SRC/notes.md" ] && cp "$SRC/notes.md" "$DST/agent_notes.md"
/verif/tools/seed_confirm.sh "$DST" "${3:-}"
