#!/bin/bash
# dev helper: copy the output of an isolated run (tools/seed_run_iso.sh, log /root/iso-<id>-<tier>.log) into seeded/<id>/detect-<tier>.txt
for id in "$@"; do
  for tier in quick thorough; do
    f=/root/iso-$id-$tier.log
    [ -f "$f" ] || continue
    d=/verif/seeded/$id
    [ -d "$d" ] || continue
    { echo "# isolated run (tools/seed_run_iso.sh): committed /verif copied to /root/vseed with its engines pointed at /root/repo-seed (a worktree of /repo HEAD) + seeded/$id/patch.diff; ./check <id> $tier there; $(date -u -r $f +%FT%TZ)"; cat "$f"; } > "$d/detect-$tier.txt"
  done
done
