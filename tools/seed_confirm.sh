#!/bin/bash
# dev helper: tools/seed_confirm.sh <deliverable dir, e.g. /tmp/seedout/C01a/a> [--no-suite]
# Confirms a seeded change in the scratch worktree /tmp/wt/confirm (created on demand, warm target copied from /tmp/wt/base):
#   1. demo passes on the unchanged tree   2. patch applies and compiles   3. demo fails with the patch
#   4. the repository's own suite (nextest, 8 threads) still passes with the patch (the 2 baseline failures excepted)
# Writes <dir>/confirm.txt. The worktree is left clean afterwards.
set -u
D=$1; SUITE=${2:-}
WT=${SEED_WT:-/tmp/wt/confirm}
if [ ! -d "$WT" ]; then
  git -C /repo worktree add --detach "$WT" HEAD >/dev/null 2>&1 || exit 2
  [ -d /tmp/wt/base/target ] && cp -a /tmp/wt/base/target "$WT/target"
fi
cd "$WT" || exit 2
git checkout -q --detach "${SEED_BASE:-$(git -C /repo rev-parse HEAD)}" 2>/dev/null
git checkout -- . ; git clean -fdq -e target
DEMO_PATH=$(sed -n 1p "$D/demo.txt"); DEMO_CMD=$(sed -n 2p "$D/demo.txt")
DEMO_FILE=$(ls "$D"/*.rs 2>/dev/null | head -1)
[ -f "$DEMO_FILE" ] || { echo "no demo file in $D" | tee "$D/confirm.txt"; exit 2; }
mkdir -p "$(dirname "$DEMO_PATH")"; cp "$DEMO_FILE" "$DEMO_PATH"
export CARGO_NET_OFFLINE=true
{
echo "== confirm $(date -u +%FT%TZ) repo HEAD $(git rev-parse --short HEAD)"
echo "-- demo on the unchanged tree: $DEMO_CMD"
timeout 2400 bash -c "$DEMO_CMD" > "$D/demo_clean.log" 2>&1; RC1=$?
echo "   exit $RC1 (expected 0)"
echo "-- apply patch"
git apply "$D/patch.diff" 2>&1 || { echo "   APPLY FAILED"; RC1=99; }
git diff --stat | tail -1
echo "-- demo with the patch"
timeout 2400 bash -c "$DEMO_CMD" > "$D/demo_patched.log" 2>&1; RC2=$?
echo "   exit $RC2 (expected non-zero)"
if [ "$SUITE" != "--no-suite" ]; then
  rm -f "$DEMO_PATH"
  echo "-- repository suite with the patch (nextest, 8 threads)"
  # scope: a change under channels/ can reach every crate (cache and logging build on it): whole workspace;
  # a change confined to cache/, logging/ or ioc/ can only reach that crate's tests
  SCOPE="--workspace"
  TOUCHED=$(grep '^+++ b/' "$D/patch.diff" | sed 's#^+++ b/##' | cut -d/ -f1 | sort -u | tr '\n' ' ')
  case "$TOUCHED" in
    "cache ") SCOPE="-p fibre_cache" ;;
    "logging ") SCOPE="-p fibre_logging" ;;
    "ioc ") SCOPE="-p fibre_ioc" ;;
  esac
  echo "   scope: $SCOPE (touched: $TOUCHED)"
  timeout 7200 cargo nextest run $SCOPE --no-fail-fast --test-threads 8 --retries 3 --offline > "$D/suite_patched.log" 2>&1
  grep -E "^\s+Summary|^\s+(FAIL|TIMEOUT|SIGABRT|SIGSEGV)" "$D/suite_patched.log" | sort | uniq -c | sort -rn | head -20
fi
echo "RESULT clean_demo=$RC1 patched_demo=$RC2"
} 2>&1 | tee "$D/confirm.txt"
git checkout -- . ; git clean -fdq -e target
