#!/bin/bash
# dev helper: tools/seed_rerun.sh <seed id> <cargo package> <test name substring>
# Re-runs, alone and with the change applied, a test of the repository's suite that failed in the full confirmation run
# (wall-clock tests fail on a loaded machine); appends the outcome to seeded/<id>/confirm.txt.
set -u
ID=$1; PKG=$2; T=$3
D=/verif/seeded/$ID
WT=${SEED_WT:-/tmp/wt/confirm1}
cd "$WT" || exit 2
git checkout -q -- . ; git clean -fdq -e target
git checkout -q --detach "${SEED_BASE:-$(git -C /repo rev-parse HEAD)}" 2>/dev/null
git apply "$D/patch.diff" || exit 2
out=$(CARGO_NET_OFFLINE=true cargo nextest run -p $PKG --no-fail-fast --test-threads 1 --retries 2 --offline -E "test($T)" 2>&1)
echo "-- re-run alone with the patch (load $(cut -d' ' -f1 /proc/loadavg)): cargo nextest run -p $PKG -E 'test($T)' --retries 2" >> "$D/confirm.txt"
echo "$out" | grep -E "Summary|^\s+(FAIL|PASS|FLAKY)" | sed 's/^/   /' >> "$D/confirm.txt"
echo "$out" | grep -E "Summary"
git checkout -q -- . ; git clean -fdq -e target
