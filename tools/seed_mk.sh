#!/bin/bash
# dev helper: tools/seed_mk.sh <ID> <tag> <N>  — create scratch worktree /tmp/wt/<ID><tag> (warm target copied from /tmp/wt/base) and print the sub-agent prompt
set -eu
ID=$1; TAG=$2; N=${3:-2}
WT=/tmp/wt/${ID}${TAG}
OUT=/tmp/seedout/${ID}${TAG}
if [ ! -d "$WT" ]; then
  git -C /repo worktree add --detach "$WT" HEAD >/dev/null 2>&1
  [ -d /tmp/wt/base/target ] && cp -a /tmp/wt/base/target "$WT/target"
fi
mkdir -p "$OUT"
python3 - "$ID" "$WT" "$OUT" "$N" <<'PY'
import json,sys
pid,wt,out,n=sys.argv[1:5]
for l in open('/verif/properties.jsonl'):
    p=json.loads(l)
    if p['id']==pid: break
t=open('/verif/tools/seed_prompt.md').read()
print(t.replace('{WT}',wt).replace('{OUT}',out).replace('{ID}',pid).replace('{TITLE}',p['title']).replace('{STATEMENT}',p['statement']).replace('{N}',n))
PY
