#!/usr/bin/env python3
import json,sys
r=json.load(open(sys.argv[1]))
print(len(r['scenarios']),'scenarios', sum(s['executions'] for s in r['scenarios']),'executions', 'non-exhaustive:',[s['name'] for s in r['scenarios'] if not s['exhaustive']][:5])
w=int(sys.argv[2]) if len(sys.argv)>2 else 300
for v in r['violations']:
    print(v['fingerprint'],'|',v['message'][:w]); print()
print(len(r['violations']),'fingerprints')
