//! Scenario registry: every scenario is one `loom::model::Builder::check` of a tiny driver.
use crate::bcast::{self, BcastScen};
use crate::chan::{Flavour, Mix};
use crate::locks::{self, LockScen};
use crate::prog::{ChanScen, Step, ThreadProg};

#[derive(Clone, Debug)]
pub enum Body {
    Chan(ChanScen),
    Bcast(BcastScen),
    Lock(LockScen),
}

#[derive(Clone, Debug)]
pub struct Scenario {
    /// `<component>/<shape>`
    pub name: String,
    pub component: String,
    pub shape: String,
    pub props: Vec<&'static str>,
    pub threads: usize,
    pub ops: usize,
    pub cap: String,
    /// preemption bound per tier (None: not run in that tier)
    pub pb_quick: Option<usize>,
    pub pb_thorough: Option<usize>,
    pub body: Body,
}

fn tp(tx: Option<u8>, rx: Option<u8>, steps: Vec<Step>) -> ThreadProg {
    ThreadProg { tx, rx, steps }
}

fn cap_name(c: Option<usize>) -> String {
    match c {
        None => "unbounded".into(),
        Some(0) => "0".into(),
        Some(n) => n.to_string(),
    }
}

const CHAN_PROPS: [&str; 6] = ["C01", "C02", "C03", "C04", "C05", "C09"];

struct ChanBuilder {
    out: Vec<Scenario>,
}

/// one shape instance before tiering
struct Shape {
    name: &'static str,
    cap: Option<usize>,
    asyn: bool,
    mix: Mix,
    n_tx: u8,
    n_rx: u8,
    drains: bool,
    prefill: Vec<u32>,
    threads: Vec<ThreadProg>,
}

fn is_lock_based(fl: Flavour) -> bool {
    // every operation of these two goes through the HybridMutex-protected core: one operation is
    // 5-10x the scheduling points of the lock-free flavours
    matches!(fl, Flavour::MpmcBounded | Flavour::MpmcUnbounded)
}

impl ChanBuilder {
    /// default tiers: 2 threads quick 2 / thorough 3; 3 threads quick 1 / thorough 2; measured
    /// exceptions (state spaces of the lock-based flavours) are listed in `tier_override`.
    fn add(&mut self, fl: Flavour, sh: Shape) {
        let nthreads = sh.threads.len();
        let ops = sh.threads.iter().map(|t| t.steps.len()).max().unwrap_or(0);
        let shape_full = if fl.is_bounded() { format!("{}_cap{}", sh.name, sh.cap.unwrap()) } else { sh.name.to_string() };
        let name = format!("{}/{}", fl.name(), shape_full);
        // two threads: quick 2, thorough 3 (lock-based flavours) / 4 (lock-free flavours, whose
        // spaces stay below ~3 M executions at bound 4); three threads: quick 1, thorough 2
        let default_tiers = if nthreads >= 3 {
            (Some(1), Some(2))
        } else if is_lock_based(fl) {
            (Some(2), Some(3))
        } else {
            (Some(2), Some(4))
        };
        let body = ChanScen { flavour: fl, cap: sh.cap, asyn: sh.asyn, mix: sh.mix, n_tx: sh.n_tx, n_rx: sh.n_rx, threads: sh.threads, drains: sh.drains, prefill: sh.prefill };
        // loom's bounded DPOR starts every exploration with the main thread running until it blocks
        // and does not reach every schedule inside the nominal bound (measured: a consumer on the
        // main thread never sees its first try_recv succeed). Two-thread shapes are therefore run
        // in both orientations; the fingerprint does not depend on the orientation.
        let swappable = nthreads == 2 && !body.threads.iter().any(|t| t.steps.iter().any(|s| matches!(s, Step::JoinAll)));
        let mut variants = vec![(name.clone(), body.clone())];
        if swappable {
            let mut b2 = body.clone();
            b2.threads.swap(0, 1);
            variants.push((format!("{}@swap", name), b2));
        }
        for (vname, vbody) in variants {
            let tiers = tier_override(&vname).or_else(|| tier_override(&name)).unwrap_or(default_tiers);
            self.out.push(Scenario {
                name: vname,
                component: fl.name().into(),
                shape: shape_full.clone(),
                props: if sh.asyn || sh.mix != Mix::Native { CHAN_PROPS.iter().copied().chain(["C06"]).collect() } else { CHAN_PROPS.to_vec() },
                threads: nthreads,
                ops,
                cap: cap_name(sh.cap),
                pb_quick: tiers.0,
                pb_thorough: tiers.1,
                body: Body::Chan(vbody),
            });
        }
    }
}

/// (quick, thorough) preemption bounds where the default would not finish inside the tier's
/// per-scenario budget (≈ 50 k executions quick, ≈ 5 M thorough; measured, see DESIGN §9).
fn tier_override(name: &str) -> Option<(Option<usize>, Option<usize>)> {
    const T: &[(&str, Option<usize>, Option<usize>)] = &[
        // mpmc bounded with a parked sender in the program: > 150 k executions already at bound 1
        ("mpmc_bounded/1p1c_send2_drain_cap1", None, Some(1)),
        ("mpmc_bounded/send2_vs_trydrain_cap1", None, Some(1)),
        ("mpmc_bounded/send_batch2_vs_drain_cap1", None, Some(1)),
        ("mpmc_bounded/async_1p1c_send2_drain_cap1", None, Some(1)),
        ("mpmc_bounded/recv_rxdrop_vs_send2_cap1", Some(1), Some(2)),
        // the consumer-on-a-spawned-thread orientation of the prefilled shapes is 10x the other one
        ("mpmc_bounded/wrap_prefilled_send2_drain_cap2@swap", Some(1), Some(2)),
        ("mpmc_bounded/backpressure_prefilled_trydrain_cap1@swap", Some(1), Some(2)),
        ("mpmc_bounded/backpressure_prefilled_cap1@swap", Some(1), Some(2)),
        ("mpmc_bounded/async_backpressure_prefilled_cap1@swap", Some(1), Some(2)),
        ("mpmc_bounded/send2_vs_drain_batch2_cap1", None, Some(1)),
        ("mpmc_bounded/mix_synctx_asyncrx_send2_drain_cap1", None, Some(1)),
        ("mpmc_bounded/mix_asynctx_syncrx_send2_drain_cap1", None, Some(1)),
        ("mpsc_bounded/try_send_batch2_race_idle_rx_cap2", Some(2), Some(3)),
        ("mpmc_bounded/try_send_batch2_race_idle_rx_cap2", Some(2), Some(3)),
        ("mpmc_bounded/2p_send_batch2_each_cap2", None, Some(0)),
        ("mpmc_bounded/2p1c_send1_each_drain_batch2_cap1", None, Some(0)),
        ("mpmc_bounded/2p1c_send1_each_drain_batch2_cap2", Some(0), Some(1)),
        ("mpmc_unbounded/2p1c_send1_each_drain_batch2", Some(0), Some(1)),
        ("mpmc_bounded/rxdrop_vs_2_blocked_senders_cap1", Some(2), Some(3)),
        ("mpmc_bounded/mix_synctx_asyncrx_rxdrop_vs_2_blocked_senders_cap1", Some(2), Some(3)),
        ("mpmc_bounded/mix_asynctx_syncrx_rxdrop_vs_2_pending_senders_cap1", Some(2), Some(3)),
        ("mpsc_bounded/rxdrop_vs_2_blocked_senders_cap1", Some(2), Some(3)),
        ("mpsc_bounded/mix_synctx_asyncrx_rxdrop_vs_2_blocked_senders_cap1", Some(2), Some(3)),
        ("mpsc_bounded/mix_asynctx_syncrx_rxdrop_vs_2_pending_senders_cap1", Some(2), Some(3)),
        // three threads on the lock-based flavours
        ("mpmc_bounded/2p1c_send1_each_cap1", None, Some(0)),
        ("mpmc_bounded/2p1c_send1_each_cap2", Some(0), Some(1)),
        ("mpmc_bounded/1p2c_send2_drain_cap1", None, None), // > 1.3 M executions at bound 0: not run
        ("mpmc_bounded/1p2c_send1_drain_cap1", Some(0), Some(1)),
        ("mpmc_bounded/rxclone_drop_vs_send_cap1", Some(0), Some(1)),
        ("mpmc_bounded/txclone_drop_vs_send_cap1", Some(0), Some(1)),
        ("mpmc_bounded/try_send_race_vs_drain_cap1", Some(0), Some(1)),
        ("mpmc_bounded/try_send_race_idle_rx_cap1", Some(2), Some(3)),
        ("mpmc_bounded/send2_vs_2recv_sender_alive_cap2", Some(1), Some(2)),
        ("mpmc_bounded/batch2_vs_2recv_sender_alive_cap2", Some(1), Some(2)),
        ("mpmc_unbounded/1p2c_send2_drain", Some(0), Some(1)),
        ("mpmc_unbounded/1p2c_send1_drain", Some(1), Some(2)),
        ("mpmc_unbounded/2p1c_send1_each", Some(0), Some(2)),
        ("mpmc_unbounded/send2_vs_2recv_sender_alive", Some(2), Some(2)),
        ("mpmc_unbounded/batch2_vs_2recv_sender_alive", Some(2), Some(2)),
    ];
    T.iter().find(|x| x.0 == name).map(|x| (x.1, x.2))
}

fn caps_of(fl: Flavour, bounded: &[usize]) -> Vec<Option<usize>> {
    if fl.is_bounded() {
        bounded.iter().map(|&c| Some(c)).collect()
    } else if fl.is_rendezvous() {
        vec![Some(0)]
    } else {
        vec![None]
    }
}

pub fn channel_scenarios() -> Vec<Scenario> {
    use Step::*;
    let mut b = ChanBuilder { out: Vec::new() };
    let sh = |name: &'static str, cap: Option<usize>, threads: Vec<ThreadProg>| Shape { name, cap, asyn: false, mix: Mix::Native, n_tx: 1, n_rx: 1, drains: true, prefill: vec![], threads };
    for fl in Flavour::ALL {
        // A: producer sends two and leaves; consumer probes once, blocks until Disconnected, probes again.
        //    cap 1: the producer must park and be woken; the consumer parks on empty and is woken.
        for cap in caps_of(fl, &[1, 2]) {
            b.add(fl, sh("1p1c_send2_drain", cap, vec![tp(None, Some(0), vec![TryRecv, Drain, TryRecv]), tp(Some(0), None, vec![Send(1), Send(2)])]));
        }
        if fl.is_bounded() {
            // A': same back-pressure with the first value placed before the threads start (smaller space)
            b.add(fl, Shape { prefill: vec![1], ..sh("backpressure_prefilled", Some(1), vec![tp(None, Some(0), vec![Drain]), tp(Some(0), None, vec![Send(2)])]) });
            b.add(fl, Shape { prefill: vec![1], ..sh("backpressure_prefilled_trydrain", Some(1), vec![tp(None, Some(0), vec![DrainTry]), tp(Some(0), None, vec![Send(2)])]) });
            b.add(fl, Shape { prefill: vec![1], asyn: true, ..sh("async_backpressure_prefilled", Some(1), vec![tp(None, Some(0), vec![Drain]), tp(Some(0), None, vec![Send(2)])]) });
            // ring wrap: three values through capacity 2
            b.add(fl, Shape { prefill: vec![1], ..sh("wrap_prefilled_send2_drain", Some(2), vec![tp(None, Some(0), vec![Drain]), tp(Some(0), None, vec![Send(2), Send(3)])]) });
        }
        // B: last sender publishes its final item and drops while the consumer polls with try_recv
        for cap in caps_of(fl, &[1]) {
            b.add(fl, sh("straggler_trydrain", cap, vec![tp(None, Some(0), vec![DrainTry]), tp(Some(0), None, vec![Send(1)])]));
        }
        // C: blocked sender, consumer only ever uses try_recv (keeps receiving until Disconnected)
        if fl.is_bounded() {
            b.add(fl, sh("send2_vs_trydrain", Some(1), vec![tp(None, Some(0), vec![DrainTry]), tp(Some(0), None, vec![Send(1), Send(2)])]));
        }
        // D: try_send x2 against a draining consumer (Full hand-back, false Full, rendezvous pairing)
        for cap in caps_of(fl, &[1]) {
            b.add(fl, sh("try_send2_vs_drain", cap, vec![tp(None, Some(0), vec![TryRecv, Drain]), tp(Some(0), None, vec![TrySend(1), TrySend(2)])]));
        }
        // E: receiver dropped while the sender sends / is parked
        for cap in caps_of(fl, &[1]) {
            b.add(fl, Shape { drains: false, ..sh("rxdrop_vs_send2", cap, vec![tp(None, Some(0), vec![DropRx]), tp(Some(0), None, vec![Send(1), Send(2)])]) });
            if !fl.is_unbounded() {
                b.add(fl, Shape { drains: false, ..sh("recv_rxdrop_vs_send2", cap, vec![tp(None, Some(0), vec![Recv, DropRx]), tp(Some(0), None, vec![Send(1), Send(2)])]) });
            }
        }
        // F: last sender dropped while the receiver is (about to be) parked
        for cap in caps_of(fl, &[1]) {
            b.add(fl, sh("txdrop_vs_recv", cap, vec![tp(None, Some(0), vec![TryRecv, Recv]), tp(Some(0), None, vec![])]));
        }
        // G/H: timed receive (ZERO) racing a send: Ok for the sender means somebody receives it
        for cap in caps_of(fl, &[1]) {
            b.add(fl, sh("timeout0_vs_try_send", cap, vec![tp(None, Some(0), vec![RecvT0, Drain]), tp(Some(0), None, vec![TrySend(1)])]));
            b.add(fl, sh("timeout0_vs_send", cap, vec![tp(None, Some(0), vec![RecvT0, Drain]), tp(Some(0), None, vec![Send(1)])]));
        }
        // N: batch of two (parks mid-batch at cap 1; one swap publishes two nodes on the chains)
        if fl.has_batch() {
            for cap in caps_of(fl, &[1]) {
                b.add(fl, sh("send_batch2_vs_drain", cap, vec![tp(None, Some(0), vec![TryRecv, Drain]), tp(Some(0), None, vec![SendBatch(vec![1, 2])])]));
            }
        }
        if fl.multi_tx() {
            // I: two producers, one item each
            for cap in caps_of(fl, &[1, 2]) {
                b.add(
                    fl,
                    Shape { n_tx: 2, ..sh("2p1c_send1_each", cap, vec![tp(None, Some(0), vec![Drain]), tp(Some(0), None, vec![Send(11)]), tp(Some(1), None, vec![Send(21)])]) },
                );
            }
            // one of two sender clones is dropped while the other sends: nothing may disconnect
            for cap in caps_of(fl, &[1]) {
                b.add(fl, Shape { n_tx: 2, ..sh("txclone_drop_vs_send", cap, vec![tp(None, Some(0), vec![Drain]), tp(Some(0), None, vec![Send(11)]), tp(Some(1), None, vec![DropTx])]) });
            }
        }
        if fl.multi_tx() && fl.has_batch() {
            // I': two producers racing for the window, the consumer drains with batch receives (tombstoned claims
            //     must still return their credit)
            for cap in caps_of(fl, &[1, 2]) {
                b.add(
                    fl,
                    Shape { n_tx: 2, ..sh("2p1c_send1_each_drain_batch2", cap, vec![tp(None, Some(0), vec![DrainBatch(2)]), tp(Some(0), None, vec![Send(11)]), tp(Some(1), None, vec![Send(21)])]) },
                );
            }
        }
        if fl.multi_tx() && fl.is_bounded() {
            // E': the last receiver goes away with TWO senders blocked on the full channel: both must come back Closed
            b.add(
                fl,
                Shape { n_tx: 2, drains: false, prefill: vec![1], ..sh("rxdrop_vs_2_blocked_senders", Some(1), vec![tp(None, Some(0), vec![DropRx]), tp(Some(0), None, vec![Send(11)]), tp(Some(1), None, vec![Send(21)])]) },
            );
            b.add(
                fl,
                Shape {
                    n_tx: 2,
                    drains: false,
                    prefill: vec![1],
                    mix: Mix::TxSyncRxAsync,
                    ..sh("mix_synctx_asyncrx_rxdrop_vs_2_blocked_senders", Some(1), vec![tp(None, Some(0), vec![DropRx]), tp(Some(0), None, vec![Send(11)]), tp(Some(1), None, vec![Send(21)])])
                },
            );
            b.add(
                fl,
                Shape {
                    n_tx: 2,
                    drains: false,
                    prefill: vec![1],
                    mix: Mix::TxAsyncRxSync,
                    ..sh("mix_asynctx_syncrx_rxdrop_vs_2_pending_senders", Some(1), vec![tp(None, Some(0), vec![DropRx]), tp(Some(0), None, vec![Send(11)]), tp(Some(1), None, vec![Send(21)])])
                },
            );
            // L': two producers claim a run of two each into capacity 2 (the window fits one run): batch claim overshoot
            b.add(
                fl,
                Shape {
                    n_tx: 2,
                    ..sh("try_send_batch2_race_idle_rx", Some(2), vec![tp(None, Some(0), vec![JoinAll, Drain]), tp(Some(0), None, vec![TrySendBatch(vec![11, 12])]), tp(Some(1), None, vec![TrySendBatch(vec![21, 22])])])
                },
            );
            b.add(fl, Shape { n_tx: 2, ..sh("2p_send_batch2_each", Some(2), vec![tp(None, Some(0), vec![Drain]), tp(Some(0), None, vec![SendBatch(vec![11, 12])]), tp(Some(1), None, vec![SendBatch(vec![21, 22])])]) });
            // L: two try_sends race for the single slot
            b.add(
                fl,
                Shape { n_tx: 2, ..sh("try_send_race_idle_rx", Some(1), vec![tp(None, Some(0), vec![JoinAll, Drain]), tp(Some(0), None, vec![TrySend(11)]), tp(Some(1), None, vec![TrySend(21)])]) },
            );
            b.add(fl, Shape { n_tx: 2, ..sh("try_send_race_vs_drain", Some(1), vec![tp(None, Some(0), vec![Drain]), tp(Some(0), None, vec![TrySend(11)]), tp(Some(1), None, vec![TrySend(21)])]) });
        }
        if fl.multi_rx() {
            // J: one producer, two draining consumers
            for cap in caps_of(fl, &[1]) {
                b.add(fl, Shape { n_rx: 2, ..sh("1p2c_send2_drain", cap, vec![tp(None, Some(0), vec![Drain]), tp(Some(0), None, vec![Send(1), Send(2)]), tp(None, Some(1), vec![Drain])]) });
                b.add(fl, Shape { n_rx: 2, ..sh("1p2c_send1_drain", cap, vec![tp(None, Some(0), vec![Drain]), tp(Some(0), None, vec![Send(1)]), tp(None, Some(1), vec![Drain])]) });
                // one of two receiver clones is dropped while the sender sends: no Closed
                b.add(
                    fl,
                    Shape { n_rx: 2, ..sh("rxclone_drop_vs_send", cap, vec![tp(None, Some(0), vec![Drain]), tp(Some(0), None, vec![Send(1)]), tp(None, Some(1), vec![DropRx])]) },
                );
            }
            // K: two receivers each block in one recv; the producer stays alive until both are back
            for cap in caps_of(fl, &[2]) {
                b.add(
                    fl,
                    Shape {
                        n_rx: 2,
                        drains: false,
                        ..sh("send2_vs_2recv_sender_alive", cap, vec![tp(Some(0), None, vec![Send(1), Send(2), JoinAll]), tp(None, Some(0), vec![Recv]), tp(None, Some(1), vec![Recv])])
                    },
                );
                if fl.has_batch() {
                    b.add(
                        fl,
                        Shape {
                            n_rx: 2,
                            drains: false,
                            ..sh("batch2_vs_2recv_sender_alive", cap, vec![tp(Some(0), None, vec![SendBatch(vec![1, 2]), JoinAll]), tp(None, Some(0), vec![Recv]), tp(None, Some(1), vec![Recv])])
                        },
                    );
                }
            }
        }
        // P: batch receives (blocking / awaited recv_batch until Disconnected) against single and batch sends
        if fl.has_batch() {
            for cap in caps_of(fl, &[1, 2]) {
                b.add(fl, sh("send2_vs_drain_batch2", cap, vec![tp(None, Some(0), vec![TryRecvBatch(2), DrainBatch(2)]), tp(Some(0), None, vec![Send(1), Send(2)])]));
            }
            for cap in caps_of(fl, &[2]) {
                b.add(fl, sh("send_batch2_vs_drain_batch2", cap, vec![tp(None, Some(0), vec![DrainBatch(2)]), tp(Some(0), None, vec![SendBatch(vec![1, 2])])]));
                b.add(fl, Shape { asyn: true, ..sh("async_send2_vs_drain_batch2", cap, vec![tp(None, Some(0), vec![DrainBatch(2)]), tp(Some(0), None, vec![Send(1), Send(2)])]) });
            }
        }
        // Q: the timed receive parks for real (hook H7: untimed loom park, deadline never reached) and must be woken
        for cap in caps_of(fl, &[1]) {
            b.add(fl, sh("tlong_vs_send", cap, vec![tp(None, Some(0), vec![TryRecv, RecvTLong, Drain]), tp(Some(0), None, vec![Send(1)])]));
            b.add(fl, sh("tlong_vs_txdrop", cap, vec![tp(None, Some(0), vec![RecvTLong]), tp(Some(0), None, vec![])]));
        }
        // R: explicit close() instead of drop
        for cap in caps_of(fl, &[1]) {
            b.add(fl, sh("txclose_vs_recv", cap, vec![tp(None, Some(0), vec![TryRecv, Drain]), tp(Some(0), None, vec![Send(1), CloseTx])]));
            b.add(fl, Shape { drains: false, ..sh("rxclose_vs_send2", cap, vec![tp(None, Some(0), vec![CloseRx]), tp(Some(0), None, vec![Send(1), Send(2)])]) });
            b.add(fl, Shape { asyn: true, ..sh("async_txclose_vs_recv", cap, vec![tp(None, Some(0), vec![Drain]), tp(Some(0), None, vec![Send(1), CloseTx])]) });
            if !fl.is_unbounded() {
                b.add(fl, Shape { asyn: true, drains: false, ..sh("async_rxclose_vs_send2", cap, vec![tp(None, Some(0), vec![CloseRx]), tp(Some(0), None, vec![Send(1), Send(2)])]) });
            }
        }
        // S: sync and async handles mixed on one channel (one side converted with to_async())
        for cap in caps_of(fl, &[1]) {
            b.add(fl, Shape { mix: Mix::TxSyncRxAsync, ..sh("mix_synctx_asyncrx_send2_drain", cap, vec![tp(None, Some(0), vec![TryRecv, Drain]), tp(Some(0), None, vec![Send(1), Send(2)])]) });
            b.add(fl, Shape { mix: Mix::TxAsyncRxSync, ..sh("mix_asynctx_syncrx_send2_drain", cap, vec![tp(None, Some(0), vec![TryRecv, Drain]), tp(Some(0), None, vec![Send(1), Send(2)])]) });
            if !fl.is_unbounded() {
                b.add(fl, Shape { mix: Mix::TxSyncRxAsync, drains: false, ..sh("mix_synctx_asyncrx_rxdrop_vs_send2", cap, vec![tp(None, Some(0), vec![DropRx]), tp(Some(0), None, vec![Send(1), Send(2)])]) });
                b.add(fl, Shape { mix: Mix::TxAsyncRxSync, drains: false, ..sh("mix_asynctx_syncrx_rxdrop_vs_send2", cap, vec![tp(None, Some(0), vec![DropRx]), tp(Some(0), None, vec![Send(1), Send(2)])]) });
            }
            b.add(fl, Shape { mix: Mix::TxSyncRxAsync, ..sh("mix_synctx_asyncrx_txdrop_vs_recv", cap, vec![tp(None, Some(0), vec![TryRecv, Recv]), tp(Some(0), None, vec![])]) });
        }
        // M: async handles on the mini executor
        for cap in caps_of(fl, &[1]) {
            b.add(fl, Shape { asyn: true, ..sh("async_1p1c_send2_drain", cap, vec![tp(None, Some(0), vec![TryRecv, Drain]), tp(Some(0), None, vec![Send(1), Send(2)])]) });
            b.add(fl, Shape { asyn: true, ..sh("async_recvfut_drop_vs_send", cap, vec![tp(None, Some(0), vec![RecvPollDrop, Drain]), tp(Some(0), None, vec![Send(1)])]) });
            b.add(fl, Shape { asyn: true, ..sh("async_recvfut_drop_vs_try_send", cap, vec![tp(None, Some(0), vec![RecvPollDrop, Drain]), tp(Some(0), None, vec![TrySend(1)])]) });
            if !fl.is_unbounded() {
                b.add(fl, Shape { asyn: true, drains: false, ..sh("async_rxdrop_vs_send2", cap, vec![tp(None, Some(0), vec![DropRx]), tp(Some(0), None, vec![Send(1), Send(2)])]) });
            }
        }
    }
    b.out
}

/// oneshot (hook H5): `send` consumes its handle and there is no blocking receive, so it has its own shapes
pub fn oneshot_scenarios() -> Vec<Scenario> {
    use Step::*;
    let mut b = ChanBuilder { out: Vec::new() };
    let fl = Flavour::Oneshot;
    let sh = |name: &'static str, threads: Vec<ThreadProg>| Shape { name, cap: Some(1), asyn: true, mix: Mix::Native, n_tx: 1, n_rx: 1, drains: true, prefill: vec![], threads };
    // the receiver awaits the value while the only sender sends and goes away
    b.add(fl, sh("send_vs_recv", vec![tp(None, Some(0), vec![Recv]), tp(Some(0), None, vec![TrySend(1)])]));
    // ... or probes first (try_recv racing the WRITING -> SENT window), then awaits
    b.add(fl, sh("send_vs_try_recv_then_recv", vec![tp(None, Some(0), vec![TryRecv, Recv]), tp(Some(0), None, vec![TrySend(1)])]));
    // the sender goes away without sending: the awaiting receiver must be woken with Disconnected
    b.add(fl, sh("txdrop_vs_recv", vec![tp(None, Some(0), vec![Recv]), tp(Some(0), None, vec![])]));
    // a recv future is polled once and dropped while the sender sends; a fresh recv must still get the value
    b.add(fl, sh("recvfut_drop_vs_send", vec![tp(None, Some(0), vec![RecvPollDrop, Recv]), tp(Some(0), None, vec![TrySend(1)])]));
    // receiver dropped while the sender is between its checks: Ok (orphan destroyed once) or Closed (handed back)
    b.add(fl, Shape { drains: false, ..sh("rxdrop_vs_send", vec![tp(None, Some(0), vec![DropRx]), tp(Some(0), None, vec![TrySend(1)])]) });
    b.add(fl, Shape { drains: false, ..sh("try_recv_rxdrop_vs_send", vec![tp(None, Some(0), vec![TryRecv, DropRx]), tp(Some(0), None, vec![TrySend(1)])]) });
    // two sender clones race: exactly one wins, the loser gets its value back, the receiver gets the winner's
    b.add(fl, Shape { n_tx: 2, ..sh("2tx_race_vs_recv", vec![tp(None, Some(0), vec![Recv]), tp(Some(0), None, vec![TrySend(11)]), tp(Some(1), None, vec![TrySend(21)])]) });
    b.add(fl, Shape { n_tx: 2, ..sh("2tx_race_idle_rx", vec![tp(None, Some(0), vec![JoinAll, Recv]), tp(Some(0), None, vec![TrySend(11)]), tp(Some(1), None, vec![TrySend(21)])]) });
    // one clone is dropped while the other sends: the receiver must not see Disconnected instead of the value
    b.add(fl, Shape { n_tx: 2, ..sh("txclone_drop_vs_send_vs_recv", vec![tp(None, Some(0), vec![Recv]), tp(Some(0), None, vec![TrySend(11)]), tp(Some(1), None, vec![DropTx])]) });
    // sender racing a receiver drop with a second sender clone still alive afterwards (backtrack path)
    b.add(fl, Shape { n_tx: 2, drains: false, ..sh("rxdrop_vs_2tx", vec![tp(None, Some(0), vec![DropRx]), tp(Some(0), None, vec![TrySend(11)]), tp(Some(1), None, vec![TrySend(21)])]) });
    let mut out = b.out;
    for s in out.iter_mut() {
        // small spaces: deeper bounds than the default tiers
        if s.threads == 2 {
            s.pb_quick = Some(3);
            s.pb_thorough = Some(6);
        } else {
            s.pb_quick = Some(2);
            s.pb_thorough = Some(4);
        }
        s.props = vec!["C01", "C03", "C04", "C06", "C09"];
    }
    out
}

pub fn all_scenarios() -> Vec<Scenario> {
    let mut v = channel_scenarios();
    v.extend(oneshot_scenarios());
    v.extend(bcast::scenarios());
    v.extend(locks::scenarios());
    v
}

pub fn find(name: &str) -> Option<Scenario> {
    all_scenarios().into_iter().find(|s| s.name == name)
}
