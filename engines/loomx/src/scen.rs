//! Scenario registry: every scenario is one `loom::model::Builder::check` of a tiny driver.
use crate::bcast::{self, BcastScen};
use crate::chan::Flavour;
use crate::locks::{self, LockScen};
use crate::prog::{ChanScen, Step, ThreadProg};

#[derive(Clone, Debug)]
pub enum Body {
    Chan(ChanScen),
    Bcast(BcastScen),
    Lock(LockScen),
}

#[derive(Clone, Debug)]
pub struct Scenario {
    /// `<component>/<shape>`
    pub name: String,
    pub component: String,
    pub shape: String,
    pub props: Vec<&'static str>,
    pub threads: usize,
    pub ops: usize,
    pub cap: String,
    /// preemption bound per tier (None: not run in that tier)
    pub pb_quick: Option<usize>,
    pub pb_thorough: Option<usize>,
    pub body: Body,
}

fn tp(tx: Option<u8>, rx: Option<u8>, steps: Vec<Step>) -> ThreadProg {
    ThreadProg { tx, rx, steps }
}

fn cap_name(c: Option<usize>) -> String {
    match c {
        None => "unbounded".into(),
        Some(0) => "0".into(),
        Some(n) => n.to_string(),
    }
}

const CHAN_PROPS: [&str; 6] = ["C01", "C02", "C03", "C04", "C05", "C09"];

struct ChanBuilder {
    out: Vec<Scenario>,
}
impl ChanBuilder {
    #[allow(clippy::too_many_arguments)]
    fn add(&mut self, fl: Flavour, shape: &str, cap: Option<usize>, asyn: bool, n_tx: u8, n_rx: u8, drains: bool, threads: Vec<ThreadProg>, tiers: (Option<usize>, Option<usize>)) {
        let nthreads = threads.len();
        let ops = threads.iter().map(|t| t.steps.len()).max().unwrap_or(0);
        let shape_full = if fl.is_bounded() { format!("{}_cap{}", shape, cap.unwrap()) } else { shape.to_string() };
        self.out.push(Scenario {
            name: format!("{}/{}", fl.name(), shape_full),
            component: fl.name().into(),
            shape: shape_full,
            props: CHAN_PROPS.to_vec(),
            threads: nthreads,
            ops,
            cap: cap_name(cap),
            pb_quick: tiers.0,
            pb_thorough: tiers.1,
            body: Body::Chan(ChanScen { flavour: fl, cap, asyn, n_tx, n_rx, threads, drains }),
        });
    }
}

fn caps_of(fl: Flavour, bounded: &[usize]) -> Vec<Option<usize>> {
    if fl.is_bounded() {
        bounded.iter().map(|&c| Some(c)).collect()
    } else if fl.is_rendezvous() {
        vec![Some(0)]
    } else {
        vec![None]
    }
}

pub fn channel_scenarios() -> Vec<Scenario> {
    use Step::*;
    let mut b = ChanBuilder { out: Vec::new() };
    let t2 = (Some(2), Some(3));
    let t3 = (Some(1), Some(2));
    for fl in Flavour::ALL {
        // A: producer sends two and leaves; consumer blocks until Disconnected, then probes once more.
        //    cap 1: the producer must park and be woken; the consumer parks on empty and is woken.
        for cap in caps_of(fl, &[1, 2]) {
            b.add(fl, "1p1c_send2_drain", cap, false, 1, 1, true, vec![tp(None, Some(0), vec![TryRecv, Drain, TryRecv]), tp(Some(0), None, vec![Send(1), Send(2)])], t2);
        }
        // B: last sender publishes its final item and drops while the consumer polls with try_recv
        for cap in caps_of(fl, &[1]) {
            b.add(fl, "straggler_trydrain", cap, false, 1, 1, true, vec![tp(None, Some(0), vec![DrainTry]), tp(Some(0), None, vec![Send(1)])], t2);
        }
        // C: blocked sender, consumer only ever uses try_recv (keeps receiving until Disconnected)
        if fl.is_bounded() {
            b.add(fl, "send2_vs_trydrain", Some(1), false, 1, 1, true, vec![tp(None, Some(0), vec![DrainTry]), tp(Some(0), None, vec![Send(1), Send(2)])], t2);
        }
        // D: try_send x2 against a draining consumer (Full hand-back, false Full, rendezvous pairing)
        for cap in caps_of(fl, &[1]) {
            b.add(fl, "try_send2_vs_drain", cap, false, 1, 1, true, vec![tp(None, Some(0), vec![Drain]), tp(Some(0), None, vec![TrySend(1), TrySend(2)])], t2);
        }
        // E: receiver dropped while the sender sends / is parked
        for cap in caps_of(fl, &[1]) {
            b.add(fl, "rxdrop_vs_send2", cap, false, 1, 1, false, vec![tp(None, Some(0), vec![DropRx]), tp(Some(0), None, vec![Send(1), Send(2)])], t2);
            if !fl.is_unbounded() {
                b.add(fl, "recv_rxdrop_vs_send2", cap, false, 1, 1, false, vec![tp(None, Some(0), vec![Recv, DropRx]), tp(Some(0), None, vec![Send(1), Send(2)])], t2);
            }
        }
        // F: last sender dropped while the receiver is (about to be) parked
        for cap in caps_of(fl, &[1]) {
            b.add(fl, "txdrop_vs_recv", cap, false, 1, 1, true, vec![tp(None, Some(0), vec![TryRecv, Recv]), tp(Some(0), None, vec![])], t2);
        }
        // G/H: timed receive (ZERO) racing a send: Ok for the sender means somebody receives it
        for cap in caps_of(fl, &[1]) {
            b.add(fl, "timeout0_vs_try_send", cap, false, 1, 1, true, vec![tp(None, Some(0), vec![RecvT0, Drain]), tp(Some(0), None, vec![TrySend(1)])], t2);
            b.add(fl, "timeout0_vs_send", cap, false, 1, 1, true, vec![tp(None, Some(0), vec![RecvT0, Drain]), tp(Some(0), None, vec![Send(1)])], t2);
        }
        // N: batch of two (parks mid-batch at cap 1; one swap publishes two nodes on the chains)
        if fl.has_batch() {
            for cap in caps_of(fl, &[1]) {
                b.add(fl, "send_batch2_vs_drain", cap, false, 1, 1, true, vec![tp(None, Some(0), vec![TryRecv, Drain]), tp(Some(0), None, vec![SendBatch(vec![1, 2])])], t2);
            }
        }
        // I: two producers, one item each
        if fl.multi_tx() {
            for cap in caps_of(fl, &[1, 2]) {
                b.add(
                    fl,
                    "2p1c_send1_each",
                    cap,
                    false,
                    2,
                    1,
                    true,
                    vec![tp(None, Some(0), vec![Drain]), tp(Some(0), None, vec![Send(11)]), tp(Some(1), None, vec![Send(21)])],
                    t3,
                );
            }
        }
        if fl.multi_tx() && fl.is_bounded() {
            // L: two try_sends race for the single slot
            b.add(
                fl,
                "try_send_race_idle_rx",
                Some(1),
                false,
                2,
                1,
                true,
                vec![tp(None, Some(0), vec![JoinAll, Drain]), tp(Some(0), None, vec![TrySend(11)]), tp(Some(1), None, vec![TrySend(21)])],
                t3,
            );
            b.add(
                fl,
                "try_send_race_vs_drain",
                Some(1),
                false,
                2,
                1,
                true,
                vec![tp(None, Some(0), vec![Drain]), tp(Some(0), None, vec![TrySend(11)]), tp(Some(1), None, vec![TrySend(21)])],
                t3,
            );
        }
        if fl.multi_rx() {
            // J: one producer, two draining consumers
            for cap in caps_of(fl, &[1]) {
                b.add(
                    fl,
                    "1p2c_send2_drain",
                    cap,
                    false,
                    1,
                    2,
                    true,
                    vec![tp(None, Some(0), vec![Drain]), tp(Some(0), None, vec![Send(1), Send(2)]), tp(None, Some(1), vec![Drain])],
                    t3,
                );
            }
            // K: two receivers each block in one recv; the producer stays alive until both are back
            for cap in caps_of(fl, &[2]) {
                b.add(
                    fl,
                    "send2_vs_2recv_sender_alive",
                    cap,
                    false,
                    1,
                    2,
                    false,
                    vec![tp(Some(0), None, vec![Send(1), Send(2), JoinAll]), tp(None, Some(0), vec![Recv]), tp(None, Some(1), vec![Recv])],
                    t3,
                );
                if fl.has_batch() {
                    b.add(
                        fl,
                        "batch2_vs_2recv_sender_alive",
                        cap,
                        false,
                        1,
                        2,
                        false,
                        vec![tp(Some(0), None, vec![SendBatch(vec![1, 2]), JoinAll]), tp(None, Some(0), vec![Recv]), tp(None, Some(1), vec![Recv])],
                        t3,
                    );
                }
            }
        }
        // M: async handles on the mini executor
        for cap in caps_of(fl, &[1]) {
            b.add(fl, "async_1p1c_send2_drain", cap, true, 1, 1, true, vec![tp(None, Some(0), vec![TryRecv, Drain]), tp(Some(0), None, vec![Send(1), Send(2)])], t2);
            b.add(fl, "async_recvfut_drop_vs_send", cap, true, 1, 1, true, vec![tp(None, Some(0), vec![RecvPollDrop, Drain]), tp(Some(0), None, vec![Send(1)])], t2);
            b.add(fl, "async_recvfut_drop_vs_try_send", cap, true, 1, 1, true, vec![tp(None, Some(0), vec![RecvPollDrop, Drain]), tp(Some(0), None, vec![TrySend(1)])], t2);
            if !fl.is_unbounded() {
                b.add(fl, "async_rxdrop_vs_send2", cap, true, 1, 1, false, vec![tp(None, Some(0), vec![DropRx]), tp(Some(0), None, vec![Send(1), Send(2)])], t2);
            }
        }
    }
    b.out
}

pub fn all_scenarios() -> Vec<Scenario> {
    let mut v = channel_scenarios();
    v.extend(bcast::scenarios());
    v.extend(locks::scenarios());
    v
}

pub fn find(name: &str) -> Option<Scenario> {
    all_scenarios().into_iter().find(|s| s.name == name)
}
