//! E1 `loomx`: exhaustive interleavings (bounded preemptions) of tiny drivers on the real fibre
//! channels and hybrid locks under loom, with history oracles. See /verif/DESIGN.md "E1 loomx".
//!
//!   loomx run --tier quick|thorough --out report.json [--props C01,C05] [--jobs N] [--only substr]
//!   loomx replay <replay.json>
//!   loomx run-one <scenario> --pb N --max-secs S        (child process, one loom model)
//!   loomx list
mod bcast;
mod chan;
mod exec;
mod locks;
mod oracle;
mod prog;
mod rt;
mod scen;
mod selftest;

use scen::{Body, Scenario};
use serde::{Deserialize, Serialize};
use std::collections::BTreeMap;
use std::io::Read;
use std::process::{Command, Stdio};
use std::sync::{Arc, Mutex};
use std::time::{Duration, Instant};
use vcommon::{Report, Violation};

const MAX_BRANCHES: usize = 100_000;

#[derive(Serialize, Deserialize, Clone, Debug, Default)]
struct ChildResult {
    executions: u64,
    transitions: u64,
    nontrivial: u64,
    distinct_outcomes: u64,
    samples: Vec<Vec<rt::Ev>>,
    capped: Option<String>,
    failure: Option<rt::PanicInfo>,
    wall_s: f64,
}

// ------------------------------------------------------------------ child: one loom model

fn run_body(sc: &Scenario) {
    match &sc.body {
        Body::Chan(c) => prog::run_once(c, &sc.shape),
        Body::Bcast(b) => bcast::run_once(b),
        Body::Lock(l) => locks::run_once(l),
    }
}

/// extra knobs of the child: capture the schedule of iteration K into a file / start from such a file
#[derive(Clone, Debug, Default)]
struct Ckpt {
    /// write loom's path file right before iteration K runs
    capture_at: Option<u64>,
    /// start from the path in this file and run exactly one iteration
    from: bool,
    file: Option<String>,
    trace: bool,
}

fn run_one(name: &str, pb: usize, max_secs: f64, ck: &Ckpt) -> i32 {
    let sc = match scen::find(name) {
        Some(s) => s,
        None => {
            eprintln!("unknown scenario {}", name);
            return 2;
        }
    };
    rt::install_panic_hook();
    rt::stats_init();
    let t0 = Instant::now();
    let mut b = loom::model::Builder::new();
    b.preemption_bound = Some(pb);
    b.max_branches = MAX_BRANCHES;
    b.max_threads = 4;
    b.max_duration = None;
    b.max_permutations = None;
    b.checkpoint_file = None;
    b.checkpoint_interval = 1_000_000_000;
    b.log = false;
    b.location = false;
    if let Some(f) = &ck.file {
        if let Some(k) = ck.capture_at {
            // `i % interval == 0` holds exactly at i = K (and 2K, ...): one write, before iteration K
            let _ = std::fs::remove_file(f);
            b.checkpoint_file = Some(f.into());
            b.checkpoint_interval = k.max(1) as usize;
        } else if ck.from {
            // the loaded path is the first iteration; stop at the top of the second
            b.checkpoint_file = Some(f.into());
            b.checkpoint_interval = 1;
            b.max_permutations = Some(2);
        }
    }
    if ck.trace {
        b.log = true;
        b.location = true;
        let sub = tracing_subscriber::fmt::Subscriber::builder()
            .with_env_filter(tracing_subscriber::EnvFilter::new(std::env::var("LOOMX_TRACE").unwrap_or_else(|_| "loom=trace".into())))
            .with_writer(std::io::stderr)
            .without_time()
            .finish();
        let _ = tracing_subscriber::util::SubscriberInitExt::try_init(sub);
    }
    let sc2 = sc.clone();
    let start = Instant::now();
    let res = std::panic::catch_unwind(std::panic::AssertUnwindSafe(|| {
        b.check(move || {
            if start.elapsed().as_secs_f64() > max_secs {
                // raised before any loom object exists in this iteration: unwinds cleanly
                panic!("CAP|duration|{} s", max_secs);
            }
            rt::begin_execution();
            run_body(&sc2);
            rt::end_execution();
        });
    }));
    let failure = if res.is_err() { rt::first_panic() } else { None };
    let st = rt::stats_take();
    let mut out = ChildResult {
        executions: st.executions,
        transitions: st.transitions,
        nontrivial: st.nontrivial,
        distinct_outcomes: st.outcomes.len() as u64,
        samples: st.samples,
        capped: None,
        failure,
        wall_s: t0.elapsed().as_secs_f64(),
    };
    if let Some(f) = &out.failure {
        if f.message.starts_with("CAP|duration") {
            out.capped = Some(format!("max_duration {} s reached after {} executions", max_secs, out.executions));
            out.failure = None;
        }
    }
    println!("DONE {}", serde_json::to_string(&out).unwrap());
    use std::io::Write;
    let _ = std::io::stdout().flush();
    // loom objects of a failed execution cannot be torn down safely: leave at once
    std::process::exit(0);
}

// ------------------------------------------------------------------ parent: classification

#[derive(Clone, Debug)]
enum Verdict {
    Clean,
    /// (property, rule, message) — one entry per property the failure counts for
    Violation(Vec<(String, String, String)>),
    /// cap / machinery trouble: not a verdict
    Capped(String),
}

fn classify(sc: &Scenario, msg: &str) -> Verdict {
    let first = msg.lines().next().unwrap_or("").to_string();
    if let Some(rest) = msg.strip_prefix("ORACLE|") {
        let parts: Vec<&str> = rest.splitn(4, '|').collect();
        if parts.len() == 4 {
            if parts[0] == "MACHINERY" {
                return Verdict::Capped(format!("machinery: {}", first));
            }
            let detail = parts[3].rsplit_once(" @ ").map(|x| x.0).unwrap_or(parts[3]);
            return Verdict::Violation(vec![(parts[0].to_string(), parts[1].to_string(), format!("{}: {}", parts[2], detail))]);
        }
    }
    if msg.starts_with("MACHINERY|") {
        return Verdict::Capped(format!("machinery: {}", first));
    }
    if msg.contains("not modeled under loom") {
        return Verdict::Capped(format!("shape reaches a mocked time primitive: {}", first));
    }
    if msg.contains("Model exceeded maximum number of branches") {
        return Verdict::Capped(format!("max_branches {} exceeded in one execution (possible livelock, not decided)", MAX_BRANCHES));
    }
    if msg.contains("deadlock; threads") {
        let m = format!("loom: all live threads blocked — {}", first);
        let mut v = Vec::new();
        match sc.body {
            // a task on the mini executor that is never woken is an async lost wakeup (C06);
            // a thread parked in a blocking operation is C05
            Body::Chan(ref c) if c.mix != chan::Mix::Native => {
                // sync and async handles mixed: the stuck party may be a parked thread or a task that is never woken
                v.push(("C05".to_string(), "deadlock".to_string(), m.clone()));
                v.push(("C06".to_string(), "deadlock".to_string(), m));
            }
            Body::Chan(ref c) if c.asyn => v.push(("C06".to_string(), "deadlock".to_string(), m)),
            Body::Chan(_) => v.push(("C05".to_string(), "deadlock".to_string(), m)),
            Body::Bcast(ref bc) => {
                if bc.mix != 0 {
                    v.push(("C05".to_string(), "deadlock".to_string(), m.clone()));
                    v.push(("C06".to_string(), "deadlock".to_string(), m.clone()));
                } else {
                    v.push((if bc.asyn { "C06" } else { "C05" }.to_string(), "deadlock".to_string(), m.clone()));
                }
                v.push(("C07".to_string(), "deadlock".to_string(), m));
            }
            Body::Lock(_) => v.push(("C10".to_string(), "deadlock".to_string(), m)),
        }
        return Verdict::Violation(v);
    }
    if msg.contains("Causality violation") || msg.contains("currently writing to cell") || msg.contains("currently reading from cell") {
        let m = format!("loom: unsynchronized access to the instrumented cell — {}", msg.replace('\n', " "));
        // an unordered access to a payload / slot cell means a value can be read torn, twice or not at all and
        // dropped twice: it counts against delivery (C01), order (C02) and drop accounting (C09) alike
        let list: Vec<(&str, &str)> = match sc.body {
            Body::Chan(_) => vec![("C01", "unsynchronized_payload"), ("C02", "unsynchronized_payload"), ("C09", "unsynchronized_payload")],
            Body::Bcast(_) => vec![("C07", "unsynchronized_payload"), ("C02", "unsynchronized_payload"), ("C09", "unsynchronized_payload")],
            Body::Lock(_) => vec![("C10", "mutual_exclusion")],
        };
        return Verdict::Violation(list.into_iter().map(|(p, r)| (p.to_string(), r.to_string(), m.clone())).collect());
    }
    if msg.contains("[loom internal bug]") || msg.contains("Is the model fully deterministic") || msg.contains("cannot access Loom execution state") {
        return Verdict::Capped(format!("loom machinery: {}", first));
    }
    // any other panic inside an operation of the code under test
    let p = match sc.body {
        Body::Chan(_) => "C01",
        Body::Bcast(_) => "C07",
        Body::Lock(_) => "C10",
    };
    Verdict::Violation(vec![(p.to_string(), "panic_in_operation".to_string(), format!("panic: {}", msg.replace('\n', " ")))])
}

struct ChildOutcome {
    result: Option<ChildResult>,
    panic: Option<rt::PanicInfo>,
    status: String,
    stderr_tail: String,
}

fn spawn_child(name: &str, pb: usize, max_secs: f64, extra: &[String]) -> ChildOutcome {
    let exe = std::env::current_exe().expect("current_exe");
    let child = Command::new(exe)
        .args(["run-one", name, "--pb", &pb.to_string(), "--max-secs", &max_secs.to_string()])
        .args(extra)
        .stdin(Stdio::null())
        .stdout(Stdio::piped())
        .stderr(Stdio::piped())
        .env_remove("LOOM_LOG")
        .env_remove("LOOM_LOCATION")
        .env_remove("LOOM_CHECKPOINT_FILE")
        .env_remove("LOOM_MAX_PREEMPTIONS")
        .env_remove("LOOM_MAX_BRANCHES")
        .spawn();
    let mut child = match child {
        Ok(c) => c,
        Err(e) => return ChildOutcome { result: None, panic: None, status: format!("spawn failed: {}", e), stderr_tail: String::new() },
    };
    let mut so = child.stdout.take().unwrap();
    let mut se = child.stderr.take().unwrap();
    let th = std::thread::spawn(move || {
        let mut s = String::new();
        let _ = se.read_to_string(&mut s);
        s
    });
    let mut out = String::new();
    let _ = so.read_to_string(&mut out);
    let status = child.wait().map(|s| format!("{}", s)).unwrap_or_else(|e| format!("wait failed: {}", e));
    let err = th.join().unwrap_or_default();
    let mut result = None;
    let mut panic = None;
    for line in out.lines() {
        if let Some(j) = line.strip_prefix("DONE ") {
            result = serde_json::from_str::<ChildResult>(j).ok();
        } else if let Some(j) = line.strip_prefix("PANIC ") {
            if panic.is_none() {
                panic = serde_json::from_str::<rt::PanicInfo>(j).ok();
            }
        }
    }
    let tail: String = err.chars().rev().take(600).collect::<String>().chars().rev().collect();
    ChildOutcome { result, panic, status, stderr_tail: tail }
}

#[derive(Clone)]
struct Job {
    sc: Scenario,
    pb: usize,
    max_secs: f64,
}

struct JobResult {
    scenario: vcommon::Scenario,
    violations: Vec<Violation>,
}

/// transient files (loom path of a failing iteration) live next to the binary, never under /tmp
fn scratch_file(name: &str) -> String {
    let dir = std::env::current_exe().ok().and_then(|p| p.parent().map(|d| d.join("loomx-scratch"))).unwrap_or_else(|| std::path::PathBuf::from("loomx-scratch"));
    let _ = std::fs::create_dir_all(&dir);
    dir.join(name).to_string_lossy().into_owned()
}

fn fingerprint(sc: &Scenario, prop: &str, rule: &str) -> String {
    format!("loomx/{}/{}.{}/{}", sc.component, prop, rule, sc.shape)
}

fn bounds_json(job: &Job) -> serde_json::Value {
    serde_json::json!({"preemption_bound": job.pb, "max_branches": MAX_BRANCHES, "max_secs": job.max_secs})
}

/// run the child; returns (counts, verdict, failing PanicInfo)
fn attempt(job: &Job, extra: &[String]) -> (ChildResult, Verdict, Option<rt::PanicInfo>) {
    let co = spawn_child(&job.sc.name, job.pb, job.max_secs, extra);
    let failure = co.result.as_ref().and_then(|r| r.failure.clone()).or(co.panic.clone());
    let mut res = co.result.clone().unwrap_or_default();
    if co.result.is_none() {
        if let Some(p) = &co.panic {
            res.executions = p.iteration;
        }
    }
    let verdict = if let Some(f) = &failure {
        if f.message.starts_with("CAP|duration") {
            Verdict::Capped(format!("max_duration {} s reached", job.max_secs))
        } else {
            classify(&job.sc, &f.message)
        }
    } else if let Some(r) = &co.result {
        match &r.capped {
            Some(c) => Verdict::Capped(c.clone()),
            None => Verdict::Clean,
        }
    } else {
        Verdict::Capped(format!("child died without a verdict ({}); stderr tail: {}", co.status, co.stderr_tail.replace('\n', " / ")))
    };
    (res, verdict, failure)
}

fn run_job(job: &Job) -> JobResult {
    let t0 = Instant::now();
    let (res, verdict, failure) = attempt(job, &[]);
    let mut caps: Vec<String> = Vec::new();
    let mut exhaustive = true;
    let mut violations = Vec::new();
    match verdict {
        Verdict::Clean => {}
        Verdict::Capped(c) => {
            exhaustive = false;
            caps.push(c);
        }
        Verdict::Violation(list) => {
            exhaustive = false;
            // same scenario once more in a fresh child: same fingerprints at the same iteration with the same log
            // the second run also captures loom's path of the failing iteration (one file write)
            let k = failure.as_ref().map(|f| f.iteration).unwrap_or(0);
            let ck = scratch_file(&format!("ckpt-{}-{}", std::process::id(), job.sc.name.replace('/', "_")));
            let (_r2, v2, f2) = attempt(job, &["--ckpt-at".into(), k.to_string(), "--ckpt-file".into(), ck.clone()]);
            let loom_path: serde_json::Value = std::fs::read_to_string(&ck).ok().and_then(|t| serde_json::from_str(&t).ok()).unwrap_or(serde_json::Value::Null);
            let _ = std::fs::remove_file(&ck);
            let same = match (&v2, &failure, &f2) {
                (Verdict::Violation(l2), Some(a), Some(b)) => {
                    l2.iter().map(|x| (&x.0, &x.1)).collect::<Vec<_>>() == list.iter().map(|x| (&x.0, &x.1)).collect::<Vec<_>>() && a.iteration == b.iteration && a.log == b.log
                }
                _ => false,
            };
            let f = failure.clone().unwrap();
            if same {
                caps.push(format!("exploration stopped at the first violating execution (iteration {})", f.iteration));
                for (prop, rule, msg) in list {
                    violations.push(Violation {
                        property: prop.clone(),
                        fingerprint: fingerprint(&job.sc, &prop, &rule),
                        message: format!("{} [scenario {}, iteration {}]", msg, job.sc.name, f.iteration),
                        scenario: job.sc.name.clone(),
                        replay: serde_json::json!({
                            "scenario": job.sc.name,
                            "bounds": bounds_json(job),
                            "iteration": f.iteration,
                            "log": f.log.iter().map(|e| e.short()).collect::<Vec<_>>(),
                            "loom_path": loom_path.clone(),
                        }),
                    });
                }
            } else {
                caps.push(format!(
                    "a failure at iteration {} did not reproduce identically in a fresh child (first: {}; second: {:?}) — not reported as a verdict",
                    f.iteration,
                    f.message.lines().next().unwrap_or(""),
                    f2.map(|x| x.message.lines().next().unwrap_or("").to_string())
                ));
            }
        }
    }
    let mut nontrivial = res.nontrivial;
    if res.distinct_outcomes <= 1 && exhaustive {
        // nothing collided: a single observable outcome is not evidence of anything
        nontrivial = 0;
    }
    let mut bound = BTreeMap::new();
    bound.insert("preemption_bound".to_string(), serde_json::json!(job.pb));
    bound.insert("threads".to_string(), serde_json::json!(job.sc.threads));
    bound.insert("ops".to_string(), serde_json::json!(job.sc.ops));
    bound.insert("ops_note".to_string(), serde_json::json!("program steps of the longest thread; a drain step repeats its receive until Disconnected"));
    bound.insert("capacity".to_string(), serde_json::json!(job.sc.cap));
    bound.insert("max_branches".to_string(), serde_json::json!(MAX_BRANCHES));
    bound.insert("max_secs".to_string(), serde_json::json!(job.max_secs));
    let samples = res.samples.iter().take(2).map(|l| serde_json::json!(l.iter().map(|e| e.short()).collect::<Vec<_>>())).collect();
    let scenario = vcommon::Scenario {
        name: job.sc.name.clone(),
        properties: job.sc.props.iter().map(|s| s.to_string()).collect(),
        executions: res.executions,
        states: res.executions,
        transitions: res.transitions,
        distinct_outcomes: res.distinct_outcomes,
        nontrivial,
        nontrivial_rule: "executions in which operations of two threads overlap in real time (a call of one lies between call and return of another); 0 if the whole scenario has a single observable outcome".into(),
        exhaustive,
        caps,
        bound,
        samples,
        wall_s: t0.elapsed().as_secs_f64(),
    };
    JobResult { scenario, violations }
}

// ------------------------------------------------------------------ CLI

fn arg_val(args: &[String], key: &str) -> Option<String> {
    args.iter().position(|a| a == key).and_then(|i| args.get(i + 1).cloned())
}

fn cmd_run(args: &[String]) -> i32 {
    let tier = arg_val(args, "--tier").unwrap_or_else(|| "quick".into());
    let out = match arg_val(args, "--out") {
        Some(o) => o,
        None => {
            eprintln!("--out required");
            return 2;
        }
    };
    let props: Option<Vec<String>> = arg_val(args, "--props").map(|p| p.split(',').map(|s| s.trim().to_string()).filter(|s| !s.is_empty()).collect());
    let jobs_n: usize = arg_val(args, "--jobs").and_then(|j| j.parse().ok()).unwrap_or(16).max(1);
    let only = arg_val(args, "--only");
    let thorough = tier == "thorough";
    let max_secs = arg_val(args, "--max-secs").and_then(|s| s.parse().ok()).unwrap_or(if thorough { 600.0 } else { 20.0 });
    // the checker checks itself first (vendored loom with patches): a broken checker is a machinery failure
    if !args.iter().any(|a| a == "--no-selftest") {
        let exe = std::env::current_exe().expect("current_exe");
        let st = Command::new(exe).arg("selftest").stdin(Stdio::null()).stdout(Stdio::piped()).stderr(Stdio::null()).output();
        let ok = matches!(&st, Ok(o) if o.status.success());
        if !ok {
            eprintln!("MACHINERY: loomx selftest (litmus tests of the model checker) failed:");
            if let Ok(o) = st {
                eprintln!("{}", String::from_utf8_lossy(&o.stdout));
            }
            return 2;
        }
    }
    let mut jobs: Vec<Job> = Vec::new();
    for sc in scen::all_scenarios() {
        if let Some(p) = &props {
            if !sc.props.iter().any(|x| p.iter().any(|y| y == x)) {
                continue;
            }
        }
        if let Some(o) = &only {
            if !sc.name.contains(o.as_str()) {
                continue;
            }
        }
        let pb = if thorough { sc.pb_thorough } else { sc.pb_quick };
        // experiment knob (not used by the driver): raise every bound by N
        let plus: usize = arg_val(args, "--pb-plus").and_then(|s| s.parse().ok()).unwrap_or(0);
        if let Some(pb) = pb.map(|p| p + plus) {
            jobs.push(Job { sc, pb, max_secs });
        }
    }
    // heavy shapes first
    let mut order: Vec<usize> = (0..jobs.len()).collect();
    order.sort_by_key(|&i| (std::cmp::Reverse(jobs[i].sc.threads), std::cmp::Reverse(jobs[i].sc.ops), i));
    let queue = Arc::new(Mutex::new(order.into_iter().rev().collect::<Vec<usize>>()));
    let results: Arc<Mutex<Vec<Option<JobResult>>>> = Arc::new(Mutex::new((0..jobs.len()).map(|_| None).collect()));
    let jobs = Arc::new(jobs);
    let t0 = Instant::now();
    let mut ths = Vec::new();
    for _ in 0..jobs_n.min(jobs.len().max(1)) {
        let queue = queue.clone();
        let results = results.clone();
        let jobs = jobs.clone();
        ths.push(std::thread::spawn(move || loop {
            let i = match queue.lock().unwrap().pop() {
                Some(i) => i,
                None => break,
            };
            let r = run_job(&jobs[i]);
            results.lock().unwrap()[i] = Some(r);
        }));
    }
    for t in ths {
        let _ = t.join();
    }
    let mut report = Report::new("loomx", &tier);
    let results = std::mem::take(&mut *results.lock().unwrap());
    for r in results.into_iter().flatten() {
        report.scenarios.push(r.scenario);
        for v in r.violations {
            report.push_violation(v);
        }
    }
    report.violations.sort_by(|a, b| a.fingerprint.cmp(&b.fingerprint));
    report.write(&out);
    let ex: u64 = report.scenarios.iter().map(|s| s.executions).sum();
    let capped = report.scenarios.iter().filter(|s| !s.exhaustive).count();
    eprintln!(
        "[loomx {}] {} scenarios, {} executions, {} not exhaustive, {} fingerprints, {:.1}s",
        tier,
        report.scenarios.len(),
        ex,
        capped,
        report.violations.len(),
        t0.elapsed().as_secs_f64()
    );
    for v in &report.violations {
        eprintln!("  {}  {}", v.fingerprint, v.message.chars().take(220).collect::<String>());
    }
    if report.scenarios.is_empty() {
        eprintln!("no scenario selected");
    }
    0
}

fn cmd_replay(path: &str) -> i32 {
    let txt = match std::fs::read_to_string(path) {
        Ok(t) => t,
        Err(e) => {
            eprintln!("cannot read {}: {}", path, e);
            return 2;
        }
    };
    let v: serde_json::Value = match serde_json::from_str(&txt) {
        Ok(v) => v,
        Err(e) => {
            eprintln!("bad json: {}", e);
            return 2;
        }
    };
    let rp = &v["replay"];
    let name = rp["scenario"].as_str().or(v["scenario"].as_str()).unwrap_or("").to_string();
    let want_fp = v["fingerprint"].as_str().unwrap_or("").to_string();
    let pb = rp["bounds"]["preemption_bound"].as_u64().unwrap_or(2) as usize;
    let max_secs = rp["bounds"]["max_secs"].as_f64().unwrap_or(600.0).max(600.0);
    let sc = match scen::find(&name) {
        Some(s) => s,
        None => {
            eprintln!("unknown scenario {}", name);
            return 2;
        }
    };
    let job = Job { sc, pb, max_secs };
    let report = |verdict: Verdict, res: &ChildResult, failure: Option<rt::PanicInfo>| -> Option<i32> {
        match verdict {
            Verdict::Violation(list) => {
                let f = failure.unwrap();
                println!("failure: {}", f.message.lines().next().unwrap_or(""));
                println!("event log of the failing execution:");
                for e in &f.log {
                    println!("  {}", e.short());
                }
                let fps: Vec<String> = list.iter().map(|(p, r, _)| fingerprint(&job.sc, p, r)).collect();
                println!("fingerprints: {:?}", fps);
                if fps.iter().any(|f| *f == want_fp) || want_fp.is_empty() {
                    println!("REPRODUCED {}", want_fp);
                    Some(1)
                } else {
                    println!("a different fingerprint showed up (wanted {})", want_fp);
                    Some(0)
                }
            }
            Verdict::Clean => {
                println!("no violation in {} execution(s)", res.executions);
                Some(0)
            }
            Verdict::Capped(c) => {
                println!("not decided: {}", c);
                None
            }
        }
    };
    // 1. exactly the recorded schedule: loom starts from the stored path and runs one iteration
    if !rp["loom_path"].is_null() {
        let ck = scratch_file(&format!("replay-{}", std::process::id()));
        if std::fs::write(&ck, rp["loom_path"].to_string()).is_ok() {
            println!("replaying the recorded schedule of scenario {} (preemption bound {}, originally iteration {})", name, pb, rp["iteration"]);
            let (res, verdict, failure) = attempt(&job, &["--from-ckpt".into(), "--ckpt-file".into(), ck.clone()]);
            let _ = std::fs::remove_file(&ck);
            if let Some(code) = report(verdict, &res, failure) {
                return code;
            }
            println!("the recorded schedule no longer applies to this build; exploring the scenario again");
        }
    }
    // 2. fall back to the deterministic exploration with the same bounds (stops at the first failure)
    println!("re-exploring scenario {} with preemption bound {}", name, pb);
    let (res, verdict, failure) = attempt(&job, &[]);
    report(verdict, &res, failure).unwrap_or(0)
}

fn main() {
    let args: Vec<String> = std::env::args().collect();
    let code = match args.get(1).map(|s| s.as_str()) {
        Some("run") => cmd_run(&args[2..]),
        Some("replay") => match args.get(2) {
            Some(p) => cmd_replay(p),
            None => 2,
        },
        Some("run-one") => {
            let name = args.get(2).cloned().unwrap_or_default();
            let pb = arg_val(&args, "--pb").and_then(|s| s.parse().ok()).unwrap_or(2);
            let max_secs = arg_val(&args, "--max-secs").and_then(|s| s.parse().ok()).unwrap_or(20.0);
            let ck = Ckpt {
                capture_at: arg_val(&args, "--ckpt-at").and_then(|s| s.parse().ok()),
                from: args.iter().any(|a| a == "--from-ckpt"),
                file: arg_val(&args, "--ckpt-file"),
                trace: args.iter().any(|a| a == "--trace"),
            };
            run_one(&name, pb, max_secs, &ck)
        }
        Some("selftest") => {
            let bad = selftest::run();
            println!("selftest: {} failed expectation(s)", bad);
            use std::io::Write;
            let _ = std::io::stdout().flush();
            // loom objects of a failed litmus cannot be torn down safely: leave at once
            std::process::exit(if bad == 0 { 0 } else { 1 });
        }
        Some("list") => {
            for s in scen::all_scenarios() {
                println!("{}\tprops={}\tthreads={}\tops={}\tcap={}\tpb={:?}/{:?}", s.name, s.props.join(","), s.threads, s.ops, s.cap, s.pb_quick, s.pb_thorough);
            }
            0
        }
        _ => {
            eprintln!("usage: loomx run --tier quick|thorough --out report.json [--props C01,..] [--jobs N] [--only substr] | replay <file> | list | selftest");
            2
        }
    };
    let _ = Duration::from_secs(0);
    std::process::exit(code);
}
