//! Litmus tests for the model checker itself (vendored loom 0.7.2 + three patches, see Cargo.toml).
//! `loomx selftest` runs them; `loomx run` runs them first in a child process and refuses to
//! produce a report if one fails (a broken checker must not look like "no violation").
use loom::sync::atomic::{AtomicBool, AtomicUsize, Ordering::*};
use loom::sync::Arc;
use std::sync::atomic::AtomicUsize as SU;

struct Outcome {
    iterations: usize,
    hits: usize,
    ok: bool,
}

fn model(pb: usize, f: impl Fn(&std::sync::Arc<SU>) + Sync + Send + 'static) -> Outcome {
    let mut b = loom::model::Builder::new();
    b.preemption_bound = Some(pb);
    b.max_branches = 10_000;
    b.checkpoint_interval = 1_000_000_000;
    let n = std::sync::Arc::new(SU::new(0));
    let hits = std::sync::Arc::new(SU::new(0));
    let (n2, h2) = (n.clone(), hits.clone());
    let r = std::panic::catch_unwind(std::panic::AssertUnwindSafe(|| {
        b.check(move || {
            n2.fetch_add(1, Relaxed);
            f(&h2);
        })
    }));
    Outcome { iterations: n.load(Relaxed), hits: hits.load(Relaxed), ok: r.is_ok() }
}

fn spin_lock(l: &AtomicBool) {
    loop {
        if !l.swap(true, Acquire) {
            return;
        }
        while l.load(Relaxed) {
            loom::hint::spin_loop();
        }
    }
}

/// returns the number of failed expectations
pub fn run() -> usize {
    std::panic::set_hook(Box::new(|_| {}));
    let mut bad = 0;
    let mut expect = |name: &str, o: Outcome, pred: &dyn Fn(&Outcome) -> bool, what: &str| {
        let pass = pred(&o);
        println!("{} {}: iterations={} hits={} completed={} (expected: {})", if pass { "PASS" } else { "FAIL" }, name, o.iterations, o.hits, o.ok, what);
        if !pass {
            bad += 1;
        }
    };

    // --- weak behaviours must still be explored
    expect(
        "store-buffering, relaxed",
        model(3, |h| {
            let x = Arc::new(AtomicUsize::new(0));
            let y = Arc::new(AtomicUsize::new(0));
            let (x2, y2) = (x.clone(), y.clone());
            let t = loom::thread::spawn(move || {
                x2.store(1, Relaxed);
                y2.load(Relaxed)
            });
            y.store(1, Relaxed);
            let a = x.load(Relaxed);
            let b = t.join().unwrap();
            if a == 0 && b == 0 {
                h.fetch_add(1, Relaxed);
            }
        }),
        &|o| o.ok && o.hits > 0,
        "both threads may read 0",
    );
    expect(
        "swap ordered before a concurrent relaxed store",
        model(3, |h| {
            let x = Arc::new(AtomicUsize::new(0));
            let x2 = x.clone();
            let t = loom::thread::spawn(move || x2.store(1, Relaxed));
            let old = x.swap(2, Relaxed);
            t.join().unwrap();
            if x.load(Relaxed) == 1 && old == 0 {
                h.fetch_add(1, Relaxed);
            }
        }),
        &|o| o.ok && o.hits > 0,
        "final value 1 reachable",
    );
    // --- publication races must still be reported
    expect(
        "message passing through a relaxed flag",
        model(3, |_| {
            let c = Arc::new(loom::cell::UnsafeCell::new(0u32));
            let f = Arc::new(AtomicBool::new(false));
            let (c2, f2) = (c.clone(), f.clone());
            let t = loom::thread::spawn(move || {
                c2.with_mut(|p| unsafe { *p = 1 });
                f2.store(true, Relaxed);
            });
            if f.load(Acquire) {
                c.with(|p| unsafe { *p });
            }
            t.join().unwrap();
        }),
        &|o| !o.ok,
        "causality violation",
    );
    expect(
        "message passing release/acquire",
        model(3, |_| {
            let c = Arc::new(loom::cell::UnsafeCell::new(0u32));
            let f = Arc::new(AtomicBool::new(false));
            let (c2, f2) = (c.clone(), f.clone());
            let t = loom::thread::spawn(move || {
                c2.with_mut(|p| unsafe { *p = 1 });
                f2.store(true, Release);
            });
            if f.load(Acquire) {
                c.with(|p| unsafe { *p });
            }
            t.join().unwrap();
        }),
        &|o| o.ok,
        "no report",
    );
    expect(
        "test-then-set lock that is not atomic",
        model(3, |_| {
            let l = Arc::new(AtomicBool::new(false));
            let c = Arc::new(loom::cell::UnsafeCell::new(0u32));
            let (l2, c2) = (l.clone(), c.clone());
            let t = loom::thread::spawn(move || {
                if !l2.load(Acquire) {
                    l2.store(true, Relaxed);
                    c2.with_mut(|p| unsafe { *p += 1 });
                    l2.store(false, Release);
                }
            });
            if !l.load(Acquire) {
                l.store(true, Relaxed);
                c.with_mut(|p| unsafe { *p += 1 });
                l.store(false, Release);
            }
            t.join().unwrap();
        }),
        &|o| !o.ok,
        "causality violation",
    );
    // --- patch 1: RMW atomicity in the modification order
    expect(
        "swap/store spinlock, two acquisitions per thread",
        model(2, |_| {
            let l = Arc::new(AtomicBool::new(false));
            let c = Arc::new(loom::cell::UnsafeCell::new(0u32));
            let (l2, c2) = (l.clone(), c.clone());
            let t = loom::thread::spawn(move || {
                for _ in 0..2 {
                    spin_lock(&l2);
                    c2.with_mut(|p| unsafe { *p += 1 });
                    l2.store(false, Release);
                }
            });
            for _ in 0..2 {
                spin_lock(&l);
                c.with_mut(|p| unsafe { *p += 1 });
                l.store(false, Release);
            }
            t.join().unwrap();
        }),
        &|o| o.ok && o.iterations > 1,
        "terminates, mutual exclusion holds (upstream 0.7.2: branch overflow in iteration 2)",
    );
    expect(
        "swap-consumed wake flag + unpark",
        model(3, |_| {
            let flag = Arc::new(AtomicBool::new(false));
            let me = loom::thread::current();
            let f2 = flag.clone();
            let t = loom::thread::spawn(move || {
                f2.store(true, SeqCst);
                me.unpark();
            });
            while !flag.swap(false, SeqCst) {
                loom::thread::park();
            }
            t.join().unwrap();
        }),
        &|o| o.ok,
        "no deadlock (upstream 0.7.2: false deadlock)",
    );
    expect(
        "two fetch_add never lose an increment",
        model(3, |h| {
            let x = Arc::new(AtomicUsize::new(0));
            let x2 = x.clone();
            let t = loom::thread::spawn(move || {
                x2.fetch_add(1, Relaxed);
            });
            x.fetch_add(1, Relaxed);
            t.join().unwrap();
            if x.load(Relaxed) != 2 {
                h.fetch_add(1, Relaxed);
            }
        }),
        &|o| o.ok && o.hits == 0,
        "sum is always 2",
    );
    // --- patch 4: SeqCst loads after a SeqCst RMW/store
    expect(
        "Dekker handshake with SeqCst accesses (left_right.rs pattern)",
        model(4, |h| {
            let live = Arc::new(AtomicUsize::new(0));
            let readers = Arc::new(AtomicUsize::new(0));
            let (l2, r2) = (live.clone(), readers.clone());
            // reader: announce, then re-check the side; writer: switch the side, then look for readers
            let t = loom::thread::spawn(move || {
                r2.fetch_add(1, SeqCst);
                l2.load(SeqCst) == 0 // true: reader stays on side 0
            });
            live.store(1, SeqCst);
            let saw_no_reader = readers.load(SeqCst) == 0;
            let reader_on_old_side = t.join().unwrap();
            if saw_no_reader && reader_on_old_side {
                h.fetch_add(1, Relaxed);
            }
        }),
        &|o| o.ok && o.hits == 0,
        "writer never misses a reader that stayed on the old side (upstream 0.7.2: reachable)",
    );
    expect(
        "store-buffering with SeqCst fences stays forbidden",
        model(3, |h| {
            let x = Arc::new(AtomicUsize::new(0));
            let y = Arc::new(AtomicUsize::new(0));
            let (x2, y2) = (x.clone(), y.clone());
            let t = loom::thread::spawn(move || {
                x2.store(1, Relaxed);
                loom::sync::atomic::fence(SeqCst);
                y2.load(Relaxed)
            });
            y.store(1, Relaxed);
            loom::sync::atomic::fence(SeqCst);
            let a = x.load(Relaxed);
            let b = t.join().unwrap();
            if a == 0 && b == 0 {
                h.fetch_add(1, Relaxed);
            }
        }),
        &|o| o.ok && o.hits == 0,
        "never both 0",
    );
    // --- patch 2: park token
    expect(
        "unpark aimed at a thread blocked in join",
        model(3, |_| {
            let me = loom::thread::current();
            let t = loom::thread::spawn(move || {
                me.unpark();
            });
            t.join().unwrap();
            // the token is still there: this park returns at once
            loom::thread::park();
        }),
        &|o| o.ok,
        "no loom-internal assertion, token kept (upstream 0.7.2: `assertion failed: state.notified` or deadlock)",
    );
    expect(
        "unpark token survives blocking on a mutex",
        model(3, |_| {
            let m = Arc::new(loom::sync::Mutex::new(0u32));
            let me = loom::thread::current();
            let m2 = m.clone();
            let t = loom::thread::spawn(move || {
                let g = m2.lock().unwrap();
                me.unpark();
                drop(g);
            });
            {
                let _g = m.lock().unwrap();
            }
            t.join().unwrap();
            loom::thread::park();
        }),
        &|o| o.ok,
        "no deadlock",
    );
    expect(
        "park without unpark is a deadlock",
        model(2, |_| {
            let t = loom::thread::spawn(|| {});
            t.join().unwrap();
            loom::thread::park();
        }),
        &|o| !o.ok,
        "deadlock reported",
    );
    // --- patch 3: coroutine pooling keeps executions independent
    expect(
        "pooled coroutines: every iteration starts from a fresh closure",
        model(2, |h| {
            let x = Arc::new(AtomicUsize::new(0));
            let x2 = x.clone();
            let t = loom::thread::spawn(move || {
                x2.store(7, Release);
            });
            t.join().unwrap();
            if x.load(Acquire) != 7 {
                h.fetch_add(1, Relaxed);
            }
        }),
        &|o| o.ok && o.hits == 0 && o.iterations >= 1,
        "joined store always visible",
    );
    bad
}
