//! Hybrid lock scenarios (C10).
use crate::scen::Scenario;

#[derive(Clone, Debug)]
pub struct LockScen {}

pub fn run_once(_l: &LockScen) {}

pub fn scenarios() -> Vec<Scenario> {
    Vec::new()
}
