//! Hybrid lock scenarios (C10): `fibre::sync::{HybridMutex, HybridRwLock}` protecting a loom cell.
use crate::exec::{block_on, new_waker, poll_once, Wk};
use crate::rt::{self, oracle_fail, Op, Res};
use crate::scen::{Body, Scenario};
use fibre::sync::{HybridMutex, HybridRwLock};
use loom::sync::atomic::{AtomicBool, Ordering};
use std::future::Future;
use std::pin::Pin;
use std::sync::Arc;
use std::task::{Poll, Waker};

type Cell = loom::cell::UnsafeCell<u32>;

#[derive(Clone, Debug, PartialEq)]
pub enum LStep {
    // mutex
    Lock,
    LockAsync,
    TryLock,
    /// create `lock_async()` future and poll it once (kept if Pending, guard kept if Ready)
    PollLockFut,
    /// block on the kept future
    AwaitFut,
    /// drop the kept future
    DropFut,
    // rwlock
    Read,
    ReadAsync,
    TryRead,
    Write,
    WriteAsync,
    TryWrite,
    PollReadFut,
    PollWriteFut,
    /// the same into the thread's second future slot (two waiters owned by one task set)
    PollLockFutB,
    PollReadFutB,
    PollWriteFutB,
    /// block on the future of the second slot
    AwaitFutB,
    /// while holding a read guard: try_read until it is refused (writer gate observed) or 4 rounds
    ProbeGate,
    /// release the held guard
    Unlock,
    /// access the protected cell under the held guard (write access under mutex / write guards)
    Touch,
    SetGo,
    WaitGo,
    JoinAll,
}

#[derive(Clone, Debug)]
pub struct LockScen {
    pub rw: bool,
    pub threads: Vec<Vec<LStep>>,
}

enum Guard {
    M(fibre::sync::MutexGuard<'static, Cell>),
    R(fibre::sync::ReadGuard<'static, Cell>),
    W(fibre::sync::WriteGuard<'static, Cell>),
}

type GFut = Pin<Box<dyn Future<Output = Guard>>>;

struct Locks {
    m: Arc<HybridMutex<Cell>>,
    rw: Arc<HybridRwLock<Cell>>,
    go: Arc<AtomicBool>,
}
impl Locks {
    // The guards/futures borrow the lock; every thread keeps its Arc alive until its guard and
    // future slots are empty, so extending the borrow to 'static is sound here.
    fn m(&self) -> &'static HybridMutex<Cell> {
        unsafe { &*(Arc::as_ptr(&self.m)) }
    }
    fn rw(&self) -> &'static HybridRwLock<Cell> {
        unsafe { &*(Arc::as_ptr(&self.rw)) }
    }
}

fn touch(g: &Guard) -> u32 {
    match g {
        Guard::M(g) => touch_w(g),
        Guard::W(g) => touch_w(g),
        Guard::R(g) => {
            let c: &Cell = g;
            let p = c.get();
            loom::thread::yield_now();
            let v = p.with(|x| unsafe { *x });
            drop(p);
            v
        }
    }
}
fn touch_w(c: &Cell) -> u32 {
    let p = c.get_mut();
    // a scheduling point inside the critical section: an intruder would find the cell "being written"
    loom::thread::yield_now();
    let v = p.with(|x| unsafe {
        *x += 1;
        *x
    });
    drop(p);
    v
}

fn run_thread(t: u8, steps: Vec<LStep>, l: Locks, joins: &mut Vec<loom::thread::JoinHandle<()>>) {
    let mut held: Option<Guard> = None;
    let mut fut: Option<(GFut, Arc<Wk>, Waker)> = None;
    let mut fut_b: Option<(GFut, Arc<Wk>, Waker)> = None;
    let call = |op: &Op| rt::log_call(t, 0, op);
    let ret = |op: &Op, r: Res, outcome: bool| rt::log_ret(t, 0, op, r, outcome);
    for s in steps {
        // an acquiring step is skipped when an earlier poll already acquired (the thread holds the guard)
        let acquiring = matches!(
            s,
            LStep::Lock | LStep::LockAsync | LStep::TryLock | LStep::Read | LStep::ReadAsync | LStep::TryRead | LStep::Write | LStep::WriteAsync | LStep::TryWrite
        );
        if acquiring && held.is_some() {
            continue;
        }
        match s {
            LStep::Lock => {
                call(&Op::Lock);
                let g = l.m().lock();
                ret(&Op::Lock, Res::Ok, true);
                held = Some(Guard::M(g));
            }
            LStep::LockAsync => {
                call(&Op::LockAsync);
                let g = block_on(l.m().lock_async());
                ret(&Op::LockAsync, Res::Ok, true);
                held = Some(Guard::M(g));
            }
            LStep::TryLock => {
                call(&Op::TryLock);
                let g = l.m().try_lock();
                ret(&Op::TryLock, Res::Acquired(g.is_some()), true);
                if let Some(g) = g {
                    held = Some(Guard::M(g));
                }
            }
            LStep::Read => {
                call(&Op::Read);
                let g = l.rw().read();
                ret(&Op::Read, Res::Ok, true);
                held = Some(Guard::R(g));
            }
            LStep::ReadAsync => {
                call(&Op::ReadAsync);
                let g = block_on(l.rw().read_async());
                ret(&Op::ReadAsync, Res::Ok, true);
                held = Some(Guard::R(g));
            }
            LStep::TryRead => {
                call(&Op::TryRead);
                let g = l.rw().try_read();
                ret(&Op::TryRead, Res::Acquired(g.is_some()), true);
                if let Some(g) = g {
                    held = Some(Guard::R(g));
                }
            }
            LStep::Write => {
                call(&Op::Write);
                let g = l.rw().write();
                ret(&Op::Write, Res::Ok, true);
                held = Some(Guard::W(g));
            }
            LStep::WriteAsync => {
                call(&Op::WriteAsync);
                let g = block_on(l.rw().write_async());
                ret(&Op::WriteAsync, Res::Ok, true);
                held = Some(Guard::W(g));
            }
            LStep::TryWrite => {
                call(&Op::TryWrite);
                let g = l.rw().try_write();
                ret(&Op::TryWrite, Res::Acquired(g.is_some()), true);
                if let Some(g) = g {
                    held = Some(Guard::W(g));
                }
            }
            LStep::PollLockFut | LStep::PollReadFut | LStep::PollWriteFut | LStep::PollLockFutB | LStep::PollReadFutB | LStep::PollWriteFutB => {
                let second = matches!(s, LStep::PollLockFutB | LStep::PollReadFutB | LStep::PollWriteFutB);
                let op = match s {
                    LStep::PollLockFut | LStep::PollLockFutB => Op::LockPoll,
                    LStep::PollReadFut | LStep::PollReadFutB => Op::ReadPoll,
                    _ => Op::WritePoll,
                };
                call(&op);
                let mut f: GFut = match s {
                    LStep::PollLockFut | LStep::PollLockFutB => {
                        let m = l.m();
                        Box::pin(async move { Guard::M(m.lock_async().await) })
                    }
                    LStep::PollReadFut | LStep::PollReadFutB => {
                        let rw = l.rw();
                        Box::pin(async move { Guard::R(rw.read_async().await) })
                    }
                    _ => {
                        let rw = l.rw();
                        Box::pin(async move { Guard::W(rw.write_async().await) })
                    }
                };
                let (wk, waker) = new_waker();
                match poll_once(f.as_mut(), &waker) {
                    Poll::Ready(g) => {
                        ret(&op, Res::Ok, true);
                        if let Some(old) = held.take() {
                            // a second guard (read while reading): release it at once
                            unlock(t, old);
                        }
                        held = Some(g);
                    }
                    Poll::Pending => {
                        ret(&op, Res::Pending, true);
                        if second {
                            fut_b = Some((f, wk, waker));
                        } else {
                            fut = Some((f, wk, waker));
                        }
                    }
                }
            }
            LStep::AwaitFut | LStep::AwaitFutB => {
                let slot = if s == LStep::AwaitFutB { fut_b.take() } else { fut.take() };
                if let Some((mut f, wk, waker)) = slot {
                    // a guard obtained by an earlier step would make the task wait for itself
                    if let Some(old) = held.take() {
                        unlock(t, old);
                    }
                    call(&Op::FutAwait);
                    // the future was polled before and returned Pending: an executor polls it again only
                    // after its waker fired, so wait for the wake first (a re-poll without a wake would
                    // barge into a free lock and hide a lost wakeup)
                    let g = loop {
                        wk.wait();
                        match poll_once(f.as_mut(), &waker) {
                            Poll::Ready(g) => break g,
                            Poll::Pending => {}
                        }
                    };
                    ret(&Op::FutAwait, Res::Ok, true);
                    held = Some(g);
                }
            }
            LStep::DropFut => {
                if let Some((f, _wk, _waker)) = fut.take() {
                    call(&Op::LockFutDrop);
                    drop(f);
                    ret(&Op::LockFutDrop, Res::Ok, false);
                }
            }
            LStep::ProbeGate => {
                for _ in 0..4 {
                    call(&Op::TryRead);
                    let g = l.rw().try_read();
                    let got = g.is_some();
                    ret(&Op::TryRead, Res::Acquired(got), !got);
                    match g {
                        Some(g) => {
                            call(&Op::Unlock);
                            drop(g);
                            ret(&Op::Unlock, Res::Ok, false);
                            loom::thread::yield_now();
                        }
                        None => break,
                    }
                }
            }
            LStep::Unlock => {
                if let Some(g) = held.take() {
                    unlock(t, g);
                }
            }
            LStep::Touch => {
                if let Some(g) = held.as_ref() {
                    let v = touch(g);
                    // the value seen is part of the outcome (a lost update shows up here)
                    rt::log_call(t, 0, &Op::Touch);
                    rt::log_ret(t, 0, &Op::Touch, Res::Num(v), true);
                }
            }
            LStep::SetGo => l.go.store(true, Ordering::Release),
            LStep::WaitGo => {
                while !l.go.load(Ordering::Acquire) {
                    loom::thread::yield_now();
                }
            }
            LStep::JoinAll => join_all(t, joins),
        }
    }
    for slot in [fut.take(), fut_b.take()] {
        if let Some((f, _wk, _waker)) = slot {
            call(&Op::LockFutDrop);
            drop(f);
            ret(&Op::LockFutDrop, Res::Ok, false);
        }
    }
    if let Some(g) = held.take() {
        unlock(t, g);
    }
}

fn unlock(t: u8, g: Guard) {
    rt::log_call(t, 0, &Op::Unlock);
    drop(g);
    rt::log_ret(t, 0, &Op::Unlock, Res::Ok, false);
}

fn join_all(t: u8, joins: &mut Vec<loom::thread::JoinHandle<()>>) {
    for j in joins.drain(..) {
        rt::log_call(t, 0, &Op::Join);
        j.join().expect("join");
        rt::log_ret(t, 0, &Op::Join, Res::Ok, false);
    }
}

pub fn run_once(sc: &LockScen) {
    let m = Arc::new(HybridMutex::new(Cell::new(0)));
    let rw = Arc::new(HybridRwLock::new(Cell::new(0)));
    let go = Arc::new(AtomicBool::new(false));
    let mut joins = Vec::new();
    for (i, steps) in sc.threads.iter().enumerate().skip(1) {
        let l = Locks { m: m.clone(), rw: rw.clone(), go: go.clone() };
        let steps = steps.clone();
        joins.push(loom::thread::spawn(move || {
            let mut none = Vec::new();
            run_thread(i as u8, steps, l, &mut none);
        }));
    }
    let l = Locks { m: m.clone(), rw: rw.clone(), go: go.clone() };
    run_thread(0, sc.threads[0].clone(), l, &mut joins);
    join_all(0, &mut joins);
    // final value: every write-touch counted exactly once
    let fin = if sc.rw { rw.write().with(|p| unsafe { *p }) } else { m.lock().with(|p| unsafe { *p }) };
    check(sc, fin);
}

#[derive(Clone, Copy, PartialEq)]
enum Mode {
    Excl,
    Shared,
}

fn acquisition(op: &Op, res: &Res) -> Option<Mode> {
    let ok = matches!(res, Res::Ok | Res::Acquired(true));
    if !ok {
        return None;
    }
    match op {
        Op::Lock | Op::LockAsync | Op::TryLock | Op::LockPoll | Op::Write | Op::WriteAsync | Op::TryWrite | Op::WritePoll => Some(Mode::Excl),
        Op::Read | Op::ReadAsync | Op::TryRead | Op::ReadPoll => Some(Mode::Shared),
        _ => None,
    }
}

fn check(sc: &LockScen, final_value: u32) {
    let log = rt::log_snapshot();
    // hold intervals: [return of the acquiring op, call of the next Unlock of that thread]
    struct Hold {
        t: u8,
        mode: Mode,
        from: usize,
        to: usize,
        call: usize,
        write_touches: u32,
    }
    let mut holds: Vec<Hold> = Vec::new();
    // FutAwait results carry no mode: take it from the poll that created the future
    let mut fut_mode: std::collections::BTreeMap<u8, Mode> = Default::default();
    let mut open: std::collections::BTreeMap<u8, Vec<usize>> = Default::default();
    let mut last_call: std::collections::BTreeMap<u8, usize> = Default::default();
    let mut writes = 0u32;
    for (i, e) in log.iter().enumerate() {
        match &e.ret {
            None => {
                last_call.insert(e.t, i);
                if e.op == Op::Unlock {
                    // with two guards in one thread (probe) the most recent one is released first
                    if let Some(h) = open.get_mut(&e.t).and_then(|v| v.pop()) {
                        holds[h].to = i;
                    }
                }
            }
            Some(r) => {
                let mode = match (&e.op, r) {
                    (Op::LockPoll, Res::Pending) => {
                        fut_mode.insert(e.t, Mode::Excl);
                        None
                    }
                    (Op::WritePoll, Res::Pending) => {
                        fut_mode.insert(e.t, Mode::Excl);
                        None
                    }
                    (Op::ReadPoll, Res::Pending) => {
                        fut_mode.insert(e.t, Mode::Shared);
                        None
                    }
                    (Op::FutAwait, Res::Ok) => fut_mode.get(&e.t).copied(),
                    (op, r) => acquisition(op, r),
                };
                if let Some(mode) = mode {
                    holds.push(Hold { t: e.t, mode, from: i, to: usize::MAX, call: *last_call.get(&e.t).unwrap_or(&i), write_touches: 0 });
                    open.entry(e.t).or_default().push(holds.len() - 1);
                }
                if e.op == Op::Touch {
                    if let Some(&h) = open.get(&e.t).and_then(|v| v.last()) {
                        if holds[h].mode == Mode::Excl {
                            holds[h].write_touches += 1;
                            writes += 1;
                        }
                    }
                }
            }
        }
    }
    for a in 0..holds.len() {
        for b in (a + 1)..holds.len() {
            let (x, y) = (&holds[a], &holds[b]);
            if x.t == y.t {
                continue;
            }
            if x.mode == Mode::Shared && y.mode == Mode::Shared {
                continue;
            }
            if x.from < y.to && y.from < x.to {
                oracle_fail(
                    "C10",
                    "mutual_exclusion",
                    "guard",
                    &format!("thread {} held a guard over log positions {}..{} while thread {} held one over {}..{} (one of them exclusive)", x.t, x.from, x.to, y.t, y.from, y.to),
                );
            }
        }
    }
    if final_value != writes {
        oracle_fail("C10", "lost_update", "guard", &format!("{} increments were made under exclusive guards but the protected value is {}", writes, final_value));
    }
    if sc.rw {
        // writer gate: a reader that holds the lock is refused by try_read although no writer can
        // hold it  =>  a writer is queued (WRITER_PENDING). From then on no NEW read acquisition may
        // complete before a writer has acquired (documented in rwlock.rs: "WRITER_PENDING ... gates
        // new readers - the writer stays linked (keeping the gate up) until it wins").
        for (i, e) in log.iter().enumerate() {
            if e.op == Op::TryRead && e.ret == Some(Res::Acquired(false)) {
                let prober_reads = holds.iter().any(|h| h.t == e.t && h.mode == Mode::Shared && h.from < i && h.to > i);
                if !prober_reads {
                    continue;
                }
                // the refusal proves a queued writer only if a write acquisition is in flight and no
                // writer has held the lock so far: the tail of a previous writer's unlock (flag
                // repair under the list lock) also changes the state word and makes the strong CAS
                // of try_read fail although nobody is queued
                let call_i = log[..i].iter().rposition(|x| x.t == e.t && x.ret.is_none()).unwrap_or(i);
                let writer_in_flight = log[..call_i].iter().enumerate().any(|(k, x)| {
                    x.ret.is_none()
                        && matches!(x.op, Op::Write | Op::WriteAsync | Op::WritePoll | Op::FutAwait)
                        && !log[k + 1..i].iter().any(|y| y.t == x.t && y.ret.is_some())
                });
                let writer_before = holds.iter().any(|h| h.mode == Mode::Excl && h.from < i);
                if !writer_in_flight || writer_before {
                    continue;
                }
                let first_writer = holds.iter().filter(|h| h.mode == Mode::Excl && h.from > i).map(|h| h.from).min().unwrap_or(usize::MAX);
                for h in holds.iter().filter(|h| h.mode == Mode::Shared && h.call > i && h.from < first_writer) {
                    oracle_fail(
                        "C10",
                        "reader_passed_queued_writer",
                        "read",
                        &format!(
                            "try_read was refused at log position {} while only read guards were held (a writer is queued), yet thread {} started a read at {} and acquired at {} before any writer acquired",
                            i, h.t, h.call, h.from
                        ),
                    );
                }
            }
        }
    }
}

fn sc(name: &str, rw: bool, threads: Vec<Vec<LStep>>, pb: (Option<usize>, Option<usize>)) -> Scenario {
    let comp = if rw { "hybrid_rwlock" } else { "hybrid_mutex" };
    Scenario {
        name: format!("{}/{}", comp, name),
        component: comp.into(),
        shape: name.into(),
        props: vec!["C10"],
        threads: threads.len(),
        ops: threads.iter().map(|t| t.len()).max().unwrap_or(0),
        cap: "-".into(),
        pb_quick: pb.0,
        pb_thorough: pb.1,
        body: Body::Lock(LockScen { rw, threads }),
    }
}

/// both orientations of the asymmetric two-thread shapes (see scen.rs: loom's bounded DPOR is
/// biased towards the main thread running first)
fn with_swaps(v: Vec<Scenario>) -> Vec<Scenario> {
    let mut out = Vec::new();
    for s in v {
        let swapped = match &s.body {
            Body::Lock(l) if l.threads.len() == 2 && l.threads[0] != l.threads[1] && !l.threads.iter().any(|t| t.contains(&LStep::JoinAll)) => {
                let mut l2 = l.clone();
                l2.threads.swap(0, 1);
                Some(Scenario { name: format!("{}@swap", s.name), body: Body::Lock(l2), ..s.clone() })
            }
            _ => None,
        };
        out.push(s);
        if let Some(x) = swapped {
            out.push(x);
        }
    }
    out
}

pub fn scenarios() -> Vec<Scenario> {
    with_swaps(base_scenarios())
}

fn base_scenarios() -> Vec<Scenario> {
    use LStep::*;
    let t2 = (Some(2), Some(4));
    // three lock threads at bound 2 exceed 1.4 M executions (10 min): bound 1 in both tiers
    let t3 = (Some(1), Some(1));
    let cs = |a: LStep| vec![a, Touch, Unlock];
    let cs2 = |a: LStep| vec![a.clone(), Touch, Unlock, a, Touch, Unlock];
    vec![
        // ---- mutex
        sc("2t_lock", false, vec![cs(Lock), cs(Lock)], t2),
        sc("2t_lock_twice", false, vec![cs2(Lock), cs2(Lock)], t2),
        sc("3t_lock", false, vec![cs(Lock), cs(Lock), cs(Lock)], t3),
        sc("sync_vs_async", false, vec![cs(LockAsync), cs(Lock)], t2),
        sc("2t_async_twice", false, vec![cs2(LockAsync), cs2(LockAsync)], t2),
        // holder queues a future behind itself, releases (wake goes to the future), drops the
        // future: the wake must be passed on to the thread parked behind it
        sc("woken_future_dropped_forwards_wake", false, vec![vec![Lock, PollLockFut, Unlock, DropFut], cs(Lock)], t2),
        sc("future_cancel_then_lock", false, vec![cs(Lock), vec![PollLockFut, DropFut, Lock, Touch, Unlock]], t2),
        sc("future_polled_then_awaited", false, vec![cs(Lock), vec![PollLockFut, AwaitFut, Touch, Unlock]], t2),
        sc("try_lock_never_blocks", false, vec![vec![Lock, JoinAll, Touch, Unlock], vec![TryLock, TryLock]], t2),
        sc("try_lock_vs_lock", false, vec![cs(Lock), vec![TryLock, Touch, Unlock, TryLock, Touch, Unlock]], t2),
        // ---- rwlock
        sc("1r1w", true, vec![cs(Write), cs(Read)], t2),
        sc("1r1w_twice", true, vec![cs2(Write), cs2(Read)], t2),
        sc("2w", true, vec![cs(Write), cs(Write)], t2),
        sc("2r1w", true, vec![cs(Write), cs(Read), cs(Read)], t3),
        sc("1r2w", true, vec![cs(Read), cs(Write), cs(Write)], t3),
        sc("async_1r1w", true, vec![cs(WriteAsync), cs(ReadAsync)], t2),
        sc("async_2w", true, vec![cs(WriteAsync), cs(WriteAsync)], t2),
        sc("sync_w_vs_async_r_twice", true, vec![cs2(Write), cs2(ReadAsync)], t2),
        sc("try_never_blocks_under_writer", true, vec![vec![Write, JoinAll, Touch, Unlock], vec![TryRead, TryWrite]], t2),
        sc("try_never_blocks_under_reader", true, vec![vec![Read, JoinAll, Touch, Unlock], vec![TryWrite, TryRead, Touch, Unlock]], t2),
        sc("try_vs_write", true, vec![cs(Write), vec![TryRead, Touch, Unlock, TryWrite, Touch, Unlock]], t2),
        // writer queued behind a reader; the reader observes the gate, then tries to add a new reader
        sc("writer_gate_2t", true, vec![vec![Read, ProbeGate, PollReadFut, DropFut, Unlock], cs(Write)], t2),
        sc("writer_gate_reader_arrives", true, vec![vec![Read, ProbeGate, SetGo, Unlock], cs(Write), vec![WaitGo, Read, Touch, Unlock]], t3),
        // cancelled futures must unlink, repair the flags and pass a consumed wake on
        sc("woken_writefut_dropped_releases_gate", true, vec![vec![Read, PollWriteFut, Unlock, DropFut], cs(Read)], t2),
        sc("woken_readfut_dropped_forwards_wake", true, vec![vec![Write, PollReadFut, Unlock, DropFut], cs(Write)], t2),
        sc("writefut_cancel_then_write", true, vec![cs(Read), vec![PollWriteFut, DropFut, Write, Touch, Unlock]], t2),
        // a queued future is cancelled by its owner WHILE the holder releases (and wakes it), with a third
        // thread parked behind it: whichever way the race goes, the thread behind must get the lock
        // ... and with the waiter behind being a second future of the cancelling task (two threads only)
        sc("cancel_vs_unlock_with_future_behind", false, vec![vec![Lock, WaitGo, Unlock], vec![PollLockFut, PollLockFutB, SetGo, DropFut, AwaitFutB, Touch, Unlock]], t2),
        sc("writefut_cancel_vs_unlock_with_future_behind", true, vec![vec![Write, WaitGo, Unlock], vec![PollWriteFut, PollWriteFutB, SetGo, DropFut, AwaitFutB, Touch, Unlock]], t2),
        sc("readfut_cancel_vs_unlock_with_writefut_behind", true, vec![vec![Write, WaitGo, Unlock], vec![PollReadFut, PollWriteFutB, SetGo, DropFut, AwaitFutB, Touch, Unlock]], t2),
        sc("writefut_cancel_vs_last_reader_out_with_readfut_behind", true, vec![vec![Read, WaitGo, Unlock], vec![PollWriteFut, PollReadFutB, SetGo, DropFut, AwaitFutB, Touch, Unlock]], t2),
        sc("cancel_vs_unlock_with_waiter_behind", false, vec![vec![Lock, WaitGo, Unlock], vec![PollLockFut, SetGo, DropFut], cs(Lock)], t3),
        sc("writefut_cancel_vs_unlock_with_waiter_behind", true, vec![vec![Write, WaitGo, Unlock], vec![PollWriteFut, SetGo, DropFut], cs(Write)], t3),
        sc("readfut_cancel_vs_unlock_with_waiter_behind", true, vec![vec![Write, WaitGo, Unlock], vec![PollReadFut, SetGo, DropFut], cs(Write)], t3),
        sc("writefut_cancel_vs_last_reader_out_with_reader_behind", true, vec![vec![Read, WaitGo, Unlock], vec![PollWriteFut, SetGo, DropFut], cs(ReadAsync)], t3),
    ]
}
