//! One adapter per channel flavour (sync and async handles) onto a uniform `Tx`/`Rx` pair.
//! Method-call auto-ref lets one macro body serve `&self` and `&mut self` APIs.
use crate::exec::{block_on, new_waker, poll_once};
use crate::rt::{Res, P};
use fibre::error::*;
use std::task::Poll;
use std::time::Duration;

pub trait Norm {
    fn norm(self) -> Res;
}
impl Norm for Result<(), TrySendError<P>> {
    fn norm(self) -> Res {
        match self {
            Ok(()) => Res::Ok,
            Err(TrySendError::Full(p)) => Res::Full(p.id),
            Err(TrySendError::Closed(p)) => Res::Closed(Some(p.id)),
            Err(TrySendError::Sent(p)) => Res::Closed(Some(p.id)),
        }
    }
}
impl Norm for Result<(), SendError> {
    fn norm(self) -> Res {
        match self {
            Ok(()) => Res::Ok,
            Err(_) => Res::Closed(None),
        }
    }
}
impl Norm for Result<usize, SendBatchError<P>> {
    fn norm(self) -> Res {
        match self {
            Ok(n) => Res::BatchOk(n),
            Err(e) => Res::BatchErr { sent: e.sent, unsent: e.unsent.iter().map(|p| p.id).collect() },
        }
    }
}
impl Norm for Result<usize, TrySendBatchError<P>> {
    fn norm(self) -> Res {
        match self {
            Ok(n) => Res::BatchOk(n),
            Err(e) => Res::TryBatchErr { sent: e.sent, unsent: e.unsent.iter().map(|p| p.id).collect(), full: matches!(e.reason, BatchSendErrorReason::Full) },
        }
    }
}
impl Norm for Result<P, TryRecvError> {
    fn norm(self) -> Res {
        match self {
            Ok(p) => Res::Val(p.open()),
            Err(TryRecvError::Empty) => Res::Empty,
            Err(TryRecvError::Disconnected) => Res::Disc,
        }
    }
}
impl Norm for Result<P, RecvError> {
    fn norm(self) -> Res {
        match self {
            Ok(p) => Res::Val(p.open()),
            Err(RecvError::Disconnected) => Res::Disc,
        }
    }
}
impl Norm for Result<Vec<P>, RecvError> {
    fn norm(self) -> Res {
        match self {
            Ok(v) => Res::Vals(v.into_iter().map(|p| p.open()).collect()),
            Err(RecvError::Disconnected) => Res::Disc,
        }
    }
}
impl Norm for Result<Vec<P>, TryRecvError> {
    fn norm(self) -> Res {
        match self {
            Ok(v) => Res::Vals(v.into_iter().map(|p| p.open()).collect()),
            Err(TryRecvError::Empty) => Res::Empty,
            Err(TryRecvError::Disconnected) => Res::Disc,
        }
    }
}
impl Norm for Result<(), CloseError> {
    fn norm(self) -> Res {
        match self {
            Ok(()) => Res::Ok,
            Err(_) => Res::CloseErr,
        }
    }
}
impl Norm for Result<P, RecvErrorTimeout> {
    fn norm(self) -> Res {
        match self {
            Ok(p) => Res::Val(p.open()),
            Err(RecvErrorTimeout::Timeout) => Res::Timeout,
            Err(RecvErrorTimeout::Disconnected) => Res::Disc,
        }
    }
}

pub trait Tx: Send {
    fn is_async(&self) -> bool;
    fn try_send(&mut self, p: P) -> Res;
    /// blocking send (sync handle) or `block_on(send future)` (async handle)
    fn send(&mut self, p: P) -> Res;
    fn send_batch(&mut self, _v: Vec<P>) -> Res {
        panic!("MACHINERY|send_batch unsupported on this flavour")
    }
    fn try_send_batch(&mut self, _v: Vec<P>) -> Res {
        panic!("MACHINERY|try_send_batch unsupported on this flavour")
    }
    fn clone_tx(&self) -> Box<dyn Tx> {
        panic!("MACHINERY|sender clone unsupported on this flavour")
    }
    /// explicit `close()` on the handle (the handle itself stays alive until dropped)
    fn close_tx(&mut self) -> Res {
        panic!("MACHINERY|close unsupported on this handle")
    }
}
pub trait Rx: Send {
    fn is_async(&self) -> bool;
    fn try_recv(&mut self) -> Res;
    fn recv(&mut self) -> Res;
    fn recv_t0(&mut self) -> Res {
        panic!("MACHINERY|recv_timeout unsupported on this handle")
    }
    /// async: create the recv future, poll it once, drop it
    fn recv_poll_drop(&mut self) -> Res {
        panic!("MACHINERY|recv future unsupported on this handle")
    }
    fn clone_rx(&self) -> Box<dyn Rx> {
        panic!("MACHINERY|receiver clone unsupported on this flavour")
    }
    /// blocking `recv_batch(max)` (sync handle) or `block_on(recv_batch(max))` (async handle)
    fn recv_batch(&mut self, _max: usize) -> Res {
        panic!("MACHINERY|recv_batch unsupported on this handle")
    }
    fn try_recv_batch(&mut self, _max: usize) -> Res {
        panic!("MACHINERY|try_recv_batch unsupported on this handle")
    }
    /// `recv_timeout(1 h)`: the deadline never passes inside a model run, the timed park is an
    /// untimed loom park (hook H7) — the park/wake protocol of the timed path
    fn recv_tlong(&mut self) -> Res {
        panic!("MACHINERY|recv_timeout unsupported on this handle")
    }
    fn close_rx(&mut self) -> Res {
        panic!("MACHINERY|close unsupported on this handle")
    }
}

pub struct W<H>(pub H);
unsafe impl<H: Send> Send for W<H> {}

macro_rules! feat {
    (tx_sync) => {
        fn is_async(&self) -> bool { false }
        fn try_send(&mut self, p: P) -> Res { self.0.try_send(p).norm() }
        fn send(&mut self, p: P) -> Res { self.0.send(p).norm() }
        fn close_tx(&mut self) -> Res { self.0.close().norm() }
    };
    (tx_async) => {
        fn is_async(&self) -> bool { true }
        fn try_send(&mut self, p: P) -> Res { self.0.try_send(p).norm() }
        fn send(&mut self, p: P) -> Res { block_on(self.0.send(p)).norm() }
        fn close_tx(&mut self) -> Res { self.0.close().norm() }
    };
    (tx_batch_sync) => {
        fn send_batch(&mut self, v: Vec<P>) -> Res { self.0.send_batch(v).norm() }
        fn try_send_batch(&mut self, v: Vec<P>) -> Res { self.0.try_send_batch(v).norm() }
    };
    (tx_batch_async) => {
        fn send_batch(&mut self, v: Vec<P>) -> Res { block_on(self.0.send_batch(v)).norm() }
        fn try_send_batch(&mut self, v: Vec<P>) -> Res { self.0.try_send_batch(v).norm() }
    };
    (tx_clone) => {
        fn clone_tx(&self) -> Box<dyn Tx> { Box::new(W(self.0.clone())) }
    };
    (rx_sync) => {
        fn is_async(&self) -> bool { false }
        fn try_recv(&mut self) -> Res { self.0.try_recv().norm() }
        fn recv(&mut self) -> Res { self.0.recv().norm() }
        fn recv_t0(&mut self) -> Res { self.0.recv_timeout(Duration::ZERO).norm() }
        fn recv_tlong(&mut self) -> Res { self.0.recv_timeout(Duration::from_secs(3600)).norm() }
        fn close_rx(&mut self) -> Res { self.0.close().norm() }
    };
    (rx_batch_sync) => {
        fn recv_batch(&mut self, max: usize) -> Res { self.0.recv_batch(max).norm() }
        fn try_recv_batch(&mut self, max: usize) -> Res { self.0.try_recv_batch(max).norm() }
    };
    (rx_batch_async) => {
        fn recv_batch(&mut self, max: usize) -> Res { block_on(self.0.recv_batch(max)).norm() }
        fn try_recv_batch(&mut self, max: usize) -> Res { self.0.try_recv_batch(max).norm() }
    };
    (rx_async) => {
        fn is_async(&self) -> bool { true }
        fn try_recv(&mut self) -> Res { self.0.try_recv().norm() }
        fn recv(&mut self) -> Res { block_on(self.0.recv()).norm() }
        fn close_rx(&mut self) -> Res { self.0.close().norm() }
        fn recv_poll_drop(&mut self) -> Res {
            let (_wk, waker) = new_waker();
            let mut fut = Box::pin(self.0.recv());
            let r = poll_once(fut.as_mut(), &waker);
            drop(fut);
            match r {
                Poll::Ready(x) => x.norm(),
                Poll::Pending => Res::Pending,
            }
        }
    };
    (rx_clone) => {
        fn clone_rx(&self) -> Box<dyn Rx> { Box::new(W(self.0.clone())) }
    };
}
macro_rules! tx_impl {
    ($ty:ty, [$($f:ident),*]) => { impl Tx for W<$ty> { $( feat!($f); )* } };
}
macro_rules! rx_impl {
    ($ty:ty, [$($f:ident),*]) => { impl Rx for W<$ty> { $( feat!($f); )* } };
}

// spsc bounded
tx_impl!(fibre::spsc::BoundedSyncSender<P>, [tx_sync, tx_batch_sync]);
tx_impl!(fibre::spsc::BoundedAsyncSender<P>, [tx_async, tx_batch_async]);
rx_impl!(fibre::spsc::BoundedSyncReceiver<P>, [rx_sync, rx_batch_sync]);
rx_impl!(fibre::spsc::BoundedAsyncReceiver<P>, [rx_async, rx_batch_async]);
// spsc rendezvous
tx_impl!(fibre::spsc::RendezvousSyncSender<P>, [tx_sync]);
tx_impl!(fibre::spsc::RendezvousAsyncSender<P>, [tx_async]);
rx_impl!(fibre::spsc::RendezvousSyncReceiver<P>, [rx_sync]);
rx_impl!(fibre::spsc::RendezvousAsyncReceiver<P>, [rx_async]);
// mpsc bounded
tx_impl!(fibre::mpsc::BoundedSyncSender<P>, [tx_sync, tx_batch_sync, tx_clone]);
tx_impl!(fibre::mpsc::BoundedAsyncSender<P>, [tx_async, tx_batch_async, tx_clone]);
rx_impl!(fibre::mpsc::BoundedSyncReceiver<P>, [rx_sync, rx_batch_sync]);
rx_impl!(fibre::mpsc::BoundedAsyncReceiver<P>, [rx_async, rx_batch_async]);
// mpsc unbounded
tx_impl!(fibre::mpsc::UnboundedSyncSender<P>, [tx_sync, tx_batch_sync, tx_clone]);
tx_impl!(fibre::mpsc::UnboundedAsyncSender<P>, [tx_async, tx_batch_async, tx_clone]);
rx_impl!(fibre::mpsc::UnboundedSyncReceiver<P>, [rx_sync, rx_batch_sync]);
rx_impl!(fibre::mpsc::UnboundedAsyncReceiver<P>, [rx_async, rx_batch_async]);
// mpsc rendezvous
tx_impl!(fibre::mpsc::RendezvousSyncSender<P>, [tx_sync, tx_clone]);
tx_impl!(fibre::mpsc::RendezvousAsyncSender<P>, [tx_async, tx_clone]);
rx_impl!(fibre::mpsc::RendezvousSyncReceiver<P>, [rx_sync]);
rx_impl!(fibre::mpsc::RendezvousAsyncReceiver<P>, [rx_async]);
// mpmc bounded
tx_impl!(fibre::mpmc::Sender<P>, [tx_sync, tx_batch_sync, tx_clone]);
tx_impl!(fibre::mpmc::AsyncSender<P>, [tx_async, tx_batch_async, tx_clone]);
rx_impl!(fibre::mpmc::Receiver<P>, [rx_sync, rx_batch_sync, rx_clone]);
rx_impl!(fibre::mpmc::AsyncReceiver<P>, [rx_async, rx_batch_async, rx_clone]);
// mpmc unbounded
tx_impl!(fibre::mpmc::UnboundedSyncSender<P>, [tx_sync, tx_batch_sync, tx_clone]);
tx_impl!(fibre::mpmc::UnboundedAsyncSender<P>, [tx_async, tx_batch_async, tx_clone]);
rx_impl!(fibre::mpmc::UnboundedSyncReceiver<P>, [rx_sync, rx_batch_sync, rx_clone]);
rx_impl!(fibre::mpmc::UnboundedAsyncReceiver<P>, [rx_async, rx_batch_async, rx_clone]);
// mpmc rendezvous
tx_impl!(fibre::mpmc::rendezvous::RendezvousSyncSender<P>, [tx_sync, tx_clone]);
tx_impl!(fibre::mpmc::rendezvous::RendezvousAsyncSender<P>, [tx_async, tx_clone]);
rx_impl!(fibre::mpmc::rendezvous::RendezvousSyncReceiver<P>, [rx_sync, rx_clone]);
rx_impl!(fibre::mpmc::rendezvous::RendezvousAsyncReceiver<P>, [rx_async, rx_clone]);

// oneshot (hook H5 puts it on the loom switch): `send` consumes the handle, there is no blocking
// receive; the receiver is an async handle (`recv()` future) with `try_recv`
pub struct OneTx(pub Option<fibre::oneshot::Sender<P>>);
pub struct OneRx(pub fibre::oneshot::Receiver<P>);
impl OneTx {
    fn fire(&mut self, p: P) -> Res {
        let s = self.0.take().unwrap_or_else(|| panic!("MACHINERY|oneshot sender used twice"));
        match s.send(p) {
            Ok(()) => Res::Ok,
            Err(TrySendError::Closed(p)) => Res::Closed(Some(p.id)),
            Err(TrySendError::Sent(p)) => Res::Sent(p.id),
            Err(TrySendError::Full(p)) => Res::Full(p.id),
        }
    }
}
impl Tx for OneTx {
    fn is_async(&self) -> bool {
        false
    }
    fn try_send(&mut self, p: P) -> Res {
        self.fire(p)
    }
    fn send(&mut self, p: P) -> Res {
        self.fire(p)
    }
    fn clone_tx(&self) -> Box<dyn Tx> {
        Box::new(OneTx(self.0.clone()))
    }
}
impl Rx for OneRx {
    fn is_async(&self) -> bool {
        true
    }
    fn try_recv(&mut self) -> Res {
        self.0.try_recv().norm()
    }
    fn recv(&mut self) -> Res {
        block_on(self.0.recv()).norm()
    }
    fn recv_poll_drop(&mut self) -> Res {
        let (_wk, waker) = new_waker();
        let mut fut = Box::pin(self.0.recv());
        let r = poll_once(fut.as_mut(), &waker);
        drop(fut);
        match r {
            Poll::Ready(x) => x.norm(),
            Poll::Pending => Res::Pending,
        }
    }
}

#[derive(Clone, Copy, Debug, PartialEq, Eq, Hash)]
pub enum Flavour {
    SpscBounded,
    SpscRendezvous,
    MpscBounded,
    MpscUnbounded,
    MpscRendezvous,
    MpmcBounded,
    MpmcUnbounded,
    MpmcRendezvous,
    Oneshot,
}
impl Flavour {
    pub const ALL: [Flavour; 8] = [
        Flavour::SpscBounded,
        Flavour::SpscRendezvous,
        Flavour::MpscBounded,
        Flavour::MpscUnbounded,
        Flavour::MpscRendezvous,
        Flavour::MpmcBounded,
        Flavour::MpmcUnbounded,
        Flavour::MpmcRendezvous,
    ];
    pub fn name(self) -> &'static str {
        match self {
            Flavour::SpscBounded => "spsc_bounded",
            Flavour::SpscRendezvous => "spsc_rendezvous",
            Flavour::MpscBounded => "mpsc_bounded",
            Flavour::MpscUnbounded => "mpsc_unbounded",
            Flavour::MpscRendezvous => "mpsc_rendezvous",
            Flavour::MpmcBounded => "mpmc_bounded",
            Flavour::MpmcUnbounded => "mpmc_unbounded",
            Flavour::MpmcRendezvous => "mpmc_rendezvous",
            Flavour::Oneshot => "oneshot",
        }
    }
    pub fn is_bounded(self) -> bool {
        matches!(self, Flavour::SpscBounded | Flavour::MpscBounded | Flavour::MpmcBounded)
    }
    pub fn is_rendezvous(self) -> bool {
        matches!(self, Flavour::SpscRendezvous | Flavour::MpscRendezvous | Flavour::MpmcRendezvous)
    }
    pub fn is_unbounded(self) -> bool {
        matches!(self, Flavour::MpscUnbounded | Flavour::MpmcUnbounded)
    }
    pub fn multi_tx(self) -> bool {
        !matches!(self, Flavour::SpscBounded | Flavour::SpscRendezvous)
    }
    pub fn multi_rx(self) -> bool {
        matches!(self, Flavour::MpmcBounded | Flavour::MpmcUnbounded | Flavour::MpmcRendezvous)
    }
    pub fn has_batch(self) -> bool {
        !self.is_rendezvous()
    }
}

/// how the two sides are obtained
#[derive(Clone, Copy, Debug, PartialEq, Eq)]
pub enum Mix {
    /// both sides from the flavour's native constructor (sync or async according to `asyn`)
    Native,
    /// sync constructor, receiver converted with `to_async()`: sync producer, async consumer
    TxSyncRxAsync,
    /// sync constructor, sender converted with `to_async()`: async producer, sync consumer
    TxAsyncRxSync,
}

/// `cap`: Some(0) rendezvous, None unbounded. `asyn`: both handles async (native async constructor).
pub fn make(fl: Flavour, cap: Option<usize>, asyn: bool, mix: Mix) -> (Box<dyn Tx>, Box<dyn Rx>) {
    macro_rules! pair {
        ($sync:expr, $asyn:expr) => {{
            match mix {
                Mix::Native if asyn => {
                    let (t, r) = $asyn;
                    (Box::new(W(t)) as Box<dyn Tx>, Box::new(W(r)) as Box<dyn Rx>)
                }
                Mix::Native => {
                    let (t, r) = $sync;
                    (Box::new(W(t)) as Box<dyn Tx>, Box::new(W(r)) as Box<dyn Rx>)
                }
                Mix::TxSyncRxAsync => {
                    let (t, r) = $sync;
                    (Box::new(W(t)) as Box<dyn Tx>, Box::new(W(r.to_async())) as Box<dyn Rx>)
                }
                Mix::TxAsyncRxSync => {
                    let (t, r) = $sync;
                    (Box::new(W(t.to_async())) as Box<dyn Tx>, Box::new(W(r)) as Box<dyn Rx>)
                }
            }
        }};
    }
    let c = cap.unwrap_or(0);
    match fl {
        Flavour::SpscBounded => pair!(fibre::spsc::bounded_sync::<P>(c), fibre::spsc::bounded_async::<P>(c)),
        Flavour::SpscRendezvous => pair!(fibre::spsc::rendezvous::rendezvous::<P>(), fibre::spsc::rendezvous::rendezvous_async::<P>()),
        Flavour::MpscBounded => pair!(fibre::mpsc::bounded::<P>(c), fibre::mpsc::bounded_async::<P>(c)),
        Flavour::MpscUnbounded => pair!(fibre::mpsc::unbounded::<P>(), fibre::mpsc::unbounded_async::<P>()),
        Flavour::MpscRendezvous => pair!(fibre::mpsc::rendezvous::rendezvous::<P>(), fibre::mpsc::rendezvous::rendezvous_async::<P>()),
        Flavour::MpmcBounded => pair!(fibre::mpmc::bounded::<P>(c), fibre::mpmc::bounded_async::<P>(c)),
        Flavour::MpmcUnbounded => pair!(fibre::mpmc::unbounded::<P>(), fibre::mpmc::unbounded_async::<P>()),
        Flavour::MpmcRendezvous => pair!(fibre::mpmc::rendezvous::rendezvous::<P>(), fibre::mpmc::rendezvous::rendezvous_async::<P>()),
        Flavour::Oneshot => {
            assert!(mix == Mix::Native, "MACHINERY|oneshot has no conversions");
            let (t, r) = fibre::oneshot::oneshot::<P>();
            (Box::new(OneTx(Some(t))) as Box<dyn Tx>, Box::new(OneRx(r)) as Box<dyn Rx>)
        }
    }
}
