//! Oracles evaluated on the real-time event log at the end of every execution.
use crate::prog::ChanScen;
use crate::rt::{self, oracle_fail, Ev, Id, Op, Res};
use std::collections::BTreeMap;

#[derive(Clone, Debug)]
pub struct OpRec {
    pub t: u8,
    pub h: u8,
    pub op: Op,
    pub call: usize,
    pub ret: usize,
    pub res: Res,
}

/// pair every Call with the Return of the same thread (a thread has one operation in flight)
pub fn pair(log: &[Ev]) -> Vec<OpRec> {
    let mut open: BTreeMap<u8, (usize, &Ev)> = BTreeMap::new();
    let mut out = Vec::new();
    for (i, e) in log.iter().enumerate() {
        match &e.ret {
            None => {
                open.insert(e.t, (i, e));
            }
            Some(r) => {
                let (c, _) = open.remove(&e.t).expect("return without call");
                out.push(OpRec { t: e.t, h: e.h, op: e.op.clone(), call: c, ret: i, res: r.clone() });
            }
        }
    }
    if let Some((t, (_, e))) = open.iter().next() {
        oracle_fail("MACHINERY", "unreturned_op", &format!("{:?}", e.op), &format!("thread {} never returned", t));
    }
    out.sort_by_key(|o| o.call);
    out
}

fn opname(op: &Op) -> String {
    match op {
        Op::Send(_) => "send".into(),
        Op::TrySend(_) => "try_send".into(),
        Op::SendBatch(_) => "send_batch".into(),
        Op::TrySendBatch(_) => "try_send_batch".into(),
        Op::SendAsync(_) => "send_async".into(),
        Op::Recv => "recv".into(),
        Op::TryRecv => "try_recv".into(),
        Op::RecvT0 => "recv_timeout0".into(),
        Op::RecvAsync => "recv_async".into(),
        Op::RecvPollDrop => "recv_fut_poll_drop".into(),
        Op::RecvBatch(_) => "recv_batch".into(),
        Op::TryRecvBatch(_) => "try_recv_batch".into(),
        Op::RecvTLong => "recv_timeout_long".into(),
        Op::CloseTx => "close_tx".into(),
        Op::CloseRx => "close_rx".into(),
        o => format!("{:?}", o).to_lowercase(),
    }
}

struct SendRec<'a> {
    o: &'a OpRec,
    ids: Vec<Id>,
    /// ids the operation reported as delivered
    ok: Vec<Id>,
    /// ids the operation reported as not delivered
    failed: Vec<Id>,
    closed: bool,
    full: bool,
}

fn is_recv(op: &Op) -> bool {
    matches!(op, Op::Recv | Op::TryRecv | Op::RecvT0 | Op::RecvAsync | Op::RecvPollDrop | Op::RecvBatch(_) | Op::TryRecvBatch(_) | Op::RecvTLong)
}

pub fn check_channel(sc: &ChanScen, _shape: &str) {
    let log = rt::log_snapshot();
    let ops = pair(&log);
    let fl = sc.flavour;

    // ---- collect sends
    let mut sends: Vec<SendRec> = Vec::new();
    for o in &ops {
        let (ids, ok, failed, closed, full): (Vec<Id>, Vec<Id>, Vec<Id>, bool, bool) = match (&o.op, &o.res) {
            (Op::Send(id) | Op::TrySend(id) | Op::SendAsync(id), Res::Ok) => (vec![*id], vec![*id], vec![], false, false),
            (Op::Send(id) | Op::TrySend(id) | Op::SendAsync(id), Res::Full(b)) => {
                if b != id {
                    oracle_fail("C01", "handback_wrong_value", &opname(&o.op), &format!("sent {} got back {}", id, b));
                }
                if !matches!(o.op, Op::TrySend(_)) {
                    oracle_fail("C03", "blocking_send_reported_full", &opname(&o.op), "a waiting send returned Full");
                }
                (vec![*id], vec![], vec![*id], false, true)
            }
            (Op::Send(id) | Op::TrySend(id) | Op::SendAsync(id), Res::Closed(b)) => {
                if let Some(b) = b {
                    if b != id {
                        oracle_fail("C01", "handback_wrong_value", &opname(&o.op), &format!("sent {} got back {}", id, b));
                    }
                }
                (vec![*id], vec![], vec![*id], true, false)
            }
            (Op::Send(id) | Op::TrySend(id) | Op::SendAsync(id), Res::Sent(b)) => {
                if b != id {
                    oracle_fail("C01", "handback_wrong_value", &opname(&o.op), &format!("sent {} got back {}", id, b));
                }
                (vec![*id], vec![], vec![*id], false, false)
            }
            (Op::TrySendBatch(ids), Res::TryBatchErr { sent, unsent, full }) => {
                if *sent > ids.len() || ids[*sent..] != unsent[..] {
                    oracle_fail("C01", "batch_handback", "try_send_batch", &format!("input {:?} sent {} unsent {:?}", ids, sent, unsent));
                }
                (ids.clone(), ids[..*sent].to_vec(), unsent.clone(), !*full, *full)
            }
            (Op::SendBatch(ids) | Op::TrySendBatch(ids), Res::BatchOk(n)) => {
                if *n != ids.len() {
                    oracle_fail("C01", "batch_count", "send_batch", &format!("Ok({}) for a batch of {}", n, ids.len()));
                }
                (ids.clone(), ids.clone(), vec![], false, false)
            }
            (Op::SendBatch(ids), Res::BatchErr { sent, unsent }) => {
                if *sent > ids.len() || ids[*sent..] != unsent[..] {
                    oracle_fail("C01", "batch_handback", "send_batch", &format!("input {:?} sent {} unsent {:?}", ids, sent, unsent));
                }
                (ids.clone(), ids[..*sent].to_vec(), unsent.clone(), true, false)
            }
            _ => continue,
        };
        sends.push(SendRec { o, ids, ok, failed, closed, full });
    }
    // ---- collect receives
    struct RecvRec<'a> {
        o: &'a OpRec,
        /// values obtained, in the order the operation returned them
        vals: Vec<Id>,
    }
    let mut recvs: Vec<RecvRec> = Vec::new();
    for o in &ops {
        if is_recv(&o.op) {
            let vals = match &o.res {
                Res::Val(v) => vec![*v],
                Res::Vals(v) => v.clone(),
                _ => vec![],
            };
            recvs.push(RecvRec { o, vals });
        }
    }
    // oneshot: `send(self)` consumes the handle, which is dropped inside the call (our own DropTx entry of that
    // handle comes later and refers to an empty wrapper)
    let oneshot = fl == crate::chan::Flavour::Oneshot;
    // a handle counts as going away from the moment its drop or its close() is called
    let n_tx_drops_before = |pos: usize| {
        if oneshot {
            (0..sc.n_tx).filter(|h| ops.iter().any(|o| o.h == *h && o.call < pos && matches!(o.op, Op::DropTx | Op::CloseTx | Op::Send(_) | Op::TrySend(_)))).count()
        } else {
            (0..sc.n_tx).filter(|h| ops.iter().any(|o| o.h == *h && o.call < pos && matches!(o.op, Op::DropTx | Op::CloseTx))).count()
        }
    };
    let n_rx_drops_before = |pos: usize| (0..sc.n_rx).filter(|h| ops.iter().any(|o| o.h == *h && o.call < pos && matches!(o.op, Op::DropRx | Op::CloseRx))).count();

    // ---- C01 exactly once
    let mut seen: BTreeMap<Id, &OpRec> = BTreeMap::new();
    for r in &recvs {
        for &v in &r.vals {
            let sender = sends.iter().find(|s| s.ids.contains(&v));
            match sender {
                None => oracle_fail("C01", "phantom_value", &opname(&r.o.op), &format!("received {} which no send carried", v)),
                Some(s) => {
                    if s.o.call > r.o.ret {
                        oracle_fail("C01", "phantom_value", &opname(&r.o.op), &format!("received {} before its send was called", v));
                    }
                    if s.failed.contains(&v) {
                        oracle_fail(
                            "C01",
                            "failed_send_delivered",
                            &opname(&s.o.op),
                            &format!("{} reported {:?} for {} but {} returned it", opname(&s.o.op), s.o.res, v, opname(&r.o.op)),
                        );
                    }
                }
            }
            if let Some(first) = seen.get(&v) {
                oracle_fail(
                    "C01",
                    "duplicate_delivery",
                    &opname(&r.o.op),
                    &format!("{} received twice (T{} {} and T{} {})", v, first.t, opname(&first.op), r.o.t, opname(&r.o.op)),
                );
            }
            seen.insert(v, r.o);
        }
    }
    if sc.drains {
        for s in &sends {
            for id in &s.ok {
                if !seen.contains_key(id) {
                    let others: Vec<String> = recvs.iter().filter(|r| r.vals.is_empty()).map(|r| format!("{}->{:?}", opname(&r.o.op), r.o.res)).collect();
                    oracle_fail(
                        "C01",
                        "lost_value",
                        &opname(&s.o.op),
                        &format!("{} reported Ok for {} but no receive returned it although a receiver drained until Disconnected; failed receives: {:?}", opname(&s.o.op), id, others),
                    );
                }
            }
        }
    }

    // ---- C02 per-producer order at every receiver
    for rh in 0..sc.n_rx {
        let mut last: BTreeMap<u32, Id> = BTreeMap::new();
        for r in recvs.iter().filter(|r| r.o.h == rh) {
            for &v in &r.vals {
                let prod = v / 10;
                if let Some(prev) = last.get(&prod) {
                    if *prev >= v {
                        oracle_fail("C02", "reordered", &opname(&r.o.op), &format!("receiver R{} got {} after {} (same producer)", rh, v, prev));
                    }
                }
                last.insert(prod, v);
            }
        }
    }

    // ---- C03 occupancy
    if let Some(cap) = sc.cap {
        if cap >= 1 {
            // in every prefix: #(sends returned Ok) - #(receive calls started that end with a value) <= cap
            for s in &sends {
                if s.ok.is_empty() {
                    continue;
                }
                let pos = s.o.ret;
                let sent: usize = sends.iter().filter(|x| x.o.ret <= pos).map(|x| x.ok.len()).sum();
                let taken: usize = recvs.iter().filter(|r| r.o.call < pos).map(|r| r.vals.len()).sum();
                if sent > taken + cap {
                    oracle_fail(
                        "C03",
                        "over_capacity",
                        &opname(&s.o.op),
                        &format!("{} sends had returned Ok when only {} successful receives had even started (capacity {})", sent, taken, cap),
                    );
                }
            }
            // Full is legitimate only if the channel can have been full at some instant of the call.
            // Receives are credited only when they happen-before the call (same thread): a receive
            // of another thread that merely returned earlier in real time has no happens-before edge
            // to this try_send, so the (Acquire) load of the consumer position may still read the
            // older value under the C11 model loom explores — a late Full there is not a defect.
            for s in sends.iter().filter(|s| s.full) {
                let others: usize = sends.iter().filter(|x| !std::ptr::eq(x.o, s.o) && x.o.call < s.o.ret).map(|x| x.ids.len()).sum::<usize>() + s.ok.len();
                let taken: usize = recvs.iter().filter(|r| r.o.ret < s.o.call && r.o.t == s.o.t).map(|r| r.vals.len()).sum();
                if others < taken + cap {
                    oracle_fail(
                        "C03",
                        "false_full",
                        &opname(&s.o.op),
                        &format!("Full although only {} values were ever offered by other sends before it returned and {} had been received (happens-before) when it was called (capacity {})", others, taken, cap),
                    );
                }
            }
        } else {
            // rendezvous: a send completes only by pairing with a receive: some receive call overlaps it
            for s in sends.iter().filter(|s| !s.ok.is_empty()) {
                let paired = recvs.iter().any(|r| r.o.call < s.o.ret && r.o.ret > s.o.call);
                if !paired {
                    oracle_fail("C03", "rendezvous_unpaired", &opname(&s.o.op), &format!("{} returned Ok with no receive call overlapping it", opname(&s.o.op)));
                }
            }
        }
    }

    // ---- C03 oneshot: only the first send ever succeeds; "already sent" needs a competing send or a receiver that is going away
    if fl == crate::chan::Flavour::Oneshot {
        let oks = sends.iter().filter(|s| !s.ok.is_empty()).count();
        if oks > 1 {
            oracle_fail("C03", "oneshot_second_send_succeeded", "send", &format!("{} sends on one oneshot channel reported Ok", oks));
        }
        for s in sends.iter().filter(|s| matches!(s.o.res, Res::Sent(_))) {
            let rival = sends.iter().any(|x| !std::ptr::eq(x.o, s.o) && x.o.call < s.o.ret);
            if !rival && n_rx_drops_before(s.o.ret) == 0 {
                oracle_fail("C03", "oneshot_false_sent", "send", "send reported Sent although no other send had been called and the receiver was alive");
            }
        }
    }

    // ---- C04 disconnect protocol
    for r in &recvs {
        if r.o.res == Res::Disc {
            let dropped = n_tx_drops_before(r.o.ret);
            if dropped < sc.n_tx as usize {
                oracle_fail(
                    "C04",
                    "disconnected_while_sender_alive",
                    &opname(&r.o.op),
                    &format!("Disconnected although only {} of {} sender handles had started dropping", dropped, sc.n_tx),
                );
            }
            // every value sent must have been (at least in the process of being) taken before
            for s in &sends {
                for id in &s.ok {
                    if let Some(taker) = seen.get(id) {
                        if taker.call > r.o.ret {
                            oracle_fail(
                                "C04",
                                "disconnected_before_drained",
                                &opname(&r.o.op),
                                &format!("Disconnected was observed while {} was still inside the channel (received later by T{})", id, taker.t),
                            );
                        }
                    }
                }
            }
            for later in recvs.iter().filter(|x| x.o.h == r.o.h && x.o.call > r.o.ret) {
                if let Some(&v) = later.vals.first() {
                    oracle_fail("C04", "value_after_disconnected", &opname(&later.o.op), &format!("receiver R{} obtained {} after it had observed Disconnected", r.o.h, v));
                }
            }
        }
    }
    for s in sends.iter().filter(|s| s.closed) {
        let dropped = n_rx_drops_before(s.o.ret);
        if dropped < sc.n_rx as usize {
            oracle_fail(
                "C04",
                "closed_while_receiver_alive",
                &opname(&s.o.op),
                &format!("Closed although only {} of {} receiver handles had started dropping", dropped, sc.n_rx),
            );
        }
    }

    // ---- C09 drop ledger
    check_ledger("C09", fl.name());
    let _ = fl;
}

pub fn check_ledger(prop: &str, _what: &str) {
    for (id, (created, dropped)) in rt::ledger_snapshot().iter().enumerate() {
        if created != dropped {
            let rule = if dropped > created { "double_drop" } else { "leaked" };
            oracle_fail(prop, rule, "drop", &format!("payload {}: {} instance(s) created, {} dropped after every handle was gone", id, created, dropped));
        }
    }
}
