//! Data-driven channel scenario: a few threads, each a short list of steps on its handles.
use crate::chan::{make, Flavour, Mix, Rx, Tx};
use crate::oracle;
use crate::rt::{self, Id, Op, Res, P};

#[derive(Clone, Debug)]
pub enum Step {
    Send(Id),
    TrySend(Id),
    SendBatch(Vec<Id>),
    TrySendBatch(Vec<Id>),
    DropTx,
    Recv,
    TryRecv,
    RecvT0,
    RecvPollDrop,
    /// blocking / awaited recv_batch(max)
    RecvBatch(usize),
    TryRecvBatch(usize),
    /// recv_timeout(1 h) (hook H7: the timed park is an untimed loom park)
    RecvTLong,
    /// blocking / async recv until Disconnected
    Drain,
    /// blocking / awaited recv_batch(max) until Disconnected
    DrainBatch(usize),
    /// explicit close() of the handle (it is dropped at the end of the thread's program)
    CloseTx,
    CloseRx,
    /// try_recv + yield until Disconnected
    DrainTry,
    DropRx,
    /// main thread only: join every spawned thread here (handles still held)
    JoinAll,
}

#[derive(Clone, Debug, Default)]
pub struct ThreadProg {
    pub tx: Option<u8>,
    pub rx: Option<u8>,
    pub steps: Vec<Step>,
}

#[derive(Clone, Debug)]
pub struct ChanScen {
    pub flavour: Flavour,
    /// Some(0) rendezvous, None unbounded
    pub cap: Option<usize>,
    pub asyn: bool,
    /// one side converted with to_async() (sync and async handles mixed on one channel)
    pub mix: Mix,
    pub n_tx: u8,
    pub n_rx: u8,
    /// threads[0] is the model's main thread
    pub threads: Vec<ThreadProg>,
    /// values put into the channel by the main thread (try_send on S0) before any thread is spawned
    pub prefill: Vec<Id>,
    /// some receiver keeps receiving until Disconnected and no receiver handle is dropped early:
    /// every value whose send returned Ok must be received
    pub drains: bool,
}

const MAX_DRAIN: usize = 12;

fn run_thread(t: u8, prog: ThreadProg, mut tx: Option<Box<dyn Tx>>, mut rx: Option<Box<dyn Rx>>, joins: &mut Vec<loom::thread::JoinHandle<()>>) {
    let th = prog.tx.unwrap_or(0);
    let rh = prog.rx.unwrap_or(0);
    for step in prog.steps {
        match step {
            Step::Send(id) => {
                let s = tx.as_mut().expect("tx");
                let op = if s.is_async() { Op::SendAsync(id) } else { Op::Send(id) };
                rt::log_call(t, th, &op);
                let p = P::new(id);
                let r = s.send(p);
                rt::log_ret(t, th, &op, r, true);
            }
            Step::TrySend(id) => {
                let s = tx.as_mut().expect("tx");
                let op = Op::TrySend(id);
                rt::log_call(t, th, &op);
                let p = P::new(id);
                let r = s.try_send(p);
                rt::log_ret(t, th, &op, r, true);
            }
            Step::SendBatch(ids) => {
                let s = tx.as_mut().expect("tx");
                let op = Op::SendBatch(ids.clone());
                rt::log_call(t, th, &op);
                let v: Vec<P> = ids.iter().map(|&i| P::new(i)).collect();
                let r = s.send_batch(v);
                rt::log_ret(t, th, &op, r, true);
            }
            Step::TrySendBatch(ids) => {
                let s = tx.as_mut().expect("tx");
                let op = Op::TrySendBatch(ids.clone());
                rt::log_call(t, th, &op);
                let v: Vec<P> = ids.iter().map(|&i| P::new(i)).collect();
                let r = s.try_send_batch(v);
                rt::log_ret(t, th, &op, r, true);
            }
            Step::DropTx => drop_tx(t, th, &mut tx),
            Step::Recv => {
                let r = rx.as_mut().expect("rx");
                let op = if r.is_async() { Op::RecvAsync } else { Op::Recv };
                rt::log_call(t, rh, &op);
                let res = r.recv();
                rt::log_ret(t, rh, &op, res, true);
            }
            Step::TryRecv => {
                let r = rx.as_mut().expect("rx");
                rt::log_call(t, rh, &Op::TryRecv);
                let res = r.try_recv();
                rt::log_ret(t, rh, &Op::TryRecv, res, true);
            }
            Step::RecvT0 => {
                let r = rx.as_mut().expect("rx");
                rt::log_call(t, rh, &Op::RecvT0);
                let res = r.recv_t0();
                rt::log_ret(t, rh, &Op::RecvT0, res, true);
            }
            Step::RecvPollDrop => {
                let r = rx.as_mut().expect("rx");
                rt::log_call(t, rh, &Op::RecvPollDrop);
                let res = r.recv_poll_drop();
                rt::log_ret(t, rh, &Op::RecvPollDrop, res, true);
            }
            Step::RecvBatch(n) => {
                let r = rx.as_mut().expect("rx");
                let op = Op::RecvBatch(n);
                rt::log_call(t, rh, &op);
                let res = r.recv_batch(n);
                rt::log_ret(t, rh, &op, res, true);
            }
            Step::TryRecvBatch(n) => {
                let r = rx.as_mut().expect("rx");
                let op = Op::TryRecvBatch(n);
                rt::log_call(t, rh, &op);
                let res = r.try_recv_batch(n);
                rt::log_ret(t, rh, &op, res, true);
            }
            Step::RecvTLong => {
                let r = rx.as_mut().expect("rx");
                rt::log_call(t, rh, &Op::RecvTLong);
                let res = r.recv_tlong();
                rt::log_ret(t, rh, &Op::RecvTLong, res, true);
            }
            Step::DrainBatch(n) => {
                let r = rx.as_mut().expect("rx");
                let op = Op::RecvBatch(n);
                for _ in 0..MAX_DRAIN {
                    rt::log_call(t, rh, &op);
                    let res = r.recv_batch(n);
                    let done = res == Res::Disc;
                    rt::log_ret(t, rh, &op, res, true);
                    if done {
                        break;
                    }
                }
            }
            Step::CloseTx => {
                let s = tx.as_mut().expect("tx");
                rt::log_call(t, th, &Op::CloseTx);
                let res = s.close_tx();
                rt::log_ret(t, th, &Op::CloseTx, res, true);
            }
            Step::CloseRx => {
                let r = rx.as_mut().expect("rx");
                rt::log_call(t, rh, &Op::CloseRx);
                let res = r.close_rx();
                rt::log_ret(t, rh, &Op::CloseRx, res, true);
            }
            Step::Drain => {
                let r = rx.as_mut().expect("rx");
                let op = if r.is_async() { Op::RecvAsync } else { Op::Recv };
                for _ in 0..MAX_DRAIN {
                    rt::log_call(t, rh, &op);
                    let res = r.recv();
                    let done = res == Res::Disc;
                    rt::log_ret(t, rh, &op, res, true);
                    if done {
                        break;
                    }
                }
            }
            Step::DrainTry => {
                let r = rx.as_mut().expect("rx");
                let mut got = 0;
                let mut last_empty = false;
                loop {
                    rt::log_call(t, rh, &Op::TryRecv);
                    let res = r.try_recv();
                    // consecutive Empty answers count once in the observable outcome
                    let outcome = !(res == Res::Empty && last_empty);
                    last_empty = res == Res::Empty;
                    let res2 = res.clone();
                    rt::log_ret(t, rh, &Op::TryRecv, res, outcome);
                    match res2 {
                        Res::Disc => break,
                        Res::Empty => loom::thread::yield_now(),
                        _ => {
                            got += 1;
                            if got >= MAX_DRAIN {
                                break;
                            }
                        }
                    }
                }
            }
            Step::DropRx => drop_rx(t, rh, &mut rx),
            Step::JoinAll => join_all(t, joins),
        }
    }
    drop_tx(t, th, &mut tx);
    drop_rx(t, rh, &mut rx);
}

fn drop_tx(t: u8, h: u8, tx: &mut Option<Box<dyn Tx>>) {
    if let Some(s) = tx.take() {
        rt::log_call(t, h, &Op::DropTx);
        drop(s);
        rt::log_ret(t, h, &Op::DropTx, Res::Ok, false);
    }
}
fn drop_rx(t: u8, h: u8, rx: &mut Option<Box<dyn Rx>>) {
    if let Some(r) = rx.take() {
        rt::log_call(t, h, &Op::DropRx);
        drop(r);
        rt::log_ret(t, h, &Op::DropRx, Res::Ok, false);
    }
}
fn join_all(t: u8, joins: &mut Vec<loom::thread::JoinHandle<()>>) {
    for j in joins.drain(..) {
        rt::log_call(t, 0, &Op::Join);
        j.join().expect("join");
        rt::log_ret(t, 0, &Op::Join, Res::Ok, false);
    }
}

/// one execution of the scenario (body of the loom model closure)
pub fn run_once(sc: &ChanScen, shape: &str) {
    let (tx0, rx0) = make(sc.flavour, sc.cap, sc.asyn, sc.mix);
    let mut txs: Vec<Option<Box<dyn Tx>>> = Vec::new();
    let mut rxs: Vec<Option<Box<dyn Rx>>> = Vec::new();
    for _ in 1..sc.n_tx {
        txs.push(Some(tx0.clone_tx()));
    }
    for _ in 1..sc.n_rx {
        rxs.push(Some(rx0.clone_rx()));
    }
    txs.insert(0, Some(tx0));
    rxs.insert(0, Some(rx0));
    for &id in &sc.prefill {
        let op = Op::TrySend(id);
        rt::log_call(0, 0, &op);
        let r = txs[0].as_mut().unwrap().try_send(P::new(id));
        rt::log_ret(0, 0, &op, r, true);
    }
    // distribute the handles, drop the ones no thread owns (they would keep the channel open), then spawn
    let mut owned: Vec<(Option<Box<dyn Tx>>, Option<Box<dyn Rx>>)> = Vec::new();
    for prog in sc.threads.iter() {
        let tx = prog.tx.and_then(|h| txs[h as usize].take());
        let rx = prog.rx.and_then(|h| rxs[h as usize].take());
        owned.push((tx, rx));
    }
    for (h, s) in txs.iter_mut().enumerate() {
        drop_tx(0, h as u8, s);
    }
    for (h, r) in rxs.iter_mut().enumerate() {
        drop_rx(0, h as u8, r);
    }
    let mut joins = Vec::new();
    let mut it = owned.into_iter();
    let (tx, rx) = it.next().expect("main thread");
    for (i, (ttx, trx)) in it.enumerate() {
        let prog = sc.threads[i + 1].clone();
        joins.push(loom::thread::spawn(move || {
            let mut none = Vec::new();
            run_thread((i + 1) as u8, prog, ttx, trx, &mut none);
        }));
    }
    let p0 = sc.threads[0].clone();
    run_thread(0, p0, tx, rx, &mut joins);
    join_all(0, &mut joins);
    oracle::check_channel(sc, shape);
}
