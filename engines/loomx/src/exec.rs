//! Mini executor on loom primitives (loom's `futures` feature does not build offline).
//! One task per `block_on`; the waker sets a loom AtomicBool and unparks the loom thread that is
//! blocked in `block_on`, so a wake from another modelled thread is a real cross-thread edge.
use loom::sync::atomic::{AtomicBool, Ordering};
use std::future::Future;
use std::pin::Pin;
use std::sync::Arc;
use std::task::{Context, Poll, Wake, Waker};

pub struct Wk {
    flag: AtomicBool,
    thread: loom::thread::Thread,
}
impl Wake for Wk {
    fn wake(self: Arc<Self>) {
        self.wake_by_ref()
    }
    fn wake_by_ref(self: &Arc<Self>) {
        self.flag.store(true, Ordering::Release);
        self.thread.unpark();
    }
}

pub fn new_waker() -> (Arc<Wk>, Waker) {
    let wk = Arc::new(Wk { flag: AtomicBool::new(false), thread: loom::thread::current() });
    (wk.clone(), Waker::from(wk))
}

impl Wk {
    /// consume a wake if one was delivered.
    /// Deliberately load + store, not `swap`: loom 0.7 lets an RMW read a store that is not the
    /// latest in real time when plain stores and RMWs mix on one atomic (it does not enforce RMW
    /// adjacency in modification order), which turns a `swap`-based flag into false deadlocks.
    /// Clearing before the re-poll is the usual lossless order: a wake that lands after the clear
    /// sets the flag again, one that landed before it is covered by the poll that follows.
    pub fn take(&self) -> bool {
        if self.flag.load(Ordering::Acquire) {
            self.flag.store(false, Ordering::Relaxed);
            true
        } else {
            false
        }
    }
    /// park the calling loom thread until a wake has been delivered
    pub fn wait(&self) {
        while !self.take() {
            loom::thread::park();
        }
    }
}

pub fn block_on<F: Future>(f: F) -> F::Output {
    let mut f = std::pin::pin!(f);
    let (wk, waker) = new_waker();
    let mut cx = Context::from_waker(&waker);
    loop {
        match f.as_mut().poll(&mut cx) {
            Poll::Ready(v) => return v,
            Poll::Pending => wk.wait(),
        }
    }
}

/// poll a pinned future once with the given waker
pub fn poll_once<F: Future + ?Sized>(f: Pin<&mut F>, waker: &Waker) -> Poll<F::Output> {
    let mut cx = Context::from_waker(waker);
    f.poll(&mut cx)
}
