//! Broadcast SPMC scenarios (C07): `fibre::spmc::bounded`, one producer, receivers R0 (+ R1 = clone).
use crate::chan::Norm;
use crate::oracle::{check_ledger, pair};
use crate::rt::{self, oracle_fail, Id, Op, Res, P};
use crate::scen::{Body, Scenario};
use crate::exec::{block_on, new_waker, poll_once};
use fibre::spmc::{BoundedAsyncReceiver, BoundedAsyncSender, BoundedSyncReceiver, BoundedSyncSender};
use std::collections::BTreeMap;
use std::task::Poll;

/// sync or async handle pair behind one interface (async operations run on the mini executor)
pub enum Tx<T: Send + Clone> {
    S(BoundedSyncSender<T>),
    A(BoundedAsyncSender<T>),
}
pub enum Rx<T: Send + Clone> {
    S(BoundedSyncReceiver<T>),
    A(BoundedAsyncReceiver<T>),
}
impl Tx<P> {
    fn send(&self, p: P) -> Res {
        match self {
            Tx::S(s) => s.send(p).norm(),
            Tx::A(s) => block_on(s.send(p)).norm(),
        }
    }
    fn try_send(&self, p: P) -> Res {
        match self {
            Tx::S(s) => s.try_send(p).norm(),
            Tx::A(s) => s.try_send(p).norm(),
        }
    }
    fn send_batch(&self, v: Vec<P>) -> Res {
        match self {
            Tx::S(s) => s.send_batch(v).norm(),
            Tx::A(s) => block_on(s.send_batch(v)).norm(),
        }
    }
    fn close(&mut self) -> Res {
        match self {
            Tx::S(s) => s.close().norm(),
            Tx::A(s) => s.close().norm(),
        }
    }
}
impl Rx<P> {
    fn recv(&self) -> Res {
        match self {
            Rx::S(r) => r.recv().norm(),
            Rx::A(r) => block_on(r.recv()).norm(),
        }
    }
    fn try_recv(&self) -> Res {
        match self {
            Rx::S(r) => r.try_recv().norm(),
            Rx::A(r) => r.try_recv().norm(),
        }
    }
    fn recv_batch(&self, max: usize) -> Res {
        match self {
            Rx::S(r) => r.recv_batch(max).norm(),
            Rx::A(r) => block_on(r.recv_batch(max)).norm(),
        }
    }
    /// sync only: recv_timeout(1 h) — hook H7 turns the timed park into an untimed loom park
    fn recv_tlong(&self) -> Res {
        match self {
            Rx::S(r) => r.recv_timeout(std::time::Duration::from_secs(3600)).norm(),
            Rx::A(_) => panic!("MACHINERY|recv_timeout on an async handle"),
        }
    }
    fn close(&self) -> Res {
        match self {
            Rx::S(r) => r.close().norm(),
            Rx::A(r) => r.close().norm(),
        }
    }
    /// async only: create the recv future, poll it once, drop it
    fn recv_poll_drop(&self) -> Res {
        match self {
            Rx::S(_) => panic!("MACHINERY|recv future on a sync handle"),
            Rx::A(r) => {
                let (_wk, waker) = new_waker();
                let mut fut = Box::pin(r.recv());
                let x = poll_once(fut.as_mut(), &waker);
                drop(fut);
                match x {
                    Poll::Ready(v) => v.norm(),
                    Poll::Pending => Res::Pending,
                }
            }
        }
    }
}
impl Clone for Rx<P> {
    fn clone(&self) -> Self {
        match self {
            Rx::S(r) => Rx::S(r.clone()),
            Rx::A(r) => Rx::A(r.clone()),
        }
    }
}

#[derive(Clone, Debug)]
pub enum BStep {
    Send(Id),
    TrySend(Id),
    SendBatch(Vec<Id>),
    Recv,
    TryRecv,
    /// async: recv future polled once and dropped
    RecvPollDrop,
    /// recv until Disconnected
    Drain,
    /// recv_batch(max) until Disconnected
    DrainBatch(usize),
    /// recv_timeout(1 h)
    RecvTLong,
    /// explicit close() of the receiver (the handle is dropped at the end of the program)
    CloseRx,
    /// explicit close() of the sender
    CloseTx,
    /// clone the thread's receiver; the clone becomes the thread's second receiver (handle 2)
    CloneRx,
    /// try_recv on both own receivers in turn (+ yield) until both are Disconnected
    DrainBothTry,
    DropRx,
    JoinAll,
}

#[derive(Clone, Debug)]
pub struct BThread {
    pub tx: bool,
    pub rx: Option<u8>,
    pub steps: Vec<BStep>,
}

#[derive(Clone, Debug)]
pub struct BcastScen {
    pub cap: usize,
    /// receivers that exist before anything is sent (R0, and R1 = R0.clone())
    pub n_rx: u8,
    pub threads: Vec<BThread>,
    /// async handles on both sides (`spmc::bounded_async`)
    pub asyn: bool,
    /// 0: native pair; 1: sync sender, receivers converted with to_async(); 2: sender converted with to_async(), sync receivers
    pub mix: u8,
}

const MAX_DRAIN: usize = 10;

fn run_thread(t: u8, prog: BThread, mut tx: Option<Tx<P>>, mut rx: Option<Rx<P>>, joins: &mut Vec<loom::thread::JoinHandle<()>>) {
    let rh = prog.rx.unwrap_or(0);
    let mut rx2: Option<Rx<P>> = None;
    for step in prog.steps {
        match step {
            BStep::Send(id) => {
                let op = Op::Send(id);
                rt::log_call(t, 0, &op);
                let r = tx.as_ref().expect("tx").send(P::new(id));
                rt::log_ret(t, 0, &op, r, true);
            }
            BStep::TrySend(id) => {
                let op = Op::TrySend(id);
                rt::log_call(t, 0, &op);
                let r = tx.as_ref().expect("tx").try_send(P::new(id));
                rt::log_ret(t, 0, &op, r, true);
            }
            BStep::SendBatch(ids) => {
                let op = Op::SendBatch(ids.clone());
                rt::log_call(t, 0, &op);
                let r = tx.as_ref().expect("tx").send_batch(ids.iter().map(|&i| P::new(i)).collect());
                rt::log_ret(t, 0, &op, r, true);
            }
            BStep::RecvPollDrop => {
                rt::log_call(t, rh, &Op::RecvPollDrop);
                let r = rx.as_ref().expect("rx").recv_poll_drop();
                rt::log_ret(t, rh, &Op::RecvPollDrop, r, true);
            }
            BStep::Recv => {
                rt::log_call(t, rh, &Op::Recv);
                let r = rx.as_ref().expect("rx").recv();
                rt::log_ret(t, rh, &Op::Recv, r, true);
            }
            BStep::TryRecv => {
                rt::log_call(t, rh, &Op::TryRecv);
                let r = rx.as_ref().expect("rx").try_recv();
                rt::log_ret(t, rh, &Op::TryRecv, r, true);
            }
            BStep::Drain => {
                for _ in 0..MAX_DRAIN {
                    rt::log_call(t, rh, &Op::Recv);
                    let r = rx.as_ref().expect("rx").recv();
                    let done = r == Res::Disc;
                    rt::log_ret(t, rh, &Op::Recv, r, true);
                    if done {
                        break;
                    }
                }
            }
            BStep::DrainBatch(n) => {
                let op = Op::RecvBatch(n);
                for _ in 0..MAX_DRAIN {
                    rt::log_call(t, rh, &op);
                    let r = rx.as_ref().expect("rx").recv_batch(n);
                    let done = r == Res::Disc;
                    rt::log_ret(t, rh, &op, r, true);
                    if done {
                        break;
                    }
                }
            }
            BStep::RecvTLong => {
                rt::log_call(t, rh, &Op::RecvTLong);
                let r = rx.as_ref().expect("rx").recv_tlong();
                rt::log_ret(t, rh, &Op::RecvTLong, r, true);
            }
            BStep::CloseRx => {
                rt::log_call(t, rh, &Op::CloseRx);
                let r = rx.as_ref().expect("rx").close();
                rt::log_ret(t, rh, &Op::CloseRx, r, true);
            }
            BStep::CloseTx => {
                rt::log_call(t, 0, &Op::CloseTx);
                let r = tx.as_mut().expect("tx").close();
                rt::log_ret(t, 0, &Op::CloseTx, r, true);
            }
            BStep::CloneRx => {
                rt::log_call(t, 2, &Op::CloneRx);
                rx2 = Some(rx.as_ref().expect("rx").clone());
                rt::log_ret(t, 2, &Op::CloneRx, Res::Ok, false);
            }
            BStep::DrainBothTry => {
                let mut done = [rx.is_none(), rx2.is_none()];
                let mut last_empty = [false, false];
                let mut rounds = 0;
                while !(done[0] && done[1]) && rounds < 4 * MAX_DRAIN {
                    rounds += 1;
                    let mut progressed = false;
                    for k in 0..2 {
                        if done[k] {
                            continue;
                        }
                        let (r, h) = if k == 0 { (rx.as_ref().unwrap(), rh) } else { (rx2.as_ref().unwrap(), 2) };
                        rt::log_call(t, h, &Op::TryRecv);
                        let res = r.try_recv();
                        let outcome = !(res == Res::Empty && last_empty[k]);
                        last_empty[k] = res == Res::Empty;
                        match res {
                            Res::Disc => done[k] = true,
                            Res::Val(_) => progressed = true,
                            _ => {}
                        }
                        rt::log_ret(t, h, &Op::TryRecv, res, outcome);
                    }
                    if !progressed {
                        loom::thread::yield_now();
                    }
                }
            }
            BStep::DropRx => drop_rx(t, rh, &mut rx),
            BStep::JoinAll => join_all(t, joins),
        }
    }
    if let Some(s) = tx.take() {
        rt::log_call(t, 0, &Op::DropTx);
        drop(s);
        rt::log_ret(t, 0, &Op::DropTx, Res::Ok, false);
    }
    drop_rx(t, rh, &mut rx);
    drop_rx(t, 2, &mut rx2);
}

fn drop_rx(t: u8, h: u8, rx: &mut Option<Rx<P>>) {
    if let Some(r) = rx.take() {
        rt::log_call(t, h, &Op::DropRx);
        drop(r);
        rt::log_ret(t, h, &Op::DropRx, Res::Ok, false);
    }
}
fn join_all(t: u8, joins: &mut Vec<loom::thread::JoinHandle<()>>) {
    for j in joins.drain(..) {
        rt::log_call(t, 0, &Op::Join);
        j.join().expect("join");
        rt::log_ret(t, 0, &Op::Join, Res::Ok, false);
    }
}

pub fn run_once(sc: &BcastScen) {
    let (tx, rx0) = if sc.mix == 1 {
        let (t, r) = fibre::spmc::bounded::<P>(sc.cap);
        (Tx::S(t), Rx::A(r.to_async()))
    } else if sc.mix == 2 {
        let (t, r) = fibre::spmc::bounded::<P>(sc.cap);
        (Tx::A(t.to_async()), Rx::S(r))
    } else if sc.asyn {
        let (t, r) = fibre::spmc::bounded_async::<P>(sc.cap);
        (Tx::A(t), Rx::A(r))
    } else {
        let (t, r) = fibre::spmc::bounded::<P>(sc.cap);
        (Tx::S(t), Rx::S(r))
    };
    let mut rxs: Vec<Option<Rx<P>>> = vec![None, None];
    if sc.n_rx > 1 {
        rxs[1] = Some(rx0.clone());
    }
    rxs[0] = Some(rx0);
    let mut tx = Some(tx);
    let mut owned = Vec::new();
    for p in &sc.threads {
        let t = if p.tx { tx.take() } else { None };
        let r = p.rx.and_then(|h| rxs[h as usize].take());
        owned.push((t, r));
    }
    let mut it = owned.into_iter();
    let (tx0, rx0) = it.next().expect("main");
    let mut joins = Vec::new();
    for (i, (t, r)) in it.enumerate() {
        let prog = sc.threads[i + 1].clone();
        joins.push(loom::thread::spawn(move || {
            let mut none = Vec::new();
            run_thread((i + 1) as u8, prog, t, r, &mut none);
        }));
    }
    run_thread(0, sc.threads[0].clone(), tx0, rx0, &mut joins);
    join_all(0, &mut joins);
    check(sc);
}

fn check(sc: &BcastScen) {
    let log = rt::log_snapshot();
    let ops = pair(&log);
    // the sent sequence (single producer: program order)
    let mut sent: Vec<(Id, usize, usize)> = Vec::new(); // id, call, ret
    let mut tx_drop_call = usize::MAX;
    for o in &ops {
        match (&o.op, &o.res) {
            (Op::Send(id) | Op::TrySend(id), Res::Ok) => sent.push((*id, o.call, o.ret)),
            (Op::SendBatch(ids), Res::BatchOk(n)) => {
                if *n != ids.len() {
                    oracle_fail("C07", "batch_count", "send_batch", &format!("Ok({}) for a batch of {}", n, ids.len()));
                }
                for id in ids {
                    sent.push((*id, o.call, o.ret));
                }
            }
            (Op::SendBatch(ids), Res::BatchErr { sent: k, unsent }) => {
                if *k > ids.len() || ids[*k..] != unsent[..] {
                    oracle_fail("C07", "batch_handback", "send_batch", &format!("input {:?} sent {} unsent {:?}", ids, k, unsent));
                }
                for id in &ids[..*k] {
                    sent.push((*id, o.call, o.ret));
                }
            }
            (Op::Send(id) | Op::TrySend(id), Res::Full(b) | Res::Closed(Some(b))) => {
                if b != id {
                    oracle_fail("C07", "handback_wrong_value", "try_send", &format!("sent {} got back {}", id, b));
                }
                if matches!(o.op, Op::Send(_)) && matches!(o.res, Res::Full(_)) {
                    oracle_fail("C07", "blocking_send_reported_full", "send", "a waiting send returned Full");
                }
            }
            (Op::DropTx | Op::CloseTx, _) => tx_drop_call = tx_drop_call.min(o.call),
            _ => {}
        }
    }
    let sent_ids: Vec<Id> = sent.iter().map(|s| s.0).collect();
    // receivers: handle -> (start index in the sent sequence, created at, drop call, values, drained)
    struct R {
        start: usize,
        created: usize,
        drop_call: usize,
        got: Vec<(Id, usize)>, // value, call position of the receive
        disc: Option<usize>,
    }
    let mut rs: BTreeMap<u8, R> = BTreeMap::new();
    for h in 0..sc.n_rx {
        rs.insert(h, R { start: 0, created: 0, drop_call: usize::MAX, got: vec![], disc: None });
    }
    for o in &ops {
        match (&o.op, &o.res) {
            (Op::CloneRx, _) => {
                // the clone starts at its parent's position: what the parent (same thread) had received before
                let parent = sc.threads[o.t as usize].rx.unwrap_or(0);
                let start = rs.get(&parent).map(|r| r.start + r.got.len()).unwrap_or(0);
                rs.insert(o.h, R { start, created: o.ret, drop_call: usize::MAX, got: vec![], disc: None });
            }
            (Op::Recv | Op::TryRecv | Op::RecvPollDrop | Op::RecvTLong, Res::Val(v)) => {
                let r = rs.get_mut(&o.h).expect("receiver");
                if let Some(d) = r.disc {
                    oracle_fail("C07", "value_after_disconnected", "recv", &format!("R{} obtained {} after Disconnected at log position {}", o.h, v, d));
                }
                r.got.push((*v, o.call));
            }
            (Op::RecvBatch(_), Res::Vals(vs)) => {
                let r = rs.get_mut(&o.h).expect("receiver");
                if let (Some(d), Some(v)) = (r.disc, vs.first()) {
                    oracle_fail("C07", "value_after_disconnected", "recv_batch", &format!("R{} obtained {} after Disconnected at log position {}", o.h, v, d));
                }
                for v in vs {
                    r.got.push((*v, o.call));
                }
            }
            (Op::Recv | Op::TryRecv | Op::RecvPollDrop | Op::RecvTLong | Op::RecvBatch(_), Res::Disc) => {
                if o.ret < tx_drop_call {
                    oracle_fail("C07", "disconnected_while_sender_alive", "recv", &format!("R{} observed Disconnected before the sender started dropping", o.h));
                }
                let r = rs.get_mut(&o.h).expect("receiver");
                if r.disc.is_none() {
                    r.disc = Some(o.ret);
                }
            }
            (Op::DropRx | Op::CloseRx, _) => {
                // a receiver stops holding the producer back from the moment its close()/drop is called
                if let Some(r) = rs.get_mut(&o.h) {
                    r.drop_call = r.drop_call.min(o.call);
                }
            }
            _ => {}
        }
    }
    for (h, r) in &rs {
        let got: Vec<Id> = r.got.iter().map(|g| g.0).collect();
        let expect_all = &sent_ids[r.start.min(sent_ids.len())..];
        let ok = if r.disc.is_some() { got[..] == expect_all[..] } else { got.len() <= expect_all.len() && got[..] == expect_all[..got.len()] };
        if !ok {
            let rule = if r.start > 0 || r.created > 0 { "clone_sequence_mismatch" } else { "sequence_mismatch" };
            oracle_fail(
                "C07",
                rule,
                "recv",
                &format!("R{} (start position {}) received {:?}{} but the sender sent {:?}", h, r.start, got, if r.disc.is_some() { " then Disconnected" } else { "" }, sent_ids),
            );
        }
    }
    // back-pressure: the k-th send may complete only if every live receiver has at least started
    // the receive that takes item k-cap
    for (k0, (id, call, ret)) in sent.iter().enumerate() {
        let k = k0 + 1;
        if k <= sc.cap {
            continue;
        }
        for (h, r) in &rs {
            let live = r.created < *call && r.drop_call > *ret;
            if !live {
                continue;
            }
            let started = r.got.iter().filter(|g| g.1 < *ret).count();
            if r.start + started + sc.cap < k {
                oracle_fail(
                    "C07",
                    "overwrite_unread",
                    "send",
                    &format!("send #{} (value {}) completed while live receiver R{} had started only {} successful receives from position {} (capacity {})", k, id, h, started, r.start, sc.cap),
                );
            }
        }
    }
    check_ledger("C09", "spmc_broadcast");
}

fn bt(tx: bool, rx: Option<u8>, steps: Vec<BStep>) -> BThread {
    BThread { tx, rx, steps }
}

fn sc(name: &str, cap: usize, n_rx: u8, threads: Vec<BThread>, pb: (Option<usize>, Option<usize>)) -> Scenario {
    sc_x(name, cap, n_rx, threads, pb, false)
}
fn sc_x(name: &str, cap: usize, n_rx: u8, threads: Vec<BThread>, pb: (Option<usize>, Option<usize>), asyn: bool) -> Scenario {
    sc_m(name, cap, n_rx, threads, pb, asyn, 0)
}
fn sc_m(name: &str, cap: usize, n_rx: u8, threads: Vec<BThread>, pb: (Option<usize>, Option<usize>), asyn: bool, mix: u8) -> Scenario {
    let shape = format!("{}_cap{}", name, cap);
    Scenario {
        name: format!("spmc_broadcast/{}", shape),
        component: "spmc_broadcast".into(),
        shape,
        // C02 ("every channel") covers the broadcast flavour too: its order oracle is the per-receiver sequence check
        props: if mix != 0 { vec!["C07", "C02", "C05", "C06", "C09"] } else if asyn { vec!["C07", "C02", "C06", "C09"] } else { vec!["C07", "C02", "C05", "C09"] },
        threads: threads.len(),
        ops: threads.iter().map(|t| t.steps.len()).max().unwrap_or(0),
        cap: cap.to_string(),
        pb_quick: pb.0,
        pb_thorough: pb.1,
        body: Body::Bcast(BcastScen { cap, n_rx, threads, asyn, mix }),
    }
}

pub fn scenarios() -> Vec<Scenario> {
    let mut out = Vec::new();
    for s in base_scenarios() {
        let swapped = match &s.body {
            Body::Bcast(b) if b.threads.len() == 2 => {
                let mut b2 = b.clone();
                b2.threads.swap(0, 1);
                Some(Scenario { name: format!("{}@swap", s.name), body: Body::Bcast(b2), ..s.clone() })
            }
            _ => None,
        };
        out.push(s);
        if let Some(x) = swapped {
            out.push(x);
        }
    }
    out
}

fn base_scenarios() -> Vec<Scenario> {
    use BStep::*;
    let t2 = (Some(2), Some(4));
    let t3 = (Some(1), Some(2));
    vec![
        sc("1p1c_send2_drain", 1, 1, vec![bt(false, Some(0), vec![TryRecv, Drain]), bt(true, None, vec![Send(1), Send(2)])], t2),
        sc("1p1c_send3_drain", 2, 1, vec![bt(false, Some(0), vec![TryRecv, Drain]), bt(true, None, vec![Send(1), Send(2), Send(3)])], t2),
        sc("1p1c_try_send2_drain", 1, 1, vec![bt(false, Some(0), vec![Drain]), bt(true, None, vec![TrySend(1), TrySend(2)])], t2),
        sc("1p2c_send2_drain", 1, 2, vec![bt(true, None, vec![Send(1), Send(2)]), bt(false, Some(0), vec![Drain]), bt(false, Some(1), vec![Drain])], t3),
        sc("1p2c_send2_drain", 2, 2, vec![bt(true, None, vec![Send(1), Send(2)]), bt(false, Some(0), vec![Drain]), bt(false, Some(1), vec![Drain])], t3),
        // the only receiver goes away while the producer is parked on a full ring
        sc("rxdrop_vs_parked_producer", 1, 1, vec![bt(true, None, vec![Send(1), Send(2)]), bt(false, Some(0), vec![DropRx])], t2),
        sc("recv_rxdrop_vs_parked_producer", 1, 1, vec![bt(true, None, vec![Send(1), Send(2), Send(3)]), bt(false, Some(0), vec![Recv, DropRx])], t2),
        // one receiver keeps up, the other never reads and is dropped: the producer must get through
        sc("slow_rx_dropped_vs_parked_producer", 1, 2, vec![bt(true, None, vec![Send(1), Send(2)]), bt(false, Some(0), vec![Drain]), bt(false, Some(1), vec![DropRx])], t3),
        // clone by the owner of the parent while the producer sends
        sc("clone_vs_send2", 1, 1, vec![bt(true, None, vec![Send(1), Send(2)]), bt(false, Some(0), vec![TryRecv, CloneRx, DrainBothTry])], t2),
        sc("clone_vs_send2", 2, 1, vec![bt(true, None, vec![Send(1), Send(2)]), bt(false, Some(0), vec![TryRecv, CloneRx, DrainBothTry])], t2),
        // sender dropped while a receiver is parked
        sc("txdrop_vs_recv", 1, 1, vec![bt(false, Some(0), vec![TryRecv, Recv]), bt(true, None, vec![])], t2),
        // batch of two through capacity 1 (the producer parks mid-batch) and capacity 2
        sc("send_batch2_drain", 1, 1, vec![bt(false, Some(0), vec![TryRecv, Drain]), bt(true, None, vec![SendBatch(vec![1, 2])])], t2),
        sc("send_batch2_then_send_drain", 2, 1, vec![bt(false, Some(0), vec![Drain]), bt(true, None, vec![SendBatch(vec![1, 2]), Send(3)])], t2),
        // ---- async handles on the mini executor (producer waker = AtomicWaker, hook H5)
        sc_x("async_1p1c_send2_drain", 1, 1, vec![bt(false, Some(0), vec![TryRecv, Drain]), bt(true, None, vec![Send(1), Send(2)])], t2, true),
        sc_x("async_1p1c_send3_drain", 2, 1, vec![bt(false, Some(0), vec![Drain]), bt(true, None, vec![Send(1), Send(2), Send(3)])], t2, true),
        sc_x("async_1p2c_send2_drain", 1, 2, vec![bt(true, None, vec![Send(1), Send(2)]), bt(false, Some(0), vec![Drain]), bt(false, Some(1), vec![Drain])], t3, true),
        sc_x("async_rxdrop_vs_pending_producer", 1, 1, vec![bt(true, None, vec![Send(1), Send(2)]), bt(false, Some(0), vec![DropRx])], t2, true),
        sc_x("async_slow_rx_dropped_vs_pending_producer", 1, 2, vec![bt(true, None, vec![Send(1), Send(2)]), bt(false, Some(0), vec![Drain]), bt(false, Some(1), vec![DropRx])], t3, true),
        sc_x("async_recvfut_drop_vs_send", 1, 1, vec![bt(false, Some(0), vec![RecvPollDrop, Drain]), bt(true, None, vec![Send(1)])], t2, true),
        sc_x("async_txdrop_vs_recv", 1, 1, vec![bt(false, Some(0), vec![TryRecv, Recv]), bt(true, None, vec![])], t2, true),
        sc_x("async_send_batch2_drain", 1, 1, vec![bt(false, Some(0), vec![Drain]), bt(true, None, vec![SendBatch(vec![1, 2])])], t2, true),
        sc_x("async_clone_vs_send2", 1, 1, vec![bt(true, None, vec![Send(1), Send(2)]), bt(false, Some(0), vec![TryRecv, CloneRx, DrainBothTry])], t2, true),
        // ---- explicit close() instead of drop: a closed receiver releases the producer; a closed sender disconnects
        sc("rxclose_vs_parked_producer", 1, 1, vec![bt(true, None, vec![Send(1), Send(2)]), bt(false, Some(0), vec![CloseRx])], t2),
        sc("slow_rx_closed_vs_parked_producer", 1, 2, vec![bt(true, None, vec![Send(1), Send(2)]), bt(false, Some(0), vec![Drain]), bt(false, Some(1), vec![CloseRx])], t3),
        sc("txclose_vs_recv", 1, 1, vec![bt(false, Some(0), vec![TryRecv, Drain]), bt(true, None, vec![Send(1), CloseTx])], t2),
        sc_x("async_rxclose_vs_pending_producer", 1, 1, vec![bt(true, None, vec![Send(1), Send(2)]), bt(false, Some(0), vec![CloseRx])], t2, true),
        sc_x("async_txclose_vs_recv", 1, 1, vec![bt(false, Some(0), vec![TryRecv, Drain]), bt(true, None, vec![Send(1), CloseTx])], t2, true),
        // ---- batch receives
        sc("send2_vs_drain_batch2", 1, 1, vec![bt(false, Some(0), vec![DrainBatch(2)]), bt(true, None, vec![Send(1), Send(2)])], t2),
        sc("send3_vs_drain_batch2", 2, 1, vec![bt(false, Some(0), vec![TryRecv, DrainBatch(2)]), bt(true, None, vec![Send(1), Send(2), Send(3)])], t2),
        sc("send_batch2_vs_drain_batch2", 2, 1, vec![bt(false, Some(0), vec![DrainBatch(2)]), bt(true, None, vec![SendBatch(vec![1, 2]), Send(3)])], t2),
        sc_x("async_send2_vs_drain_batch2", 1, 1, vec![bt(false, Some(0), vec![DrainBatch(2)]), bt(true, None, vec![Send(1), Send(2)])], t2, true),
        // ---- the timed receive parks for real (hook H7) and must be woken by a send / by the sender going away
        sc("tlong_vs_send", 1, 1, vec![bt(false, Some(0), vec![TryRecv, RecvTLong, Drain]), bt(true, None, vec![Send(1)])], t2),
        sc("tlong_vs_txdrop", 1, 1, vec![bt(false, Some(0), vec![RecvTLong]), bt(true, None, vec![])], t2),
        // ---- sync and async handles mixed on one channel
        sc_m("mix_synctx_asyncrx_send2_drain", 1, 1, vec![bt(false, Some(0), vec![TryRecv, Drain]), bt(true, None, vec![Send(1), Send(2)])], t2, false, 1),
        sc_m("mix_asynctx_syncrx_send2_drain", 1, 1, vec![bt(false, Some(0), vec![TryRecv, Drain]), bt(true, None, vec![Send(1), Send(2)])], t2, false, 2),
        sc_m("mix_synctx_asyncrx_rxdrop_vs_parked_producer", 1, 1, vec![bt(true, None, vec![Send(1), Send(2)]), bt(false, Some(0), vec![DropRx])], t2, false, 1),
        sc_m("mix_asynctx_syncrx_rxdrop_vs_pending_producer", 1, 1, vec![bt(true, None, vec![Send(1), Send(2)]), bt(false, Some(0), vec![DropRx])], t2, false, 2),
        sc_m("mix_synctx_asyncrx_1p2c_send2_drain", 1, 2, vec![bt(true, None, vec![Send(1), Send(2)]), bt(false, Some(0), vec![Drain]), bt(false, Some(1), vec![Drain])], t3, false, 1),
    ]
}
