//! Broadcast SPMC scenarios (C07).
use crate::scen::Scenario;

#[derive(Clone, Debug)]
pub struct BcastScen {}

pub fn run_once(_b: &BcastScen) {}

pub fn scenarios() -> Vec<Scenario> {
    Vec::new()
}
