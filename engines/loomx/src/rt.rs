//! Per-execution bookkeeping kept in plain `std` memory: event log, drop ledger, result vectors,
//! per-scenario statistics, and the panic hook that turns the first panic of a child process into
//! a verdict line on stdout (loom may abort the process on a double panic afterwards).
//!
//! loom runs every modelled thread as a coroutine on ONE OS thread and switches only at loom
//! operations, so (a) a `std::sync::Mutex` taken and released between two loom operations is never
//! contended and has no scheduling effect, (b) the order of the log is the real-time order of the
//! execution.
use serde::{Deserialize, Serialize};
use std::collections::BTreeSet;
use std::sync::Mutex;

pub type Id = u32;

#[derive(Clone, Debug, PartialEq, Eq, Hash, Serialize, Deserialize)]
pub enum Op {
    // channel senders
    Send(Id),
    TrySend(Id),
    SendBatch(Vec<Id>),
    TrySendBatch(Vec<Id>),
    SendAsync(Id),
    DropTx,
    // channel receivers
    Recv,
    TryRecv,
    RecvT0,
    RecvAsync,
    /// async recv future polled once, then dropped
    RecvPollDrop,
    /// blocking / awaited recv_batch(max)
    RecvBatch(usize),
    TryRecvBatch(usize),
    /// recv_timeout(1 h): parks like recv (hook H7), never times out inside a model run
    RecvTLong,
    CloseTx,
    CloseRx,
    CloneRx,
    DropRx,
    // locks
    Lock,
    LockAsync,
    /// lock future polled once (kept if Pending)
    LockPoll,
    /// pending lock future dropped
    LockFutDrop,
    TryLock,
    Unlock,
    Read,
    ReadAsync,
    ReadPoll,
    TryRead,
    Write,
    WriteAsync,
    WritePoll,
    TryWrite,
    /// block on a lock future that was polled before
    FutAwait,
    /// access to the protected cell under the held guard
    Touch,
    Join,
}

#[derive(Clone, Debug, PartialEq, Eq, Hash, Serialize, Deserialize)]
pub enum Res {
    Ok,
    /// try_send handed the value back: Full(id)
    Full(Id),
    /// Closed with the id handed back (None: the error type cannot carry it)
    Closed(Option<Id>),
    /// oneshot: "a value was already sent" with the id handed back
    Sent(Id),
    BatchOk(usize),
    BatchErr { sent: usize, unsent: Vec<Id> },
    /// try_send_batch stopped early: Full (true) or Closed (false)
    TryBatchErr { sent: usize, unsent: Vec<Id>, full: bool },
    Val(Id),
    /// batch receive
    Vals(Vec<Id>),
    /// close() on a handle that was closed before
    CloseErr,
    Empty,
    Disc,
    Timeout,
    Pending,
    /// try_* on a lock
    Acquired(bool),
    /// value read under a read guard / written under a write guard
    Num(u32),
}

#[derive(Clone, Debug, Serialize, Deserialize, PartialEq, Eq)]
pub struct Ev {
    /// thread index (0 = the model's main thread)
    pub t: u8,
    /// handle index on its side (S0,S1 / R0,R1 / lock 0)
    pub h: u8,
    pub op: Op,
    /// None = Call, Some = Return with that result
    pub ret: Option<Res>,
}

impl Ev {
    pub fn short(&self) -> String {
        match &self.ret {
            None => format!("T{} h{} {:?} call", self.t, self.h, self.op),
            Some(r) => format!("T{} h{} {:?} -> {:?}", self.t, self.h, self.op, r),
        }
    }
}

#[derive(Default)]
pub struct Exec {
    pub log: Vec<Ev>,
    /// per id: (created, dropped)
    pub ledger: Vec<(u32, u32)>,
    /// per thread: results that make up the observable outcome
    pub results: Vec<Vec<Res>>,
}

#[derive(Default)]
pub struct Stats {
    pub executions: u64,
    pub transitions: u64,
    pub nontrivial: u64,
    pub outcomes: BTreeSet<u64>,
    pub samples: Vec<Vec<Ev>>,
    pub sample_nontrivial_taken: bool,
    pub capped: Option<String>,
}

pub static EXEC: Mutex<Exec> = Mutex::new(Exec { log: Vec::new(), ledger: Vec::new(), results: Vec::new() });
pub static STATS: Mutex<Option<Stats>> = Mutex::new(None);

fn lock<T>(m: &Mutex<T>) -> std::sync::MutexGuard<'_, T> {
    m.lock().unwrap_or_else(|e| e.into_inner())
}

pub fn exec_reset() {
    let mut e = lock(&EXEC);
    e.log.clear();
    e.ledger.clear();
    e.results.clear();
}

pub fn log_call(t: u8, h: u8, op: &Op) {
    lock(&EXEC).log.push(Ev { t, h, op: op.clone(), ret: None });
}
pub fn log_ret(t: u8, h: u8, op: &Op, res: Res, outcome: bool) {
    let mut e = lock(&EXEC);
    if outcome {
        let ti = t as usize;
        if e.results.len() <= ti {
            e.results.resize(ti + 1, Vec::new());
        }
        e.results[ti].push(res.clone());
    }
    e.log.push(Ev { t, h, op: op.clone(), ret: Some(res) });
}
pub fn log_snapshot() -> Vec<Ev> {
    lock(&EXEC).log.clone()
}
pub fn ledger_snapshot() -> Vec<(u32, u32)> {
    lock(&EXEC).ledger.clone()
}
pub fn results_snapshot() -> Vec<Vec<Res>> {
    lock(&EXEC).results.clone()
}

fn ledger_bump(id: Id, created: bool) {
    let mut e = lock(&EXEC);
    let i = id as usize;
    if e.ledger.len() <= i {
        e.ledger.resize(i + 1, (0, 0));
    }
    if created {
        e.ledger[i].0 += 1;
    } else {
        e.ledger[i].1 += 1;
    }
}

/// Drop-tracked payload with a loom cell: written by the sender before the send, read by the
/// receiver after the receive — a missing release/acquire edge in the channel makes loom report a
/// causality violation on this cell.
pub struct P {
    pub id: Id,
    cell: loom::cell::UnsafeCell<u32>,
}
unsafe impl Send for P {}
unsafe impl Sync for P {}

impl P {
    pub fn new(id: Id) -> P {
        ledger_bump(id, true);
        let p = P { id, cell: loom::cell::UnsafeCell::new(0) };
        p.cell.with_mut(|c| unsafe { *c = id });
        p
    }
    /// read the cell (receiver side) and give the id; the payload is dropped here
    pub fn open(self) -> Id {
        let v = self.cell.with(|c| unsafe { *c });
        if v != self.id {
            oracle_fail("C01", "payload_corrupt", "recv", &format!("payload {} carries cell value {}", self.id, v));
        }
        self.id
    }
}
impl Clone for P {
    fn clone(&self) -> P {
        // a "slow clone": the broadcast channel clones the value out of its slot, and whatever the channel
        // does between granting access to the slot and the end of the clone is a window another thread can use
        loom::thread::yield_now();
        let v = self.cell.with(|c| unsafe { *c });
        ledger_bump(self.id, true);
        let p = P { id: self.id, cell: loom::cell::UnsafeCell::new(0) };
        p.cell.with_mut(|c| unsafe { *c = v });
        p
    }
}
impl Drop for P {
    fn drop(&mut self) {
        ledger_bump(self.id, false);
    }
}
impl std::fmt::Debug for P {
    fn fmt(&self, f: &mut std::fmt::Formatter<'_>) -> std::fmt::Result {
        write!(f, "#{}", self.id)
    }
}

/// Structured oracle failure: `ORACLE|<property>|<rule>|<op>|<detail>`
pub fn oracle_fail(property: &str, rule: &str, op: &str, detail: &str) -> ! {
    panic!("ORACLE|{}|{}|{}|{}", property, rule, op, detail);
}

// ------------------------------------------------------------------ statistics

pub fn stats_init() {
    *lock(&STATS) = Some(Stats::default());
}
pub fn stats_take() -> Stats {
    lock(&STATS).take().unwrap_or_default()
}
pub fn executions_so_far() -> u64 {
    lock(&STATS).as_ref().map(|s| s.executions).unwrap_or(0)
}
pub fn begin_execution() -> u64 {
    exec_reset();
    // hook H10: shadow loom cells of the channels' payload slots belong to one loom execution
    fibre::verif_shadow_reset();
    let mut s = lock(&STATS);
    let s = s.as_mut().expect("stats");
    s.executions += 1;
    s.executions
}

/// two threads' operations overlap: a Call of one thread lies between Call and Return of another
pub fn log_overlaps(log: &[Ev]) -> bool {
    let mut open: Vec<u8> = Vec::new();
    for e in log {
        if matches!(e.op, Op::Join) {
            continue;
        }
        match e.ret {
            None => {
                if open.iter().any(|&t| t != e.t) {
                    return true;
                }
                open.push(e.t);
            }
            Some(_) => {
                if let Some(p) = open.iter().position(|&t| t == e.t) {
                    open.remove(p);
                }
            }
        }
    }
    false
}

pub fn end_execution() {
    let (log, results) = {
        let e = lock(&EXEC);
        (e.log.clone(), e.results.clone())
    };
    let nontrivial = log_overlaps(&log);
    let h = vcommon::fnv(serde_json::to_string(&results).unwrap().as_bytes());
    let mut s = lock(&STATS);
    let s = s.as_mut().expect("stats");
    s.transitions += log.len() as u64;
    if nontrivial {
        s.nontrivial += 1;
    }
    s.outcomes.insert(h);
    if s.samples.is_empty() {
        s.samples.push(log);
    } else if nontrivial && !s.sample_nontrivial_taken {
        s.sample_nontrivial_taken = true;
        s.samples.push(log);
    }
}

// ------------------------------------------------------------------ panic capture

#[derive(Serialize, Deserialize, Clone, Debug)]
pub struct PanicInfo {
    pub message: String,
    pub iteration: u64,
    pub log: Vec<Ev>,
}

static FIRST_PANIC: Mutex<Option<PanicInfo>> = Mutex::new(None);

pub fn first_panic() -> Option<PanicInfo> {
    lock(&FIRST_PANIC).clone()
}

/// Install a hook that records the FIRST panic (message, iteration, event log so far) and prints it
/// as a `PANIC <json>` line on stdout at once, so the parent has it even if unwinding through loom
/// objects later aborts the process.
pub fn install_panic_hook() {
    std::panic::set_hook(Box::new(|info| {
        let msg = if let Some(s) = info.payload().downcast_ref::<&str>() {
            s.to_string()
        } else if let Some(s) = info.payload().downcast_ref::<String>() {
            s.clone()
        } else {
            "<non-string panic>".to_string()
        };
        let loc = info.location().map(|l| format!("{}:{}", l.file(), l.line())).unwrap_or_default();
        let mut fp = lock(&FIRST_PANIC);
        if fp.is_none() {
            let iteration = STATS.try_lock().ok().and_then(|s| s.as_ref().map(|s| s.executions)).unwrap_or(0);
            let log = EXEC.try_lock().map(|e| e.log.clone()).unwrap_or_default();
            let pi = PanicInfo { message: format!("{} @ {}", msg, loc), iteration, log };
            use std::io::Write;
            let out = std::io::stdout();
            let mut out = out.lock();
            let _ = writeln!(out, "PANIC {}", serde_json::to_string(&pi).unwrap());
            let _ = out.flush();
            *fp = Some(pi);
        } else {
            eprintln!("[loomx] secondary panic: {} @ {}", msg.lines().next().unwrap_or(""), loc);
        }
    }));
}
