//! `lockx`: exhaustive single-thread histories on `fibre::sync::{HybridMutex, HybridRwLock}`
//! (E2 for C10): try_* / uncontended blocking acquisitions, lock futures created-and-polled,
//! re-polled, dropped at every point, guards released in every order. Every history is rebuilt
//! on a fresh real lock (history = state, no merging). Oracles after every step and at the end
//! of every history:
//!   * mutual exclusion: a mutex / write guard never coexists with another guard;
//!   * the value seen under a guard is the one the last writer left;
//!   * writer gate: while a write future is queued no *new* reader is admitted;
//!   * idle-stall probe: when the lock is fully released (no guard alive) and no pending future
//!     has been woken since its last poll (an executor that polls only woken tasks is idle),
//!     polling a pending future must not acquire — if it does, the wake it was owed was lost
//!     (lock released / predecessor cancelled without passing the wake on) and nothing is left
//!     that could still deliver it.
//!
//!   lockx run --tier quick|thorough --out report.json [--props C10] [--jobs N]
//!   lockx replay <replay.json>
use fibre::sync::{HybridMutex, HybridRwLock, MutexGuard, ReadGuard, WriteGuard};
use serde::{Deserialize, Serialize};
use std::collections::{BTreeMap, BTreeSet};
use std::future::Future;
use std::panic::{catch_unwind, AssertUnwindSafe};
use std::pin::Pin;
use std::sync::atomic::{AtomicUsize, Ordering};
use std::sync::{Arc, Mutex};
use std::task::{Context, Poll, Wake, Waker};
use std::time::Instant;
use vcommon::{Report, Scenario, Violation};

#[derive(Clone, Copy, Debug, Serialize, Deserialize, PartialEq, Eq, PartialOrd, Ord)]
enum Kind {
    Mutex,
    RwLock,
}
#[derive(Clone, Copy, Debug, Serialize, Deserialize, PartialEq, Eq, PartialOrd, Ord)]
enum Act {
    /// try_lock / try_write
    TryX,
    /// try_read (rwlock only)
    TryS,
    /// blocking lock()/write() — issued only when nothing is held or queued (cannot wait)
    SyncX,
    /// blocking read() — same restriction
    SyncS,
    /// lock_async()/write_async() created and polled once
    NewX,
    /// read_async() created and polled once
    NewS,
    /// re-poll pending future i (fresh waker)
    Poll(usize),
    /// drop pending future i
    DropFut(usize),
    /// drop live guard j
    DropGuard(usize),
}

enum Lk {
    M(HybridMutex<u32>),
    R(HybridRwLock<u32>),
}
enum G {
    M(MutexGuard<'static, u32>),
    R(ReadGuard<'static, u32>),
    W(WriteGuard<'static, u32>),
}
impl G {
    fn exclusive(&self) -> bool {
        !matches!(self, G::R(_))
    }
}
struct Cnt(AtomicUsize);
impl Wake for Cnt {
    fn wake(self: Arc<Self>) {
        self.0.fetch_add(1, Ordering::SeqCst);
    }
    fn wake_by_ref(self: &Arc<Self>) {
        self.0.fetch_add(1, Ordering::SeqCst);
    }
}
/// a fresh `Waker` object on every poll, all of them counting into the future's one task counter
struct Fresh(Arc<Cnt>);
impl Wake for Fresh {
    fn wake(self: Arc<Self>) {
        self.0 .0.fetch_add(1, Ordering::SeqCst);
    }
    fn wake_by_ref(self: &Arc<Self>) {
        self.0 .0.fetch_add(1, Ordering::SeqCst);
    }
}
struct FutSlot {
    fut: Pin<Box<dyn Future<Output = G>>>,
    exclusive: bool,
    wakes: Arc<Cnt>,
    /// creation order (for the writer-gate rule)
    seq: usize,
}
const MAX_FUTS: usize = 3;
const MAX_GUARDS: usize = 3;

struct World {
    // declaration order = drop order: futures and guards go before the lock they borrow
    futs: Vec<Option<FutSlot>>,
    guards: Vec<Option<G>>,
    lock: Box<Lk>,
    kind: Kind,
    /// value the protected cell must hold
    expect: u32,
    seq: usize,
}

#[derive(Debug, Clone)]
struct Fail {
    rule: &'static str,
    op: &'static str,
    msg: String,
}

impl World {
    fn new(kind: Kind) -> World {
        let lock = Box::new(match kind {
            Kind::Mutex => Lk::M(HybridMutex::new(0)),
            Kind::RwLock => Lk::R(HybridRwLock::new(0)),
        });
        World { futs: vec![], guards: vec![], lock, kind, expect: 0, seq: 0 }
    }
    fn lk(&self) -> &'static Lk {
        // SAFETY: the box outlives every guard and future (field order + explicit teardown in `finish`)
        unsafe { &*(&*self.lock as *const Lk) }
    }
    fn live_guards(&self) -> usize {
        self.guards.iter().filter(|g| g.is_some()).count()
    }
    fn pending(&self) -> usize {
        self.futs.iter().filter(|f| f.is_some()).count()
    }
    fn enabled(&self) -> Vec<Act> {
        let mut v = vec![];
        let room = self.live_guards() < MAX_GUARDS;
        if room {
            v.push(Act::TryX);
            if self.kind == Kind::RwLock {
                v.push(Act::TryS);
            }
            if self.live_guards() == 0 && self.pending() == 0 {
                v.push(Act::SyncX);
                if self.kind == Kind::RwLock {
                    v.push(Act::SyncS);
                }
            }
            if self.pending() < MAX_FUTS {
                v.push(Act::NewX);
                if self.kind == Kind::RwLock {
                    v.push(Act::NewS);
                }
            }
            for (i, f) in self.futs.iter().enumerate() {
                if f.is_some() {
                    v.push(Act::Poll(i));
                }
            }
        }
        for (i, f) in self.futs.iter().enumerate() {
            if f.is_some() {
                v.push(Act::DropFut(i));
            }
        }
        for (j, g) in self.guards.iter().enumerate() {
            if g.is_some() {
                v.push(Act::DropGuard(j));
            }
        }
        v
    }
    /// a queued write future that was created before `than` (usize::MAX: any)
    fn writer_queued_before(&self, than: usize) -> bool {
        self.kind == Kind::RwLock && self.futs.iter().flatten().any(|f| f.exclusive && f.seq < than)
    }
    fn admit(&mut self, g: G, op: &'static str, new_reader: bool, seq_of_acquirer: usize) -> Result<(), Fail> {
        // mutual exclusion against the guards that are alive right now
        let others_excl = self.guards.iter().flatten().any(|x| x.exclusive());
        let others = self.live_guards();
        if others_excl || (g.exclusive() && others > 0) {
            let msg = format!("{} acquired {} while {} other guard(s) were alive (exclusive among them: {})", op, if g.exclusive() { "exclusively" } else { "shared" }, others, others_excl);
            self.guards.push(Some(g));
            return Err(Fail { rule: "mutual_exclusion", op, msg });
        }
        if new_reader && !g.exclusive() && self.writer_queued_before(seq_of_acquirer) {
            self.guards.push(Some(g));
            return Err(Fail { rule: "writer_gate", op, msg: format!("{} admitted a new reader although a write future is queued (a queued writer must not be overtaken by readers that arrive later)", op) });
        }
        // data: readers see the last written value, writers bump it
        let mut g = g;
        let seen = match &mut g {
            G::M(x) => {
                let v = **x;
                **x += 1;
                v
            }
            G::W(x) => {
                let v = **x;
                **x += 1;
                v
            }
            G::R(x) => **x,
        };
        if seen != self.expect {
            self.guards.push(Some(g));
            return Err(Fail { rule: "stale_value_under_guard", op, msg: format!("{} saw {} under its guard, the last writer left {}", op, seen, self.expect) });
        }
        if g.exclusive() {
            self.expect += 1;
        }
        self.guards.push(Some(g));
        Ok(())
    }
    fn poll_slot(&mut self, i: usize) -> Poll<G> {
        let slot = self.futs[i].as_mut().unwrap();
        slot.wakes.0.store(0, Ordering::SeqCst);
        let w = Waker::from(Arc::new(Fresh(slot.wakes.clone())));
        let mut cx = Context::from_waker(&w);
        slot.fut.as_mut().poll(&mut cx)
    }
    fn apply(&mut self, a: Act) -> Result<(), Fail> {
        let lk = self.lk();
        match a {
            Act::TryX => {
                let g = match lk {
                    Lk::M(m) => m.try_lock().map(G::M),
                    Lk::R(r) => r.try_write().map(G::W),
                };
                if let Some(g) = g {
                    self.admit(g, "try_lock/try_write", false, usize::MAX)?;
                }
                Ok(())
            }
            Act::TryS => {
                let g = match lk {
                    Lk::R(r) => r.try_read().map(G::R),
                    Lk::M(_) => unreachable!(),
                };
                if let Some(g) = g {
                    self.admit(g, "try_read", true, usize::MAX)?;
                }
                Ok(())
            }
            Act::SyncX => {
                let g = match lk {
                    Lk::M(m) => G::M(m.lock()),
                    Lk::R(r) => G::W(r.write()),
                };
                self.admit(g, "lock/write", false, usize::MAX)
            }
            Act::SyncS => {
                let g = match lk {
                    Lk::R(r) => G::R(r.read()),
                    Lk::M(_) => unreachable!(),
                };
                self.admit(g, "read", true, usize::MAX)
            }
            Act::NewX | Act::NewS => {
                let exclusive = a == Act::NewX;
                let fut: Pin<Box<dyn Future<Output = G>>> = match (lk, exclusive) {
                    (Lk::M(m), _) => Box::pin(async move { G::M(m.lock_async().await) }),
                    (Lk::R(r), true) => Box::pin(async move { G::W(r.write_async().await) }),
                    (Lk::R(r), false) => Box::pin(async move { G::R(r.read_async().await) }),
                };
                self.seq += 1;
                let seq = self.seq;
                let slot = FutSlot { fut, exclusive, wakes: Arc::new(Cnt(AtomicUsize::new(0))), seq };
                let i = match self.futs.iter().position(|f| f.is_none()) {
                    Some(i) => {
                        self.futs[i] = Some(slot);
                        i
                    }
                    None => {
                        self.futs.push(Some(slot));
                        self.futs.len() - 1
                    }
                };
                match self.poll_slot(i) {
                    Poll::Ready(g) => {
                        self.futs[i] = None;
                        self.admit(g, if exclusive { "lock_async/write_async (first poll)" } else { "read_async (first poll)" }, true, seq)
                    }
                    Poll::Pending => Ok(()),
                }
            }
            Act::Poll(i) => {
                let (exclusive, seq) = {
                    let s = self.futs[i].as_ref().unwrap();
                    (s.exclusive, s.seq)
                };
                match self.poll_slot(i) {
                    Poll::Ready(g) => {
                        self.futs[i] = None;
                        // a reader that was queued before the writer arrived is not a "new" reader
                        self.admit(g, if exclusive { "lock/write future re-polled" } else { "read future re-polled" }, true, seq)
                    }
                    Poll::Pending => Ok(()),
                }
            }
            Act::DropFut(i) => {
                let s = self.futs[i].take();
                drop(s);
                Ok(())
            }
            Act::DropGuard(j) => {
                let g = self.guards[j].take();
                drop(g);
                Ok(())
            }
        }
    }
    /// idle-stall probe (consumes the world's state; call at the end of a history only)
    fn probe(&mut self) -> Result<(), Fail> {
        let runnable = self.futs.iter().flatten().any(|f| f.wakes.0.load(Ordering::SeqCst) > 0);
        // With a guard still alive a later release may deliver the wake (the property promises acquisition
        // "after the lock is released", not at the earliest possible moment): only a fully released lock with
        // nobody runnable is a state in which a pending future that could acquire has been stranded for good.
        if runnable || self.live_guards() > 0 {
            return Ok(());
        }
        for i in 0..self.futs.len() {
            if self.futs[i].is_none() || self.live_guards() >= MAX_GUARDS + 1 {
                continue;
            }
            let exclusive = self.futs[i].as_ref().unwrap().exclusive;
            if let Poll::Ready(g) = self.poll_slot(i) {
                self.futs[i] = None;
                self.guards.push(Some(g));
                return Err(Fail {
                    rule: "lost_wakeup",
                    op: if exclusive { "lock/write future" } else { "read future" },
                    msg: format!(
                        "no pending future had been woken since its last poll (an executor that polls only woken tasks is idle), yet polling the pending {} future acquired the lock: the wake it was owed was lost",
                        if exclusive { "lock/write" } else { "read" }
                    ),
                });
            }
        }
        Ok(())
    }
    fn finish(mut self) {
        self.futs.clear();
        self.guards.clear();
    }
}

fn witness(h: &[Act]) -> String {
    h.iter()
        .map(|a| match a {
            Act::TryX => "tx".to_string(),
            Act::TryS => "ts".to_string(),
            Act::SyncX => "X".to_string(),
            Act::SyncS => "S".to_string(),
            Act::NewX => "fx".to_string(),
            Act::NewS => "fs".to_string(),
            Act::Poll(i) => format!("p{}", i),
            Act::DropFut(i) => format!("d{}", i),
            Act::DropGuard(j) => format!("u{}", j),
        })
        .collect::<Vec<_>>()
        .join(",")
}

/// run a history on a fresh lock; Ok(enabled actions afterwards) or the failure (with the index of the failing step,
/// `h.len()` for the end-of-history probe)
fn run_history(kind: Kind, h: &[Act], with_probe: bool) -> Result<Vec<Act>, (usize, Fail)> {
    let r = catch_unwind(AssertUnwindSafe(|| {
        let mut w = World::new(kind);
        for (k, a) in h.iter().enumerate() {
            if let Err(f) = w.apply(*a) {
                w.finish();
                return Err((k, f));
            }
        }
        let en = w.enabled();
        if with_probe {
            if let Err(f) = w.probe() {
                w.finish();
                return Err((h.len(), f));
            }
        }
        w.finish();
        Ok(en)
    }));
    match r {
        Ok(x) => x,
        Err(p) => {
            let m = p.downcast_ref::<String>().cloned().or_else(|| p.downcast_ref::<&str>().map(|s| s.to_string())).unwrap_or("panic".into());
            Err((h.len(), Fail { rule: "panic", op: "any", msg: format!("panicked: {}", m) }))
        }
    }
}

#[derive(Default)]
struct Acc {
    nodes: u64,
    steps: u64,
    nontrivial: u64,
    outcomes: BTreeSet<u64>,
    fails: BTreeMap<(String, String), (Fail, Vec<Act>)>,
    sample: Option<String>,
}

fn dfs(kind: Kind, depth: usize, h: &mut Vec<Act>, acc: &mut Acc) {
    acc.nodes += 1;
    acc.steps += h.len() as u64 + 1;
    match run_history(kind, h, true) {
        Err((_k, f)) => {
            let key = (f.rule.to_string(), f.op.to_string());
            let better = match acc.fails.get(&key) {
                Some((_, old)) => h.len() < old.len(),
                None => true,
            };
            if better {
                acc.fails.insert(key, (f, h.clone()));
            }
        }
        Ok(en) => {
            // non-trivial: at least one future went pending and at least one guard was released
            let pend = h.iter().any(|a| matches!(a, Act::Poll(_) | Act::DropFut(_)));
            let rel = h.iter().any(|a| matches!(a, Act::DropGuard(_)));
            if pend && rel {
                acc.nontrivial += 1;
                if acc.sample.is_none() && h.len() == depth {
                    acc.sample = Some(witness(h));
                }
            }
            acc.outcomes.insert(vcommon::fnv(format!("{:?}", en).as_bytes()));
            if h.len() < depth {
                for a in en {
                    h.push(a);
                    dfs(kind, depth, h, acc);
                    h.pop();
                }
            }
        }
    }
}

fn run_kind(kind: Kind, depth: usize, jobs: usize) -> (Scenario, Vec<Violation>) {
    let t0 = Instant::now();
    // shard on the first SHARD_DEPTH actions (complete histories shorter than that are their own shard)
    const SHARD_DEPTH: usize = 4;
    let mut prefixes: Vec<Vec<Act>> = vec![];
    let mut inner_nodes = 0u64;
    fn expand(kind: Kind, h: &mut Vec<Act>, out: &mut Vec<Vec<Act>>, inner: &mut u64, limit: usize) {
        if h.len() == limit {
            out.push(h.clone());
            return;
        }
        match run_history(kind, h, false) {
            Ok(en) => {
                *inner += 1;
                for a in en {
                    h.push(a);
                    expand(kind, h, out, inner, limit);
                    h.pop();
                }
            }
            // a failing prefix is explored (and reported) by the shard that owns it
            Err(_) => out.push(h.clone()),
        }
    }
    expand(kind, &mut vec![], &mut prefixes, &mut inner_nodes, SHARD_DEPTH.min(depth));
    let queue = Arc::new(Mutex::new(prefixes.into_iter().enumerate().rev().collect::<Vec<_>>()));
    let results: Arc<Mutex<Vec<(usize, Acc)>>> = Arc::new(Mutex::new(vec![]));
    let mut hs = vec![];
    for _ in 0..jobs {
        let q = queue.clone();
        let res = results.clone();
        hs.push(std::thread::spawn(move || loop {
            let p = { q.lock().unwrap().pop() };
            let Some((idx, p)) = p else { break };
            let mut acc = Acc::default();
            let mut h = p.clone();
            if h.len() <= depth {
                dfs(kind, depth, &mut h, &mut acc);
            }
            res.lock().unwrap().push((idx, acc));
        }));
    }
    for h in hs {
        let _ = h.join();
    }
    let mut parts = std::mem::take(&mut *results.lock().unwrap());
    parts.sort_by_key(|p| p.0);
    let mut tot = Acc::default();
    // the nodes above the shard roots
    tot.nodes += inner_nodes;
    for (_, a) in parts {
        tot.nodes += a.nodes;
        tot.steps += a.steps;
        tot.nontrivial += a.nontrivial;
        tot.outcomes.extend(a.outcomes);
        if tot.sample.is_none() {
            tot.sample = a.sample;
        }
        for (k, (f, h)) in a.fails {
            // shards are merged in enumeration order: a strictly shorter witness wins, ties keep the earlier shard
            let better = match tot.fails.get(&k) {
                Some((_, old)) => h.len() < old.len(),
                None => true,
            };
            if better {
                tot.fails.insert(k, (f, h));
            }
        }
    }
    let kname = match kind {
        Kind::Mutex => "hybrid_mutex",
        Kind::RwLock => "hybrid_rwlock",
    };
    let mut viol = vec![];
    for ((rule, op), (f, h)) in &tot.fails {
        // same history once more from scratch: identical verdict required
        let again = run_history(kind, h, true);
        let stable = matches!(&again, Err((_, g)) if g.rule == f.rule && g.op == f.op);
        viol.push(Violation {
            property: "C10".into(),
            fingerprint: format!("lockx/{}/C10.{}/{}@{}{}", kname, rule, op, witness(h), if stable { "" } else { "#UNSTABLE" }),
            message: format!("{} | history: {}", f.msg, witness(h)),
            scenario: format!("{}/d{}", kname, depth),
            replay: serde_json::json!({"kind": kind, "history": h}),
        });
    }
    let mut bound = BTreeMap::new();
    bound.insert("depth".to_string(), serde_json::json!(depth));
    bound.insert("max_pending_futures".to_string(), serde_json::json!(MAX_FUTS));
    bound.insert("max_live_guards".to_string(), serde_json::json!(MAX_GUARDS));
    bound.insert(
        "alphabet".to_string(),
        serde_json::json!("try_lock/try_write, try_read, uncontended lock/read/write, lock_async/write_async/read_async (created and polled once), re-poll (fresh waker), drop future, drop guard"),
    );
    let sc = Scenario {
        name: format!("{}/d{}", kname, depth),
        properties: vec!["C10".into()],
        executions: tot.nodes,
        states: tot.nodes,
        transitions: tot.steps,
        distinct_outcomes: tot.outcomes.len() as u64,
        nontrivial: tot.nontrivial,
        nontrivial_rule: "history in which a future went pending and was re-polled or dropped, and a guard was released".into(),
        exhaustive: true,
        caps: vec![],
        bound,
        samples: tot.sample.iter().map(|s| serde_json::json!({"history": s})).collect(),
        wall_s: t0.elapsed().as_secs_f64(),
    };
    (sc, viol)
}

fn main() {
    let args: Vec<String> = std::env::args().collect();
    std::panic::set_hook(Box::new(|_| {}));
    match args.get(1).map(|s| s.as_str()) {
        Some("run") => {
            let mut tier = "quick".to_string();
            let mut out = "report.json".to_string();
            let mut jobs = 16usize;
            let mut depth_override: Option<usize> = None;
            let mut i = 2;
            while i < args.len() {
                match args[i].as_str() {
                    "--tier" => { tier = args[i + 1].clone(); i += 1; }
                    "--out" => { out = args[i + 1].clone(); i += 1; }
                    "--jobs" => { jobs = args[i + 1].parse().unwrap(); i += 1; }
                    "--depth" => { depth_override = args[i + 1].parse().ok(); i += 1; }
                    "--props" => { i += 1; }
                    _ => {}
                }
                i += 1;
            }
            let mut rep = Report::new("lockx", &tier);
            for (kind, dq, dt) in [(Kind::Mutex, 10, 12), (Kind::RwLock, 8, 10)] {
                let depth = depth_override.unwrap_or(if tier == "quick" { dq } else { dt });
                let (sc, vs) = run_kind(kind, depth, jobs);
                eprintln!("[lockx] {} histories={} nontrivial={} fingerprints={} {:.1}s", sc.name, sc.executions, sc.nontrivial, vs.len(), sc.wall_s);
                rep.scenarios.push(sc);
                for v in vs {
                    rep.push_violation(v);
                }
            }
            rep.violations.sort_by(|a, b| a.fingerprint.cmp(&b.fingerprint));
            rep.write(&out);
            std::process::exit(0);
        }
        Some("replay") => {
            let v: serde_json::Value = serde_json::from_str(&std::fs::read_to_string(&args[2]).unwrap()).unwrap();
            let r = if v.get("replay").is_some() { &v["replay"] } else { &v };
            let kind: Kind = serde_json::from_value(r["kind"].clone()).unwrap();
            let h: Vec<Act> = serde_json::from_value(r["history"].clone()).unwrap();
            println!("replaying {:?}: {}", kind, witness(&h));
            match run_history(kind, &h, true) {
                Ok(_) => {
                    println!("no violation");
                    std::process::exit(0)
                }
                Err((k, f)) => {
                    println!("step {} ({}): {} — {}", k, if k < h.len() { format!("{:?}", h[k]) } else { "end-of-history probe".into() }, f.rule, f.msg);
                    std::process::exit(1)
                }
            }
        }
        _ => {
            eprintln!("usage: lockx run --tier quick|thorough --out FILE | lockx replay FILE");
            std::process::exit(2)
        }
    }
}
