//! Result contract shared by every engine under /verif/engines (see engines/CONTRACT.md).
use serde::{Deserialize, Serialize};
use std::collections::BTreeMap;
use std::time::Instant;

#[derive(Serialize, Deserialize, Clone, Debug, Default)]
pub struct Violation {
    /// property the violated oracle rule belongs to, e.g. "C04"
    pub property: String,
    /// stable identifier of the failing call site / rule; never contains run-dependent data
    pub fingerprint: String,
    pub message: String,
    pub scenario: String,
    /// enough to re-execute the failing history/schedule without the explorer
    pub replay: serde_json::Value,
}

#[derive(Serialize, Deserialize, Clone, Debug, Default)]
pub struct Scenario {
    pub name: String,
    /// properties whose oracles were evaluated in this scenario
    pub properties: Vec<String>,
    /// complete executions (histories / schedules run to their end)
    pub executions: u64,
    /// distinct states visited (history prefixes for stateless exploration)
    pub states: u64,
    /// actions / scheduling decisions applied
    pub transitions: u64,
    /// number of distinct observable outcomes (result vectors) seen
    pub distinct_outcomes: u64,
    /// executions that were non-trivial for the properties (rule in `nontrivial_rule`)
    pub nontrivial: u64,
    pub nontrivial_rule: String,
    pub exhaustive: bool,
    /// caps that were hit (empty when exhaustive)
    pub caps: Vec<String>,
    pub bound: BTreeMap<String, serde_json::Value>,
    pub samples: Vec<serde_json::Value>,
    pub wall_s: f64,
}

#[derive(Serialize, Deserialize, Clone, Debug, Default)]
pub struct Report {
    pub engine: String,
    pub tier: String,
    pub scenarios: Vec<Scenario>,
    pub violations: Vec<Violation>,
}

impl Report {
    pub fn new(engine: &str, tier: &str) -> Self {
        Report { engine: engine.into(), tier: tier.into(), ..Default::default() }
    }
    pub fn write(&self, path: &str) {
        let s = serde_json::to_string_pretty(self).expect("serialize report");
        std::fs::write(path, s).expect("write report");
    }
    /// keep at most one violation per fingerprint: the one with the shortest replay encoding
    pub fn push_violation(&mut self, v: Violation) {
        if let Some(old) = self.violations.iter_mut().find(|o| o.fingerprint == v.fingerprint) {
            if v.replay.to_string().len() < old.replay.to_string().len() {
                *old = v;
            }
        } else {
            self.violations.push(v);
        }
    }
    pub fn merge(&mut self, other: Report) {
        self.scenarios.extend(other.scenarios);
        for v in other.violations {
            self.push_violation(v);
        }
    }
}

pub struct Timer(Instant);
impl Timer {
    pub fn start() -> Self { Timer(Instant::now()) }
    pub fn secs(&self) -> f64 { self.0.elapsed().as_secs_f64() }
}

/// FNV-1a, for outcome hashing independent of std's randomized hasher.
pub fn fnv(bytes: &[u8]) -> u64 {
    let mut h: u64 = 0xcbf29ce484222325;
    for b in bytes { h ^= *b as u64; h = h.wrapping_mul(0x100000001b3); }
    h
}
