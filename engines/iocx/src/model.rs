//! Reference model of C18 and the oracles that compare one observed resolution with it.
//!
//! Model: per container a map key -> provider {instance(id) | singleton(cell) | transient}, every
//! provider optionally depending on one other key (possibly of another container).

use crate::harness::{DepObs, GetObs, Tag, H};
use crate::ops::*;
use std::collections::HashMap;

#[derive(Clone, Debug)]
pub struct Prov {
    pub form: Form,
    pub reg: u64,
    pub dep: Option<CKey>,
    /// id of the one instance of an `inst` / an already resolved singleton
    pub cell: Option<u64>,
}

#[derive(Clone, Debug)]
pub struct Viol {
    pub rule: &'static str,
    /// `typed` / `trait`: shape of the key of the failing `get`
    pub shape: &'static str,
    pub detail: String,
}

#[derive(Clone, Copy, PartialEq, Eq, Debug)]
pub enum GetClass {
    Missing,
    Got,
    CyclePanic,
}

pub struct Model {
    pub maps: Vec<HashMap<Key, Prov>>,
    /// expected number of completed factory runs per live registration
    pub exp: HashMap<u64, u32>,
}

impl Model {
    pub fn new(n_conts: usize) -> Model {
        Model { maps: (0..n_conts).map(|_| HashMap::new()).collect(), exp: HashMap::new() }
    }

    /// returns the registration that was replaced, if any
    pub fn on_reg(&mut self, c: u8, form: Form, key: Key, dep: Option<CKey>, reg: u64, inst_id: Option<u64>) -> Option<u64> {
        let old = self.maps[c as usize].insert(key, Prov { form, reg, dep, cell: inst_id });
        self.exp.insert(reg, 0);
        old.map(|o| {
            self.exp.remove(&o.reg);
            o.reg
        })
    }

    /// Does resolving `ck` now run into a dependency cycle?  (follow the chain of providers that
    /// have to run their factory: transients and not-yet-initialised singletons)
    pub fn expect_cycle(&self, ck: CKey) -> bool {
        let mut seen: Vec<CKey> = Vec::new();
        let mut cur = ck;
        loop {
            let p = match self.maps[cur.c as usize].get(&cur.key) {
                None => return false,
                Some(p) => p,
            };
            if p.form == Form::Instance || (p.form.is_singleton_like() && p.cell.is_some()) {
                return false;
            }
            if seen.contains(&cur) {
                return true;
            }
            seen.push(cur);
            match p.dep {
                None => return false,
                Some(d) => cur = d,
            }
        }
    }

    fn viol(&self, rule: &'static str, top: CKey, detail: String) -> Viol {
        Viol { rule, shape: top.key.shape(), detail }
    }

    /// validate one observed instance against the model, updating singleton cells
    fn check_tag(&mut self, top: CKey, ck: CKey, tag: &Tag, watermark: u64) -> Result<(), Viol> {
        let what = if ck == top { format!("get {}", ck) } else { format!("get {} (dependency {})", top, ck) };
        let prov = match self.maps[ck.c as usize].get(&ck.key) {
            None => {
                let rule = if tag.at != ck { "no_alias" } else { "unregistered_none" };
                return Err(self.viol(
                    rule,
                    top,
                    format!("{}: key is unregistered, expected None, got instance #{} built by registration r{} of key {}", what, tag.id, tag.reg, tag.at),
                ));
            }
            Some(p) => p.clone(),
        };
        if tag.reg != prov.reg {
            let rule = if tag.at != ck { "no_alias" } else { "latest_wins" };
            return Err(self.viol(
                rule,
                top,
                format!(
                    "{}: expected an instance of the latest registration r{} ({} {}), got instance #{} of registration r{} ({} {})",
                    what, prov.reg, prov.form.word(), ck, tag.id, tag.reg, tag.form.word(), tag.at
                ),
            ));
        }
        match prov.form {
            Form::Instance => {
                if Some(tag.id) != prov.cell {
                    return Err(self.viol("singleton_same_instance", top, format!("{}: registered instance is #{:?}, got #{}", what, prov.cell, tag.id)));
                }
                Ok(())
            }
            Form::Singleton | Form::SingletonTrait => {
                if let Some(id0) = prov.cell {
                    if tag.id != id0 {
                        return Err(self.viol(
                            "singleton_same_instance",
                            top,
                            format!("{}: singleton r{} was resolved before as instance #{}, now #{}", what, prov.reg, id0, tag.id),
                        ));
                    }
                    return Ok(());
                }
                if tag.id < watermark {
                    return Err(self.viol(
                        "singleton_same_instance",
                        top,
                        format!("{}: first resolution of singleton r{} returned an instance (#{}) that existed before this get", what, prov.reg, tag.id),
                    ));
                }
                self.maps[ck.c as usize].get_mut(&ck.key).unwrap().cell = Some(tag.id);
                *self.exp.entry(prov.reg).or_insert(0) += 1;
                self.check_dep(top, ck, &prov, tag, watermark)
            }
            Form::Transient => {
                if tag.id < watermark {
                    return Err(self.viol(
                        "transient_fresh",
                        top,
                        format!("{}: transient r{} returned instance #{} that existed before this get (not fresh)", what, prov.reg, tag.id),
                    ));
                }
                *self.exp.entry(prov.reg).or_insert(0) += 1;
                self.check_dep(top, ck, &prov, tag, watermark)
            }
        }
    }

    fn check_dep(&mut self, top: CKey, ck: CKey, prov: &Prov, tag: &Tag, watermark: u64) -> Result<(), Viol> {
        match (prov.dep, &tag.dep) {
            (None, DepObs::NoDep) => Ok(()),
            (Some(d), DepObs::Missing) => {
                if self.maps[d.c as usize].contains_key(&d.key) {
                    Err(self.viol(
                        "registered_resolves",
                        top,
                        format!("get {}: factory of {} resolved registered key {} and got None", top, ck, d),
                    ))
                } else {
                    Ok(())
                }
            }
            (Some(d), DepObs::Got(t)) => self.check_tag(top, d, t, watermark),
            (a, b) => panic!("harness inconsistency: provider dep {:?} but observed {:?}", a, b),
        }
    }

    /// Oracle for one `get`.  `watermark` = harness id counter before the call.
    pub fn on_get(&mut self, ck: CKey, obs: &GetObs, watermark: u64, h: &H) -> Result<GetClass, Viol> {
        let cyc = self.expect_cycle(ck);
        let class = match obs {
            GetObs::Panic { msg, harness_abort } => {
                if *harness_abort {
                    return Err(self.viol(
                        "cycle_stack_overflow",
                        ck,
                        format!(
                            "get {}: resolution recursed through the factories {} levels deep (model: {}); unbounded recursion = stack overflow",
                            ck,
                            h.depth_limit,
                            if cyc { "dependency cycle, a panic is required" } else { "no cycle" }
                        ),
                    ));
                }
                if !cyc {
                    let rule = if msg.contains("ircular") { "false_cycle" } else { "unexpected_panic" };
                    return Err(self.viol(rule, ck, format!("get {}: no dependency cycle in the model, but the call panicked: {}", ck, msg)));
                }
                GetClass::CyclePanic
            }
            GetObs::Missing => {
                if cyc {
                    return Err(self.viol("cycle_no_panic", ck, format!("get {}: dependency cycle, expected a panic, got None", ck)));
                }
                if let Some(p) = self.maps[ck.c as usize].get(&ck.key) {
                    return Err(self.viol(
                        "registered_resolves",
                        ck,
                        format!("get {}: key is registered (r{} {}), got None", ck, p.reg, p.form.word()),
                    ));
                }
                GetClass::Missing
            }
            GetObs::Got { tag, .. } => {
                if cyc {
                    // an instance of another / an older registration explains it better
                    let cur = self.maps[ck.c as usize].get(&ck.key).map(|p| p.reg);
                    if tag.at != ck {
                        return Err(self.viol("no_alias", ck, format!("get {}: got instance #{} built by registration r{} of key {}", ck, tag.id, tag.reg, tag.at)));
                    }
                    if Some(tag.reg) != cur {
                        return Err(self.viol(
                            "latest_wins",
                            ck,
                            format!("get {}: expected the latest registration r{:?} (which is on a dependency cycle), got instance #{} of the replaced registration r{}", ck, cur, tag.id, tag.reg),
                        ));
                    }
                    return Err(self.viol("cycle_no_panic", ck, format!("get {}: dependency cycle, expected a panic, got instance #{}", ck, tag.id)));
                }
                self.check_tag(ck, ck, tag, watermark)?;
                GetClass::Got
            }
        };
        // factory accounting
        if h.stale_runs.load(std::sync::atomic::Ordering::SeqCst) > 0 {
            return Err(self.viol("latest_wins", ck, format!("get {}: the factory of a replaced registration was run", ck)));
        }
        for (reg, exp) in self.exp.iter() {
            let act = h.completions(*reg);
            if act != *exp {
                let form = self
                    .maps
                    .iter()
                    .flat_map(|m| m.values())
                    .find(|p| p.reg == *reg)
                    .map(|p| p.form)
                    .unwrap_or(Form::Singleton);
                let rule = if form == Form::Transient { "transient_factory_per_get" } else { "singleton_factory_once" };
                return Err(self.viol(
                    rule,
                    ck,
                    format!("after get {}: factory of registration r{} ({}) completed {} times, model expects {}", ck, reg, form.word(), act, exp),
                ));
            }
        }
        Ok(class)
    }
}
