//! Harness services, counting factories and the adapters that drive the real
//! `fibre_ioc::Container` (instance + global) and `fibre_ioc::LocalContainer`.

use crate::ops::*;
use fibre_ioc::{global, Container, LocalContainer};
use std::any::Any;
use std::cell::{Cell, RefCell};
use std::collections::HashMap;
use std::panic::{catch_unwind, AssertUnwindSafe};
use std::rc::{Rc, Weak as RcWeak};
use std::sync::atomic::{AtomicBool, AtomicU32, AtomicU64, Ordering};
use std::sync::{Arc, Mutex, Weak};

/// What a harness-built service instance says about itself.
#[derive(Clone, Debug)]
pub struct Tag {
    /// unique per constructed instance (harness counter, monotonic)
    pub id: u64,
    /// registration (unique per add_* call) whose factory built it
    pub reg: u64,
    /// key the registration was made under
    pub at: CKey,
    pub form: Form,
    pub dep: DepObs,
}

#[derive(Clone, Debug)]
pub enum DepObs {
    NoDep,
    Missing,
    Got(Box<Tag>),
}

pub struct Svc<const TY: u8> {
    pub tag: Tag,
}

pub trait Tr: Send + Sync + 'static {
    fn tag(&self) -> &Tag;
}
impl Tr for Svc<2> {
    fn tag(&self) -> &Tag {
        &self.tag
    }
}

#[derive(Clone, Copy, PartialEq, Eq, Debug)]
pub enum GateKind {
    /// factory entered (scheduling point)
    FactoryEntry,
    /// the factory is about to resolve its dependency / is back from it
    BeforeDep(Key),
    AfterDep,
    /// factory about to return its instance (scheduling point)
    FactoryExit,
    /// the factory body is left (normally or by unwinding)
    FactoryLeave,
}

/// payload of the panic the harness raises when a resolution recursed deeper than any acyclic
/// chain can (=> the container did not detect a cycle and would overflow the stack)
pub struct HarnessAbort;

thread_local! {
    static DEPTH: Cell<u32> = Cell::new(0);
    pub static QUIET: Cell<bool> = Cell::new(false);
}

pub fn install_panic_hook() {
    let default = std::panic::take_hook();
    std::panic::set_hook(Box::new(move |info| {
        if QUIET.with(|q| q.get()) {
            return;
        }
        default(info);
    }));
}

struct DepthGuard;
impl Drop for DepthGuard {
    fn drop(&mut self) {
        DEPTH.with(|d| d.set(d.get() - 1));
    }
}

pub struct H {
    pub next_id: AtomicU64,
    pub next_reg: AtomicU64,
    /// registration -> (factory entries, factory completions)
    counts: Mutex<HashMap<u64, (u32, u32)>>,
    /// a factory of a registration that had already been replaced ran
    pub stale_runs: AtomicU32,
    pub overflow: AtomicBool,
    /// 0 = no limit (used by the confirmation child to observe the real stack overflow)
    pub depth_limit: u32,
    pub hook: Option<Box<dyn Fn(GateKind, u64) + Send + Sync>>,
}

impl H {
    pub fn new(depth_limit: u32) -> H {
        H {
            next_id: AtomicU64::new(1),
            next_reg: AtomicU64::new(0),
            counts: Mutex::new(HashMap::new()),
            stale_runs: AtomicU32::new(0),
            overflow: AtomicBool::new(false),
            depth_limit,
            hook: None,
        }
    }
    pub fn new_reg(&self) -> u64 {
        let r = self.next_reg.fetch_add(1, Ordering::SeqCst);
        self.counts.lock().unwrap().insert(r, (0, 0));
        r
    }
    pub fn retire(&self, reg: u64) {
        self.counts.lock().unwrap().remove(&reg);
    }
    pub fn new_id(&self) -> u64 {
        self.next_id.fetch_add(1, Ordering::SeqCst)
    }
    pub fn watermark(&self) -> u64 {
        self.next_id.load(Ordering::SeqCst)
    }
    pub fn completions(&self, reg: u64) -> u32 {
        self.counts.lock().unwrap().get(&reg).map(|c| c.1).unwrap_or(0)
    }
    pub fn entries(&self, reg: u64) -> u32 {
        self.counts.lock().unwrap().get(&reg).map(|c| c.0).unwrap_or(0)
    }
    fn enter(&self, reg: u64) {
        let mut g = self.counts.lock().unwrap();
        match g.get_mut(&reg) {
            Some(c) => c.0 += 1,
            None => {
                self.stale_runs.fetch_add(1, Ordering::SeqCst);
            }
        }
    }
    fn complete(&self, reg: u64) {
        if let Some(c) = self.counts.lock().unwrap().get_mut(&reg) {
            c.1 += 1;
        }
    }
}

/// The body of every harness factory.
struct LeaveGuard<'a>(&'a H, u64);
impl Drop for LeaveGuard<'_> {
    fn drop(&mut self) {
        if let Some(hook) = &self.0.hook {
            hook(GateKind::FactoryLeave, self.1);
        }
    }
}

fn factory_body(h: &H, reg: u64, at: CKey, form: Form, dk: Option<Key>, dep: impl FnOnce() -> DepObs) -> Tag {
    h.enter(reg);
    let depth = DEPTH.with(|d| {
        d.set(d.get() + 1);
        d.get()
    });
    let _g = DepthGuard;
    if h.depth_limit != 0 && depth > h.depth_limit {
        h.overflow.store(true, Ordering::SeqCst);
        std::panic::panic_any(HarnessAbort);
    }
    let _leave = LeaveGuard(h, reg);
    if let Some(hook) = &h.hook {
        hook(GateKind::FactoryEntry, reg);
    }
    if let (Some(hook), Some(k)) = (&h.hook, dk) {
        hook(GateKind::BeforeDep(k), reg);
    }
    let dep = dep();
    if let (Some(hook), Some(_)) = (&h.hook, dk) {
        hook(GateKind::AfterDep, reg);
    }
    if let Some(hook) = &h.hook {
        hook(GateKind::FactoryExit, reg);
    }
    let id = h.new_id();
    h.complete(reg);
    Tag { id, reg, at, form, dep }
}

// ---------------------------------------------------------------------------------------------
// names

#[derive(Clone, Default)]
pub struct Ns(pub Option<Arc<str>>);

impl Ns {
    pub fn name(&self, k: Key) -> Option<String> {
        match (k.name_string(), &self.0) {
            (None, _) => None,
            (Some(n), None) => Some(n),
            (Some(n), Some(p)) => Some(format!("{}{}", p, n)),
        }
    }
}

// ---------------------------------------------------------------------------------------------
// thread-safe containers (instance and global)

#[derive(Clone)]
pub enum SyncRef {
    Inst(Weak<Container>),
    Global,
}

impl SyncRef {
    pub fn with<R>(&self, f: impl FnOnce(&Container) -> R) -> R {
        match self {
            SyncRef::Inst(w) => {
                let a = w.upgrade().expect("container dropped while a factory runs");
                f(&a)
            }
            SyncRef::Global => f(global()),
        }
    }
}

pub type Keep = Box<dyn Any>;

pub fn sync_get(c: &Container, key: Key, name: Option<&str>) -> Option<(usize, Tag, Box<dyn Any + Send + Sync>)> {
    match key.ty {
        TY_A => c.get::<Svc<0>>(name).map(|a| {
            (Arc::as_ptr(&a) as usize, a.tag.clone(), Box::new(a) as Box<dyn Any + Send + Sync>)
        }),
        TY_B => c.get::<Svc<1>>(name).map(|a| {
            (Arc::as_ptr(&a) as usize, a.tag.clone(), Box::new(a) as Box<dyn Any + Send + Sync>)
        }),
        _ => c.get::<dyn Tr>(name).map(|a| {
            (Arc::as_ptr(&a) as *const () as usize, a.tag().clone(), Box::new(a) as Box<dyn Any + Send + Sync>)
        }),
    }
}

fn sync_dep(r: &SyncRef, key: Key, name: Option<&str>) -> DepObs {
    match r.with(|c| sync_get(c, key, name)) {
        None => DepObs::Missing,
        Some((_, t, _)) => DepObs::Got(Box::new(t)),
    }
}

/// dependency of a factory registered in a thread-safe container
#[derive(Clone)]
pub struct SyncDep {
    pub target: SyncRef,
    pub key: Key,
    pub name: Option<String>,
}

macro_rules! sync_reg_typed {
    ($TY:literal, $c:expr, $h:expr, $reg:expr, $at:expr, $form:expr, $name:expr, $dep:expr) => {{
        let h: Arc<H> = $h.clone();
        let reg: u64 = $reg;
        let at: CKey = $at;
        let form: Form = $form;
        let dep: Option<SyncDep> = $dep;
        let dk: Option<Key> = dep.as_ref().map(|d| d.key);
        let depf = move || match &dep {
            None => DepObs::NoDep,
            Some(d) => sync_dep(&d.target, d.key, d.name.as_deref()),
        };
        match (form, $name) {
            (Form::Instance, n) => {
                let tag = Tag { id: h.new_id(), reg, at, form, dep: DepObs::NoDep };
                let id = tag.id;
                match n {
                    None => $c.add_instance(Svc::<$TY> { tag }),
                    Some(n) => $c.add_instance_with_name(n, Svc::<$TY> { tag }),
                }
                Some(id)
            }
            (Form::Singleton, None) => {
                $c.add_singleton(move || Svc::<$TY> { tag: factory_body(&h, reg, at, form, dk, &depf) });
                None
            }
            (Form::Singleton, Some(n)) => {
                $c.add_singleton_with_name(n, move || Svc::<$TY> { tag: factory_body(&h, reg, at, form, dk, &depf) });
                None
            }
            (Form::Transient, None) => {
                $c.add_transient(move || Svc::<$TY> { tag: factory_body(&h, reg, at, form, dk, &depf) });
                None
            }
            (Form::Transient, Some(n)) => {
                $c.add_transient_with_name(n, move || Svc::<$TY> { tag: factory_body(&h, reg, at, form, dk, &depf) });
                None
            }
            (Form::SingletonTrait, None) => {
                $c.add_singleton_trait::<Svc<$TY>>(move || {
                    Arc::new(Svc::<$TY> { tag: factory_body(&h, reg, at, form, dk, &depf) })
                });
                None
            }
            (Form::SingletonTrait, Some(n)) => {
                $c.add_singleton_trait_with_name::<Svc<$TY>>(n, move || {
                    Arc::new(Svc::<$TY> { tag: factory_body(&h, reg, at, form, dk, &depf) })
                });
                None
            }
        }
    }};
}

/// Performs the registration through the public API; returns the id of the instance for `inst`.
pub fn sync_reg(
    c: &Container,
    h: &Arc<H>,
    reg: u64,
    at: CKey,
    form: Form,
    name: Option<&str>,
    dep: Option<SyncDep>,
) -> Option<u64> {
    match at.key.ty {
        TY_A => sync_reg_typed!(0, c, h, reg, at, form, name, dep),
        TY_B => sync_reg_typed!(1, c, h, reg, at, form, name, dep),
        _ => {
            assert!(form == Form::SingletonTrait, "dyn Tr can only be registered with add_singleton_trait");
            let h = h.clone();
            let dk: Option<Key> = dep.as_ref().map(|d| d.key);
            let depf = move || match &dep {
                None => DepObs::NoDep,
                Some(d) => sync_dep(&d.target, d.key, d.name.as_deref()),
            };
            match name {
                None => c.add_singleton_trait::<dyn Tr>(move || {
                    Arc::new(Svc::<2> { tag: factory_body(&h, reg, at, form, dk, &depf) }) as Arc<dyn Tr>
                }),
                Some(n) => c.add_singleton_trait_with_name::<dyn Tr>(n, move || {
                    Arc::new(Svc::<2> { tag: factory_body(&h, reg, at, form, dk, &depf) }) as Arc<dyn Tr>
                }),
            }
            None
        }
    }
}

// ---------------------------------------------------------------------------------------------
// LocalContainer

pub type LocalRc = Rc<RefCell<LocalContainer>>;

#[derive(Clone)]
pub enum AnyRef {
    Sync(SyncRef),
    Local(RcWeak<RefCell<LocalContainer>>),
}

#[derive(Clone)]
pub struct AnyDep {
    pub target: AnyRef,
    pub key: Key,
    pub name: Option<String>,
}

pub fn local_get(c: &LocalContainer, key: Key, name: Option<&str>) -> Option<(usize, Tag, Keep)> {
    match key.ty {
        TY_A => c
            .get::<Svc<0>>(name)
            .map(|a| (Rc::as_ptr(&a) as usize, a.tag.clone(), Box::new(a) as Keep)),
        TY_B => c
            .get::<Svc<1>>(name)
            .map(|a| (Rc::as_ptr(&a) as usize, a.tag.clone(), Box::new(a) as Keep)),
        _ => c
            .get::<dyn Tr>(name)
            .map(|a| (Rc::as_ptr(&a) as *const () as usize, a.tag().clone(), Box::new(a) as Keep)),
    }
}

fn any_dep(d: &AnyDep) -> DepObs {
    let r = match &d.target {
        AnyRef::Sync(s) => s.with(|c| sync_get(c, d.key, d.name.as_deref())).map(|x| x.1),
        AnyRef::Local(w) => {
            let rc = w.upgrade().expect("local container dropped while a factory runs");
            let b = rc.borrow();
            local_get(&b, d.key, d.name.as_deref()).map(|x| x.1)
        }
    };
    match r {
        None => DepObs::Missing,
        Some(t) => DepObs::Got(Box::new(t)),
    }
}

macro_rules! local_reg_typed {
    ($TY:literal, $c:expr, $h:expr, $reg:expr, $at:expr, $form:expr, $name:expr, $dep:expr) => {{
        let h: Arc<H> = $h.clone();
        let reg: u64 = $reg;
        let at: CKey = $at;
        let form: Form = $form;
        let dep: Option<AnyDep> = $dep;
        let dk: Option<Key> = dep.as_ref().map(|d| d.key);
        let depf = move || match &dep {
            None => DepObs::NoDep,
            Some(d) => any_dep(d),
        };
        match (form, $name) {
            (Form::Instance, _) => panic!("LocalContainer has no add_instance"),
            (Form::Singleton, None) => {
                $c.add_singleton(move || Svc::<$TY> { tag: factory_body(&h, reg, at, form, dk, &depf) })
            }
            (Form::Singleton, Some(n)) => {
                $c.add_singleton_with_name(n, move || Svc::<$TY> { tag: factory_body(&h, reg, at, form, dk, &depf) })
            }
            (Form::Transient, None) => {
                $c.add_transient(move || Svc::<$TY> { tag: factory_body(&h, reg, at, form, dk, &depf) })
            }
            (Form::Transient, Some(n)) => {
                $c.add_transient_with_name(n, move || Svc::<$TY> { tag: factory_body(&h, reg, at, form, dk, &depf) })
            }
            (Form::SingletonTrait, None) => $c.add_singleton_trait::<Svc<$TY>>(move || {
                Rc::new(Svc::<$TY> { tag: factory_body(&h, reg, at, form, dk, &depf) })
            }),
            (Form::SingletonTrait, Some(n)) => $c.add_singleton_trait_with_name::<Svc<$TY>>(n, move || {
                Rc::new(Svc::<$TY> { tag: factory_body(&h, reg, at, form, dk, &depf) })
            }),
        }
    }};
}

pub fn local_reg(
    c: &mut LocalContainer,
    h: &Arc<H>,
    reg: u64,
    at: CKey,
    form: Form,
    name: Option<&str>,
    dep: Option<AnyDep>,
) {
    match at.key.ty {
        TY_A => local_reg_typed!(0, c, h, reg, at, form, name, dep),
        TY_B => local_reg_typed!(1, c, h, reg, at, form, name, dep),
        _ => {
            assert!(form == Form::SingletonTrait);
            let h = h.clone();
            let dk: Option<Key> = dep.as_ref().map(|d| d.key);
            let depf = move || match &dep {
                None => DepObs::NoDep,
                Some(d) => any_dep(d),
            };
            match name {
                None => c.add_singleton_trait::<dyn Tr>(move || {
                    Rc::new(Svc::<2> { tag: factory_body(&h, reg, at, form, dk, &depf) }) as Rc<dyn Tr>
                }),
                Some(n) => c.add_singleton_trait_with_name::<dyn Tr>(n, move || {
                    Rc::new(Svc::<2> { tag: factory_body(&h, reg, at, form, dk, &depf) }) as Rc<dyn Tr>
                }),
            }
        }
    }
}

// ---------------------------------------------------------------------------------------------
// World: the containers one sequential history runs against

pub enum Cont {
    Inst(Arc<Container>),
    Global,
    Local(LocalRc),
}

#[derive(Clone, Debug)]
pub enum GetObs {
    Missing,
    Got { ptr: usize, tag: Tag },
    Panic { msg: String, harness_abort: bool },
}

pub struct World {
    conts: Vec<Cont>,
    pub h: Arc<H>,
    /// every resolved handle is kept alive until the world is dropped, so addresses stay unique
    keep: Vec<Keep>,
    pub ns: Ns,
}

pub fn panic_message(p: &Box<dyn Any + Send>) -> (String, bool) {
    if p.is::<HarnessAbort>() {
        return ("harness: resolution recursed beyond the depth limit".into(), true);
    }
    if let Some(s) = p.downcast_ref::<&str>() {
        return (s.to_string(), false);
    }
    if let Some(s) = p.downcast_ref::<String>() {
        return (s.clone(), false);
    }
    ("<non-string panic payload>".into(), false)
}

impl World {
    pub fn new(kinds: &[ContKind], h: Arc<H>, ns: Ns) -> World {
        let conts = kinds
            .iter()
            .map(|k| match k {
                ContKind::Instance => Cont::Inst(Arc::new(Container::new())),
                ContKind::Global => Cont::Global,
                ContKind::Local => Cont::Local(Rc::new(RefCell::new(LocalContainer::new()))),
            })
            .collect();
        World { conts, h, keep: Vec::new(), ns }
    }

    fn sync_ref(&self, c: u8) -> Option<SyncRef> {
        match &self.conts[c as usize] {
            Cont::Inst(a) => Some(SyncRef::Inst(Arc::downgrade(a))),
            Cont::Global => Some(SyncRef::Global),
            Cont::Local(_) => None,
        }
    }

    fn any_ref(&self, c: u8) -> AnyRef {
        match &self.conts[c as usize] {
            Cont::Local(rc) => AnyRef::Local(Rc::downgrade(rc)),
            _ => AnyRef::Sync(self.sync_ref(c).unwrap()),
        }
    }

    /// drop the handles resolved so far (chained mode: between two histories)
    pub fn clear_keep(&mut self) {
        self.keep.clear();
    }

    /// returns (registration id, id of the instance for `inst`)
    pub fn reg(&mut self, c: u8, form: Form, key: Key, dep: Option<CKey>) -> (u64, Option<u64>) {
        let reg = self.h.new_reg();
        let at = CKey { c, key };
        let name = self.ns.name(key);
        match &self.conts[c as usize] {
            Cont::Local(rc) => {
                let d = dep.map(|d| AnyDep { target: self.any_ref(d.c), key: d.key, name: self.ns.name(d.key) });
                local_reg(&mut rc.borrow_mut(), &self.h, reg, at, form, name.as_deref(), d);
                (reg, None)
            }
            _ => {
                let d = dep.map(|d| SyncDep {
                    target: self.sync_ref(d.c).expect("a thread-safe container cannot depend on a LocalContainer"),
                    key: d.key,
                    name: self.ns.name(d.key),
                });
                let me = self.sync_ref(c).unwrap();
                let id = me.with(|cc| sync_reg(cc, &self.h, reg, at, form, name.as_deref(), d));
                (reg, id)
            }
        }
    }

    pub fn get(&mut self, c: u8, key: Key) -> GetObs {
        let name = self.ns.name(key);
        QUIET.with(|q| q.set(true));
        let r = catch_unwind(AssertUnwindSafe(|| match &self.conts[c as usize] {
            Cont::Local(rc) => {
                let b = rc.borrow();
                local_get(&b, key, name.as_deref())
            }
            Cont::Inst(a) => sync_get(a, key, name.as_deref()).map(|(p, t, k)| (p, t, k as Keep)),
            Cont::Global => sync_get(global(), key, name.as_deref()).map(|(p, t, k)| (p, t, k as Keep)),
        }));
        QUIET.with(|q| q.set(false));
        match r {
            Ok(None) => GetObs::Missing,
            Ok(Some((ptr, tag, keep))) => {
                self.keep.push(keep);
                GetObs::Got { ptr, tag }
            }
            Err(p) => {
                let (msg, harness_abort) = panic_message(&p);
                GetObs::Panic { msg, harness_abort }
            }
        }
    }
}
