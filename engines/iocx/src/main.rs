//! iocx - exhaustive checking of property C18 (IoC resolution) of fibre_ioc.
//!
//!   iocx run --tier quick|thorough --out report.json [--props C18] [--jobs N]
//!   iocx replay replay.json
//! internal (child processes; the process-global container needs a fresh process):
//!   iocx exec-one | exec-chain | exec-b      (request as JSON on stdin, answer as JSON on stdout)

mod harness;
mod model;
mod ops;
mod parta;
mod partb;
mod sched;
mod seq;

use ops::*;
use parta::{ASpec, AOut, Found, Verdict};
use partb::{BFound, BOut};
use serde_json::{json, Value};
use std::collections::BTreeMap;
use std::io::{Read, Write};
use std::process::{Command, Stdio};
use std::time::{Duration, Instant};
use vcommon::{Report, Scenario, Timer, Violation};

fn die(msg: &str) -> ! {
    eprintln!("iocx: {}", msg);
    std::process::exit(2)
}

// ---------------------------------------------------------------------------------------------
// child processes

fn run_child(cmd: &str, input: &Value, timeout: Duration) -> Result<Value, String> {
    let exe = std::env::current_exe().map_err(|e| e.to_string())?;
    let mut ch = Command::new(exe)
        .arg(cmd)
        .stdin(Stdio::piped())
        .stdout(Stdio::piped())
        .stderr(Stdio::null())
        .spawn()
        .map_err(|e| format!("spawn: {}", e))?;
    {
        let mut si = ch.stdin.take().unwrap();
        si.write_all(input.to_string().as_bytes()).map_err(|e| e.to_string())?;
    }
    let mut so = ch.stdout.take().unwrap();
    let reader = std::thread::spawn(move || {
        let mut s = String::new();
        let _ = so.read_to_string(&mut s);
        s
    });
    let t = Instant::now();
    let status = loop {
        match ch.try_wait().map_err(|e| e.to_string())? {
            Some(st) => break st,
            None => {
                if t.elapsed() > timeout {
                    let _ = ch.kill();
                    let _ = ch.wait();
                    return Err(format!("child `{}` timed out after {:?}", cmd, timeout));
                }
                std::thread::sleep(Duration::from_millis(2));
            }
        }
    };
    let out = reader.join().unwrap_or_default();
    if !status.success() {
        return Err(format!("child `{}` died: {} (stdout: {})", cmd, describe_status(&status), out.chars().take(200).collect::<String>()));
    }
    serde_json::from_str(&out).map_err(|e| format!("child `{}` answer: {} / {}", cmd, e, out.chars().take(200).collect::<String>()))
}

fn describe_status(st: &std::process::ExitStatus) -> String {
    #[cfg(unix)]
    {
        use std::os::unix::process::ExitStatusExt;
        if let Some(sig) = st.signal() {
            return format!("killed by signal {}", sig);
        }
    }
    format!("{}", st)
}

fn read_stdin_json() -> Value {
    let mut s = String::new();
    std::io::stdin().read_to_string(&mut s).unwrap_or_else(|e| die(&e.to_string()));
    serde_json::from_str(&s).unwrap_or_else(|e| die(&format!("bad request: {}", e)))
}

fn parse_kinds(v: &Value) -> Vec<ContKind> {
    v.as_array()
        .unwrap_or_else(|| die("world: not an array"))
        .iter()
        .map(|k| ContKind::parse(k.as_str().unwrap_or("")).unwrap_or_else(|e| die(&e)))
        .collect()
}

fn verdict_json(v: &Verdict, log: Vec<String>) -> Value {
    match v {
        Verdict::Clean => json!({"viol": null, "log": log}),
        Verdict::Viol { ops, rule, shape, detail } => {
            json!({"viol": {"rule": rule, "shape": shape, "detail": detail, "ops": ops_to_json(ops)}, "log": log})
        }
    }
}

fn verdict_from_json(v: &Value) -> Result<Verdict, String> {
    if v["viol"].is_null() {
        return Ok(Verdict::Clean);
    }
    let x = &v["viol"];
    Ok(Verdict::Viol {
        ops: if x["ops"].is_null() { vec![] } else { ops_from_json(&x["ops"])? },
        rule: x["rule"].as_str().ok_or("rule")?.into(),
        shape: x["shape"].as_str().ok_or("shape")?.into(),
        detail: x["detail"].as_str().ok_or("detail")?.into(),
    })
}

/// exec-one: one history (part A) or one schedule (part B) in this fresh process
fn exec_one(req: &Value) -> Value {
    match req["part"].as_str() {
        Some("A") => {
            let kinds = parse_kinds(&req["world"]);
            let ops = ops_from_json(&req["ops"]).unwrap_or_else(|e| die(&e));
            if req["no_limit"].as_bool() == Some(true) {
                // observe what really happens without the harness's recursion guard
                return match seq::run_isolated(&kinds, &ops, 0, Duration::from_secs(10), true) {
                    seq::Iso::Done(o) => json!({"viol": null, "log": o.log, "finished": true}),
                    seq::Iso::Hang(s) => json!({"viol": null, "log": [format!("step {} hung", s & !seq::CYCLE_BIT)], "finished": false}),
                };
            }
            let (v, log) = parta::verdict_isolated(&kinds, &ops, true);
            verdict_json(&v, log)
        }
        Some("B") => {
            let kind = ContKind::parse(req["container"].as_str().unwrap_or("")).unwrap_or_else(|e| die(&e));
            let name = req["scenario"].as_str().unwrap_or_else(|| die("scenario"));
            let prog = partb::program(name, kind == ContKind::Global);
            let schedule: Vec<usize> =
                req["schedule"].as_array().map(|a| a.iter().filter_map(|x| x.as_u64()).map(|x| x as usize).collect()).unwrap_or_default();
            let (v, log) = partb::replay_schedule(&prog, kind, &schedule);
            match v {
                None => json!({"viol": null, "log": log}),
                Some(v) => json!({"viol": {"rule": v.rule, "shape": v.shape, "detail": v.detail}, "log": log}),
            }
        }
        _ => die("exec-one: bad part"),
    }
}

fn chain_parts(name: &str, depth: usize) -> u64 {
    match name {
        "cross" => 1,
        _ if depth >= 5 => 8,
        _ => 4,
    }
}

// ---------------------------------------------------------------------------------------------
// part A orchestration

fn pow(n: u64, e: usize) -> u64 {
    (0..e).fold(1u64, |a, _| a * n)
}

fn a_replay_json(spec: &ASpec, ops: &[Op]) -> Value {
    json!({"part": "A", "world": spec.kinds_json(), "ops": ops_to_json(ops)})
}

fn has_global(spec: &ASpec) -> bool {
    spec.kinds.contains(&ContKind::Global)
}

/// run one candidate history from scratch (in-process for instance/local, fresh child for global)
fn run_candidate(spec: &ASpec, ops: &[Op]) -> Verdict {
    if has_global(spec) {
        match run_child("exec-one", &a_replay_json(spec, ops), Duration::from_secs(30)) {
            Ok(v) => verdict_from_json(&v).unwrap_or(Verdict::Clean),
            Err(_) => Verdict::Clean,
        }
    } else {
        parta::verdict_isolated(&spec.kinds, ops, false).0
    }
}

fn a_scenario(spec: &ASpec, tier: &str, jobs: usize, report: &mut Report) {
    let timer = Timer::start();
    let alphabet = spec.alphabet();
    let n = alphabet.len() as u64;
    let chained = has_global(spec);
    let mut machinery: Vec<String> = vec![];
    let out: AOut = if chained {
        let parts = chain_parts(&spec.name, spec.depth);
        let mut total = AOut::default();
        let results: Vec<Result<Value, String>> = std::thread::scope(|s| {
            let hs: Vec<_> = (0..parts)
                .map(|j| {
                    let req = json!({"scenario": spec.name, "world": spec.kinds_json(), "depth": spec.depth, "part": j, "parts": parts});
                    s.spawn(move || run_child("exec-chain", &req, Duration::from_secs(if tier == "quick" { 300 } else { 1500 })))
                })
                .collect();
            hs.into_iter().map(|h| h.join().unwrap()).collect()
        });
        for r in results {
            match r.and_then(|v| AOut::from_json(&v)) {
                Ok(o) => total.merge(o),
                Err(e) => machinery.push(e),
            }
        }
        total
    } else {
        parta::explore(spec, jobs, false, (0, 1), None)
    };
    if !machinery.is_empty() {
        die(&format!("scenario {}: {}", spec.title(), machinery.join("; ")));
    }
    let mut sc = Scenario::default();
    sc.name = spec.title();
    sc.properties = vec!["C18".into()];
    sc.executions = out.executions;
    sc.states = (0..=spec.depth).map(|i| pow(n, i)).sum();
    sc.transitions = out.transitions;
    sc.distinct_outcomes = out.outcomes.len() as u64;
    sc.nontrivial = out.nontrivial;
    sc.nontrivial_rule = "history with >=1 successful get after >=2 registrations".into();
    sc.exhaustive = out.aborted.is_none() && out.executions == pow(n, spec.depth);
    if let Some(a) = &out.aborted {
        sc.caps.push(a.clone());
    }
    let mut b = BTreeMap::new();
    b.insert("depth".into(), json!(spec.depth));
    b.insert("alphabet_size".into(), json!(n));
    b.insert("alphabet".into(), json!(alphabet.iter().map(|o| o.to_string()).collect::<Vec<_>>()));
    b.insert("containers".into(), spec.kinds_json());
    b.insert(
        "mode".into(),
        json!(if chained {
            format!("global container: {} child processes, each runs its share of the histories back to back on the process-global container with the reference model carried along (a history starts from the state the previous ones left)", chain_parts(&spec.name, spec.depth))
        } else {
            "fresh containers and fresh model per history".to_string()
        }),
    );
    b.insert("info.cycle_panics_observed".into(), json!(out.cycle_panics));
    b.insert("info.oracle_mismatches_after_a_cycle_panic(not reported)".into(), json!(out.post_cycle_anomalies));
    if let Some(e) = &out.post_cycle_example {
        b.insert("info.post_cycle_example".into(), json!(e));
    }
    sc.bound = b;
    sc.samples = out.samples.clone();
    // violations: confirm from scratch, minimise, confirm again
    let fpk = spec.fp_kind();
    for f in &out.found {
        let mut runner = |ops: &[Op]| run_candidate(spec, ops);
        let confirmed: Option<(Found, Value)> = match parta::minimise(f, &mut runner) {
            Some(m) => {
                // once more from scratch
                match run_candidate(spec, &m.ops) {
                    Verdict::Viol { rule, shape, .. } if rule == m.rule && shape == m.shape => {
                        let rp = a_replay_json(spec, &m.ops);
                        Some((m, rp))
                    }
                    _ => None,
                }
            }
            None if chained => {
                // depends on the state earlier histories left in the global container: replay the chain
                let parts = chain_parts(&spec.name, spec.depth);
                let suffixes = pow(n, spec.depth - spec.depth.min(2));
                let part = (f.index / suffixes) % parts;
                let chain = json!({"scenario": spec.name, "world": spec.kinds_json(), "depth": spec.depth, "part": part, "parts": parts, "upto": f.index});
                match run_child("exec-chain", &chain, Duration::from_secs(1500)).and_then(|v| AOut::from_json(&v)) {
                    Ok(o) if o.found.iter().any(|g| g.rule == f.rule && g.shape == f.shape && g.index == f.index) => {
                        Some((f.clone(), json!({"part": "A", "world": spec.kinds_json(), "chain": chain})))
                    }
                    _ => None,
                }
            }
            None => None,
        };
        match confirmed {
            Some((m, mut replay)) => {
                let fp = parta::fingerprint(&fpk, &m.rule, &m.shape);
                let mut msg = format!("{}\nminimal history: {:?}", m.detail, m.ops.iter().map(|o| o.to_string()).collect::<Vec<_>>());
                if m.rule == "cycle_stack_overflow" {
                    // what really happens without the harness's recursion guard
                    let mut req = a_replay_json(spec, &m.ops);
                    req["no_limit"] = json!(true);
                    let real = match run_child("exec-one", &req, Duration::from_secs(30)) {
                        Ok(v) => format!("child finished normally?! {}", v),
                        Err(e) => e,
                    };
                    msg.push_str(&format!("\nwithout the harness recursion guard, in a child process: {}", real));
                }
                replay["expect"] = json!({"rule": m.rule, "shape": m.shape});
                report.push_violation(Violation { property: "C18".into(), fingerprint: fp, message: msg, scenario: sc.name.clone(), replay });
            }
            None => {
                eprintln!("iocx: scenario {}: violation {}/{} did not reproduce from scratch: {:?} - dropped", sc.name, f.rule, f.shape, f.ops);
                sc.caps.push(format!("a {} observation did not reproduce on re-execution and was dropped", f.rule));
                sc.exhaustive = false;
            }
        }
    }
    sc.wall_s = timer.secs();
    eprintln!(
        "iocx: {:<28} executions {:>10} nontrivial {:>10} outcomes {:>6} found {} [{:.1}s]",
        sc.name,
        sc.executions,
        sc.nontrivial,
        sc.distinct_outcomes,
        out.found.len(),
        sc.wall_s
    );
    report.scenarios.push(sc);
}

/// global container from a really fresh state: one child process per history
fn a_fresh_global(tier: &str, jobs: usize, report: &mut Report) {
    let timer = Timer::start();
    let spec = ASpec { name: "flat".into(), kinds: vec![ContKind::Global], depth: 2 };
    let al = spec.alphabet();
    let regs: Vec<Op> = al.iter().copied().filter(|o| o.is_reg()).collect();
    let gets: Vec<Op> = al.iter().copied().filter(|o| !o.is_reg()).collect();
    let mut hist: Vec<Vec<Op>> = vec![];
    let key_of = |o: &Op| match o {
        Op::Reg { key, .. } | Op::Get { key, .. } => *key,
    };
    if tier == "quick" {
        for g in &gets {
            hist.push(vec![*g]);
        }
        for r in &regs {
            hist.push(vec![*r, Op::Get { c: 0, key: key_of(r) }]);
        }
    } else {
        for o in &al {
            hist.push(vec![*o]);
        }
        for a in &al {
            for b in &al {
                hist.push(vec![*a, *b]);
            }
        }
    }
    for r in &regs {
        // re-registration with the next form available for this key, then resolve
        let k = key_of(r);
        let same: Vec<&Op> = regs.iter().filter(|x| key_of(x) == k).collect();
        let pos = same.iter().position(|x| *x == r).unwrap();
        let r2 = *same[(pos + 1) % same.len()];
        hist.push(vec![*r, r2, Op::Get { c: 0, key: k }]);
    }
    let next = std::sync::atomic::AtomicUsize::new(0);
    let results: std::sync::Mutex<Vec<(usize, Result<Value, String>)>> = std::sync::Mutex::new(vec![]);
    std::thread::scope(|s| {
        for _ in 0..jobs.min(6) {
            s.spawn(|| loop {
                let i = next.fetch_add(1, std::sync::atomic::Ordering::SeqCst);
                if i >= hist.len() {
                    break;
                }
                let r = run_child("exec-one", &a_replay_json(&spec, &hist[i]), Duration::from_secs(30));
                results.lock().unwrap().push((i, r));
            });
        }
    });
    let mut results = results.into_inner().unwrap();
    results.sort_by_key(|r| r.0);
    let mut sc = Scenario::default();
    sc.name = "A/fresh/global".into();
    sc.properties = vec!["C18".into()];
    let mut outcomes = std::collections::HashSet::new();
    for (i, r) in results {
        let v = r.unwrap_or_else(|e| die(&format!("fresh global history {:?}: {}", hist[i], e)));
        sc.executions += 1;
        sc.transitions += hist[i].len() as u64;
        let log: Vec<String> = v["log"].as_array().map(|a| a.iter().filter_map(|x| x.as_str().map(String::from)).collect()).unwrap_or_default();
        let abstracted: Vec<String> = log.iter().map(|l| l.split("=>").nth(1).unwrap_or("").split(['#', '(']).next().unwrap_or("").trim().to_string()).collect();
        outcomes.insert(vcommon::fnv(abstracted.join("|").as_bytes()));
        let some = log.last().map_or(false, |l| l.contains("Some("));
        if some && hist[i].iter().filter(|o| o.is_reg()).count() >= 2 {
            sc.nontrivial += 1;
        }
        if sc.samples.len() < 2 && some {
            // addresses are run dependent
            let clean: Vec<String> = log
                .iter()
                .map(|l| match l.find(" @0x") {
                    Some(p) => {
                        let rest = &l[p + 4..];
                        let end = rest.find(|c: char| !c.is_ascii_hexdigit()).unwrap_or(rest.len());
                        format!("{}{}", &l[..p], &rest[end..])
                    }
                    None => l.clone(),
                })
                .collect();
            sc.samples.push(json!({"history": clean}));
        }
        if let Ok(Verdict::Viol { ops, rule, shape, detail }) = verdict_from_json(&v) {
            // confirm once more
            if let Verdict::Viol { rule: r2, shape: s2, .. } = run_candidate(&spec, &ops) {
                if r2 == rule && s2 == shape {
                    let mut replay = a_replay_json(&spec, &ops);
                    replay["expect"] = json!({"rule": rule, "shape": shape});
                    report.push_violation(Violation {
                        property: "C18".into(),
                        fingerprint: parta::fingerprint("global", &rule, &shape),
                        message: format!("{}\nhistory (fresh process): {:?}", detail, ops.iter().map(|o| o.to_string()).collect::<Vec<_>>()),
                        scenario: sc.name.clone(),
                        replay,
                    });
                }
            }
        }
    }
    sc.states = sc.executions;
    sc.distinct_outcomes = outcomes.len() as u64;
    sc.nontrivial_rule = "history with >=1 successful get after >=2 registrations".into();
    sc.exhaustive = true;
    let mut b = BTreeMap::new();
    b.insert(
        "histories".into(),
        json!(if tier == "quick" { "every single get; every [registration, get of that key]; every [registration, re-registration in the next form, get] (flat alphabet)" } else { "every history of length <=2 (flat alphabet); every [registration, re-registration in the next form, get]" }),
    );
    b.insert("mode".into(), json!("one child process per history: the process-global container is really empty at the start"));
    sc.bound = b;
    sc.wall_s = timer.secs();
    eprintln!("iocx: {:<28} executions {:>10} nontrivial {:>10} outcomes {:>6} [{:.1}s]", sc.name, sc.executions, sc.nontrivial, sc.distinct_outcomes, sc.wall_s);
    report.scenarios.push(sc);
}

// ---------------------------------------------------------------------------------------------
// part B orchestration

fn b_replay_json(name: &str, kind: ContKind, schedule: &[usize]) -> Value {
    json!({"part": "B", "scenario": name, "container": kind.word(), "schedule": schedule})
}

fn b_scenario(name: &str, kind: ContKind, workers: usize) -> (Scenario, Vec<Violation>) {
    let timer = Timer::start();
    let prog = partb::program(name, kind == ContKind::Global);
    let out: BOut = if kind == ContKind::Global {
        // the global container lives once per process: every child process explores a share of
        // the open DFS nodes sequentially (and ends at the first hang, which poisons its
        // container); up to 6 children at a time
        let mut total = BOut::default();
        let mut queue: Vec<Vec<usize>> = vec![vec![]];
        let mut children = 0;
        while !queue.is_empty() {
            if children > 6000 {
                total.caps.push("stopped after 6000 child processes".into());
                break;
            }
            let p = queue.len().min(6);
            let mut shares: Vec<Vec<Vec<usize>>> = vec![vec![]; p];
            for (i, item) in queue.drain(..).enumerate() {
                shares[i % p].push(item);
            }
            children += p;
            let answers: Vec<Result<Value, String>> = std::thread::scope(|s| {
                let hs: Vec<_> = shares
                    .iter()
                    .map(|sh| {
                        let req = json!({"scenario": name, "queue": sh, "max_exec": 40});
                        s.spawn(move || run_child("exec-b", &req, Duration::from_secs(600)))
                    })
                    .collect();
                hs.into_iter().map(|h| h.join().unwrap()).collect()
            });
            for a in answers {
                match a {
                    Ok(v) => {
                        match BOut::from_json(&v["out"]) {
                            Ok(o) => total.merge(o),
                            Err(e) => die(&format!("exec-b answer: {}", e)),
                        }
                        let rest: Vec<Vec<usize>> = v["rest"]
                            .as_array()
                            .map(|a| a.iter().map(|p| p.as_array().map(|x| x.iter().filter_map(|y| y.as_u64()).map(|y| y as usize).collect()).unwrap_or_default()).collect())
                            .unwrap_or_default();
                        queue.extend(rest);
                    }
                    Err(e) => die(&format!("part B scenario {} (global): {}", name, e)),
                }
            }
            if !total.machinery.is_empty() {
                break;
            }
        }
        total
    } else {
        partb::explore(&prog, kind, workers, vec![vec![]], false, u64::MAX).0
    };
    if !out.machinery.is_empty() {
        die(&format!("part B scenario {} ({}): {}", name, kind.word(), out.machinery.join("; ")));
    }
    let mut sc = Scenario::default();
    sc.name = format!("B/{}/{}", name, kind.word());
    sc.properties = vec!["C18".into()];
    sc.executions = out.executions;
    sc.states = out.states;
    sc.transitions = out.transitions;
    sc.distinct_outcomes = out.outcomes.len() as u64;
    sc.nontrivial = out.nontrivial;
    sc.nontrivial_rule = "schedule in which >=2 threads were inside their operation at the same time, one of them inside the factory or blocked on it".into();
    sc.exhaustive = out.caps.is_empty();
    sc.caps = out.caps.clone();
    let mut b = BTreeMap::new();
    b.insert("program".into(), partb::program_json(&prog));
    b.insert("threads".into(), json!(prog.threads.len()));
    b.insert("gates".into(), json!("thread start, harness factory entry and exit, between two operations of a thread"));
    b.insert(
        "granularity".into(),
        json!("all schedules at gate granularity; TIMING-ASSISTED: a thread that sleeps inside once_cell/dashmap is recognised by its kernel scheduler state (/proc state S for 6 ms when the harness predicts that the call must wait for another thread, for 1500 ms otherwise; no-progress timeouts of 200 ms / 3 s as fallback without /proc), a hang = all unfinished threads asleep in the library for 1000 ms; interleavings inside once_cell/dashmap are not enumerated"),
    );
    b.insert("info.executions_that_hung".into(), json!(out.hangs));
    sc.bound = b;
    sc.samples = out.samples.iter().map(|s| s.1.clone()).collect();
    let mut viols = vec![];
    for f in &out.found {
        // re-execute once more from scratch (fresh process) before reporting
        let replay = b_replay_json(name, kind, &f.schedule);
        let again = run_child("exec-one", &replay, Duration::from_secs(120)).ok().and_then(|v| verdict_from_json(&v).ok());
        match again {
            Some(Verdict::Viol { rule, shape, .. }) if rule == f.rule && shape == f.shape => {
                let mut replay = replay;
                replay["expect"] = json!({"rule": f.rule, "shape": f.shape});
                viols.push(Violation {
                    property: "C18".into(),
                    fingerprint: parta::fingerprint(kind.word(), &f.rule, &f.shape),
                    message: format!("{}\nprogram: {}\nschedule (thread granted at each gate decision): {:?}", f.detail, partb::program_json(&prog), f.schedule),
                    scenario: sc.name.clone(),
                    replay,
                });
            }
            _ => {
                eprintln!("iocx: {}: {} on schedule {:?} did not reproduce - dropped", sc.name, f.rule, f.schedule);
                sc.caps.push(format!("a {} observation did not reproduce on re-execution and was dropped", f.rule));
                sc.exhaustive = false;
            }
        }
    }
    sc.wall_s = timer.secs();
    eprintln!(
        "iocx: {:<28} schedules  {:>10} overlapping {:>9} outcomes {:>6} hangs {} found {} [{:.1}s]",
        sc.name,
        sc.executions,
        sc.nontrivial,
        sc.distinct_outcomes,
        out.hangs,
        out.found.len(),
        sc.wall_s
    );
    let _: &Vec<BFound> = &out.found;
    (sc, viols)
}

// ---------------------------------------------------------------------------------------------

fn cmd_run(args: &[String]) {
    let mut tier = "quick".to_string();
    let mut outp: Option<String> = None;
    let mut props: Option<String> = None;
    let mut jobs = std::thread::available_parallelism().map_or(4, usize::from);
    let mut only: Option<String> = None;
    let mut i = 0;
    while i < args.len() {
        match args[i].as_str() {
            "--tier" => {
                tier = args.get(i + 1).cloned().unwrap_or_else(|| die("--tier needs a value"));
                i += 1
            }
            "--out" => {
                outp = args.get(i + 1).cloned();
                i += 1
            }
            "--props" => {
                props = args.get(i + 1).cloned();
                i += 1
            }
            "--jobs" => {
                jobs = args.get(i + 1).and_then(|s| s.parse().ok()).unwrap_or_else(|| die("--jobs needs a number"));
                i += 1
            }
            "--only" => {
                only = args.get(i + 1).cloned();
                i += 1
            }
            x => die(&format!("unknown argument {}", x)),
        }
        i += 1;
    }
    if tier != "quick" && tier != "thorough" {
        die("--tier must be quick or thorough");
    }
    let outp = outp.unwrap_or_else(|| die("--out is required"));
    let mut report = Report::new("iocx", &tier);
    if let Some(p) = &props {
        if !p.split(',').any(|x| x.trim() == "C18") {
            report.write(&outp);
            return;
        }
    }
    let want = |n: &str| only.as_ref().map_or(true, |o| n.contains(o.as_str()));
    let total = Timer::start();

    // ---- part B first (timing-assisted: keep the machine calm while it runs)
    let mut btasks: Vec<(&'static str, ContKind)> = vec![];
    for kind in [ContKind::Instance, ContKind::Global] {
        for n in partb::scenario_names(&tier, kind) {
            if want(&format!("B/{}/{}", n, kind.word())) {
                btasks.push((n, kind));
            }
        }
    }
    let bres: Vec<(Scenario, Vec<Violation>)> = std::thread::scope(|s| {
        let hs: Vec<_> = btasks.iter().map(|(n, k)| s.spawn(move || b_scenario(n, *k, 3))).collect();
        hs.into_iter().map(|h| h.join().unwrap_or_else(|_| die("part B worker panicked"))).collect()
    });
    for (sc, vs) in bres {
        report.scenarios.push(sc);
        for v in vs {
            report.push_violation(v);
        }
    }

    // ---- part A
    let d = if tier == "quick" { 4 } else { 5 };
    let mut aspecs: Vec<ASpec> = vec![];
    for name in ["flat", "deps"] {
        for k in [ContKind::Instance, ContKind::Local, ContKind::Global] {
            aspecs.push(ASpec { name: name.into(), kinds: vec![k], depth: d });
        }
    }
    use ContKind::*;
    for w in [[Instance, Instance], [Local, Instance], [Local, Local], [Instance, Global], [Local, Global], [Global, Instance]] {
        aspecs.push(ASpec { name: "cross".into(), kinds: w.to_vec(), depth: d });
    }
    aspecs.retain(|s| want(&s.title()));
    // the global-container chains are child processes: run them beside the in-process scenarios
    let (gl, loc): (Vec<ASpec>, Vec<ASpec>) = aspecs.into_iter().partition(has_global);
    let mut rl = Report::new("iocx", &tier);
    let rgs: Vec<Report> = std::thread::scope(|s| {
        let tier = tier.as_str();
        let mut hs = vec![];
        for spec in &gl {
            hs.push(s.spawn(move || {
                let mut r = Report::new("iocx", tier);
                a_scenario(spec, tier, 1, &mut r);
                r
            }));
        }
        if want("A/fresh/global") {
            hs.push(s.spawn(move || {
                let mut r = Report::new("iocx", tier);
                a_fresh_global(tier, jobs, &mut r);
                r
            }));
        }
        for spec in &loc {
            a_scenario(spec, tier, jobs, &mut rl);
        }
        hs.into_iter().map(|h| h.join().unwrap_or_else(|_| die("part A worker panicked"))).collect()
    });
    report.merge(rl);
    for r in rgs {
        report.merge(r);
    }
    report.scenarios.sort_by(|a, b| a.name.cmp(&b.name));
    report.violations.sort_by(|a, b| a.fingerprint.cmp(&b.fingerprint));
    report.write(&outp);
    eprintln!(
        "iocx: tier {} done in {:.1}s: {} scenarios, {} executions, {} fingerprints",
        tier,
        total.secs(),
        report.scenarios.len(),
        report.scenarios.iter().map(|s| s.executions).sum::<u64>(),
        report.violations.len()
    );
    for v in &report.violations {
        eprintln!("iocx:   {}", v.fingerprint);
    }
    // leaked (hung) threads must not keep the process alive
    std::process::exit(0);
}

fn cmd_replay(path: &str) {
    let s = std::fs::read_to_string(path).unwrap_or_else(|e| die(&format!("{}: {}", path, e)));
    let v: Value = serde_json::from_str(&s).unwrap_or_else(|e| die(&format!("{}: {}", path, e)));
    let rp = if v.get("replay").is_some() { v["replay"].clone() } else { v.clone() };
    let want_fp = v["fingerprint"].as_str().map(|s| s.to_string());
    let fp_of = |kind: &str, rule: &str, shape: &str| parta::fingerprint(kind, rule, shape);
    let matches = |fp: &str| match (&want_fp, rp["expect"]["rule"].as_str()) {
        (Some(w), _) => w == fp,
        (None, Some(r)) => fp.contains(&format!("C18.{}/", r)),
        (None, None) => true,
    };
    match rp["part"].as_str() {
        Some("A") => {
            let kinds = parse_kinds(&rp["world"]);
            let spec = ASpec { name: String::new(), kinds: kinds.clone(), depth: 0 };
            if !rp["chain"].is_null() {
                println!("replaying the chain of global-container histories up to #{}", rp["chain"]["upto"]);
                let o = exec_chain(&rp["chain"]);
                for f in &o.found {
                    let fp = fp_of(&spec.fp_kind(), &f.rule, &f.shape);
                    println!("history #{} {:?}\n  !! {}: {}", f.index, f.ops.iter().map(|o| o.to_string()).collect::<Vec<_>>(), fp, f.detail);
                    if matches(&fp) {
                        println!("REPRODUCED {}", fp);
                        std::process::exit(1);
                    }
                }
                println!("not reproduced");
                std::process::exit(0);
            }
            let ops = ops_from_json(&rp["ops"]).unwrap_or_else(|e| die(&e));
            let (vd, log) = parta::verdict_isolated(&kinds, &ops, true);
            println!("containers: {:?}", kinds.iter().map(|k| k.word()).collect::<Vec<_>>());
            for l in log {
                println!("{}", l);
            }
            match vd {
                Verdict::Viol { rule, shape, detail, .. } => {
                    let fp = fp_of(&spec.fp_kind(), &rule, &shape);
                    println!("violation {}: {}", fp, detail);
                    if matches(&fp) {
                        println!("REPRODUCED {}", fp);
                        std::process::exit(1);
                    }
                    println!("a different violation than the recorded one: not counted as reproduced");
                    std::process::exit(0);
                }
                Verdict::Clean => {
                    println!("no violation: not reproduced");
                    std::process::exit(0);
                }
            }
        }
        Some("B") => {
            // timing-assisted: run the schedule twice (fresh process each), same verdict required
            let kind = rp["container"].as_str().unwrap_or("instance").to_string();
            let mut fps = vec![];
            for run in 0..2 {
                let v = run_child("exec-one", &rp, Duration::from_secs(120)).unwrap_or_else(|e| die(&e));
                println!("--- run {} ---", run + 1);
                for l in v["log"].as_array().cloned().unwrap_or_default() {
                    println!("{}", l.as_str().unwrap_or(""));
                }
                match verdict_from_json(&v) {
                    Ok(Verdict::Viol { rule, shape, .. }) => fps.push(Some(fp_of(&kind, &rule, &shape))),
                    _ => fps.push(None),
                }
            }
            println!("verdicts: {:?}", fps);
            match (&fps[0], &fps[1]) {
                (Some(a), Some(b)) if a == b && matches(a) => {
                    println!("REPRODUCED {} (both runs)", a);
                    std::process::exit(1);
                }
                _ => {
                    println!("not reproduced (both runs must show the recorded violation)");
                    std::process::exit(0);
                }
            }
        }
        _ => die("replay: `part` must be A or B"),
    }
}

fn exec_chain(req: &Value) -> AOut {
    let spec = ASpec {
        name: req["scenario"].as_str().unwrap_or_else(|| die("scenario")).into(),
        kinds: parse_kinds(&req["world"]),
        depth: req["depth"].as_u64().unwrap_or_else(|| die("depth")) as usize,
    };
    let part = (req["part"].as_u64().unwrap_or(0), req["parts"].as_u64().unwrap_or(1));
    parta::explore(&spec, 1, true, part, req["upto"].as_u64())
}

fn main() {
    harness::install_panic_hook();
    let args: Vec<String> = std::env::args().collect();
    match args.get(1).map(|s| s.as_str()) {
        Some("run") => cmd_run(&args[2..]),
        Some("replay") => cmd_replay(args.get(2).unwrap_or_else(|| die("replay needs a file"))),
        Some("exec-one") => {
            let v = exec_one(&read_stdin_json());
            println!("{}", v);
            std::process::exit(0);
        }
        Some("exec-chain") => {
            let o = exec_chain(&read_stdin_json());
            println!("{}", o.to_json());
            std::process::exit(0);
        }
        Some("exec-b") => {
            let req = read_stdin_json();
            let name = req["scenario"].as_str().unwrap_or_else(|| die("scenario"));
            let queue: Vec<Vec<usize>> = req["queue"]
                .as_array()
                .map(|a| a.iter().map(|p| p.as_array().map(|x| x.iter().filter_map(|y| y.as_u64()).map(|y| y as usize).collect()).unwrap_or_default()).collect())
                .unwrap_or_default();
            let prog = partb::program(name, true);
            let max_exec = req["max_exec"].as_u64().unwrap_or(u64::MAX);
            let (out, rest) = partb::explore(&prog, ContKind::Global, 1, queue, true, max_exec);
            println!("{}", json!({"out": out.to_json(), "rest": rest}));
            std::process::exit(0);
        }
        _ => {
            eprintln!("usage: iocx run --tier quick|thorough --out <report.json> [--props C18] [--jobs N]\n       iocx replay <replay.json>");
            std::process::exit(2);
        }
    }
}
