//! Part A: exhaustive DFS over sequential registration / resolution histories.
//!
//! Every history of exactly `depth` ops over the scenario's alphabet is executed (all shorter
//! histories are its prefixes and are checked step by step on the way).  Fresh mode: fresh
//! containers + fresh model per history.  Chained mode (global container, inside a child
//! process): the process-global container cannot be reset, so the histories of one chain are run
//! back to back and the *model keeps the state too* - every history is then simply the continuation
//! of one long history, which is sound; only "unregistered => None" is checked less often.

use crate::ops::*;
use crate::seq::*;
use serde_json::json;
use std::collections::{HashSet, VecDeque};
use std::sync::atomic::{AtomicBool, AtomicU32, AtomicU64, AtomicUsize, Ordering};
use std::sync::{Arc, Mutex};
use std::time::{Duration, Instant};

const MAX_HANGS: usize = 8;

#[derive(Clone, Debug)]
pub struct ASpec {
    /// flat | deps | cross
    pub name: String,
    pub kinds: Vec<ContKind>,
    pub depth: usize,
}

impl ASpec {
    pub fn alphabet(&self) -> Vec<Op> {
        match self.name.as_str() {
            "flat" => alphabet_flat(self.kinds[0]),
            "deps" => alphabet_deps(self.kinds[0]),
            "cross" => alphabet_cross(&self.kinds),
            x => panic!("unknown scenario {}", x),
        }
    }
    /// container-kind component of fingerprints
    pub fn fp_kind(&self) -> String {
        if self.kinds.len() > 1 {
            "cross".into()
        } else {
            self.kinds[0].word().into()
        }
    }
    pub fn kinds_json(&self) -> serde_json::Value {
        json!(self.kinds.iter().map(|k| k.word()).collect::<Vec<_>>())
    }
    pub fn title(&self) -> String {
        format!("A/{}/{}", self.name, self.kinds.iter().map(|k| k.word()).collect::<Vec<_>>().join("+"))
    }
}

pub fn fingerprint(fp_kind: &str, rule: &str, shape: &str) -> String {
    if fp_kind == "cross" {
        // two-container scenarios: the key shape is irrelevant to what they can reveal
        return format!("iocx/cross/C18.{}/get", rule);
    }
    if rule.starts_with("cycle_") || rule == "false_cycle" || rule.starts_with("hang") {
        // the cycle guard does not look at the kind of key
        return format!("iocx/{}/C18.{}/get", fp_kind, rule);
    }
    format!("iocx/{}/C18.{}/get.{}", fp_kind, rule, shape)
}

#[derive(Clone, Debug)]
pub struct Found {
    pub ops: Vec<Op>,
    pub rule: String,
    pub shape: String,
    pub detail: String,
    /// lexicographic index of the history in the scenario (chained replays)
    pub index: u64,
}

#[derive(Default)]
pub struct AOut {
    pub executions: u64,
    pub transitions: u64,
    pub nontrivial: u64,
    pub outcomes: HashSet<u64>,
    pub found: Vec<Found>,
    pub cycle_panics: u64,
    pub post_cycle_anomalies: u64,
    pub post_cycle_example: Option<String>,
    pub hangs: u64,
    pub aborted: Option<String>,
    pub samples: Vec<serde_json::Value>,
}

impl AOut {
    fn add_found(&mut self, f: Found) {
        // one per (rule, shape): keep the shortest, then the lexicographically first
        if let Some(o) = self.found.iter_mut().find(|o| o.rule == f.rule && o.shape == f.shape) {
            if (f.ops.len(), f.index) < (o.ops.len(), o.index) {
                *o = f;
            }
        } else {
            self.found.push(f);
        }
    }
    pub fn merge(&mut self, o: AOut) {
        self.executions += o.executions;
        self.transitions += o.transitions;
        self.nontrivial += o.nontrivial;
        self.outcomes.extend(o.outcomes);
        for f in o.found {
            self.add_found(f);
        }
        self.cycle_panics += o.cycle_panics;
        self.post_cycle_anomalies += o.post_cycle_anomalies;
        if self.post_cycle_example.is_none() {
            self.post_cycle_example = o.post_cycle_example.clone();
        }
        self.hangs += o.hangs;
        if self.aborted.is_none() {
            self.aborted = o.aborted;
        }
        self.samples.extend(o.samples);
        self.samples.sort_by_key(|s| s["index"].as_u64().unwrap_or(u64::MAX));
        self.samples.truncate(2);
        if let (Some(a), Some(b)) = (&self.post_cycle_example, &o.post_cycle_example) {
            if b < a {
                self.post_cycle_example = o.post_cycle_example;
            }
        }
    }
    pub fn to_json(&self) -> serde_json::Value {
        json!({
            "executions": self.executions, "transitions": self.transitions, "nontrivial": self.nontrivial,
            "outcomes": self.outcomes.iter().collect::<Vec<_>>(),
            "found": self.found.iter().map(|f| json!({"ops": ops_to_json(&f.ops), "rule": f.rule, "shape": f.shape, "detail": f.detail, "index": f.index})).collect::<Vec<_>>(),
            "cycle_panics": self.cycle_panics, "post_cycle_anomalies": self.post_cycle_anomalies,
            "post_cycle_example": self.post_cycle_example, "hangs": self.hangs, "aborted": self.aborted, "samples": self.samples,
        })
    }
    pub fn from_json(v: &serde_json::Value) -> Result<AOut, String> {
        let mut o = AOut::default();
        o.executions = v["executions"].as_u64().ok_or("executions")?;
        o.transitions = v["transitions"].as_u64().ok_or("transitions")?;
        o.nontrivial = v["nontrivial"].as_u64().ok_or("nontrivial")?;
        for x in v["outcomes"].as_array().ok_or("outcomes")? {
            o.outcomes.insert(x.as_u64().ok_or("outcome")?);
        }
        for f in v["found"].as_array().ok_or("found")? {
            o.found.push(Found {
                ops: ops_from_json(&f["ops"])?,
                rule: f["rule"].as_str().ok_or("rule")?.into(),
                shape: f["shape"].as_str().ok_or("shape")?.into(),
                detail: f["detail"].as_str().ok_or("detail")?.into(),
                index: f["index"].as_u64().ok_or("index")?,
            });
        }
        o.cycle_panics = v["cycle_panics"].as_u64().unwrap_or(0);
        o.post_cycle_anomalies = v["post_cycle_anomalies"].as_u64().unwrap_or(0);
        o.post_cycle_example = v["post_cycle_example"].as_str().map(|s| s.to_string());
        o.hangs = v["hangs"].as_u64().unwrap_or(0);
        o.aborted = v["aborted"].as_str().map(|s| s.to_string());
        o.samples = v["samples"].as_array().cloned().unwrap_or_default();
        Ok(o)
    }
}

// ---------------------------------------------------------------------------------------------

pub fn tid_of_current() -> u32 {
    std::fs::read_link("/proc/thread-self")
        .ok()
        .and_then(|p| p.file_name().and_then(|f| f.to_str().map(|s| s.to_string())))
        .and_then(|s| s.parse().ok())
        .unwrap_or(0)
}

/// scheduler state letter of an OS thread of this process ('R','S','D',...), None if unknown
pub fn thread_state(tid: u32) -> Option<char> {
    if tid == 0 {
        return None;
    }
    let s = std::fs::read_to_string(format!("/proc/self/task/{}/stat", tid)).ok()?;
    let p = s.rfind(')')?;
    s[p + 1..].trim_start().chars().next()
}

struct Slot {
    progress: AtomicU64,
    chunk: AtomicU64,
    suffix: AtomicU64,
    step: AtomicU32,
    tid: AtomicU32,
    busy: AtomicBool,
    cancelled: AtomicBool,
    exited: AtomicBool,
}

#[derive(Clone)]
struct Task {
    chunk: u64,
    skip: Vec<u64>,
}

struct Shared {
    spec: ASpec,
    alphabet: Vec<Op>,
    chained: bool,
    upto: Option<u64>,
    queue: Mutex<VecDeque<Task>>,
    pending: AtomicUsize,
    abort: AtomicBool,
    out: Mutex<AOut>,
}

fn pow(n: u64, e: usize) -> u64 {
    (0..e).fold(1u64, |a, _| a * n)
}

fn executor(sh: Arc<Shared>, slot: Arc<Slot>) {
    slot.tid.store(tid_of_current(), Ordering::SeqCst);
    let n = sh.alphabet.len() as u64;
    let d = sh.spec.depth;
    let pre = d.min(2);
    let suffixes = pow(n, d - pre);
    let mut chain: Option<Session> =
        if sh.chained { Some(Session::new(&sh.spec.kinds, DEPTH_LIMIT)) } else { None };
    let mut ops: Vec<Op> = vec![sh.alphabet[0]; d];
    loop {
        if sh.abort.load(Ordering::SeqCst) || slot.cancelled.load(Ordering::SeqCst) {
            break;
        }
        let task = sh.queue.lock().unwrap().pop_front();
        let task = match task {
            Some(t) => t,
            None => {
                if sh.pending.load(Ordering::SeqCst) == 0 {
                    break;
                }
                std::thread::sleep(Duration::from_millis(2));
                continue;
            }
        };
        slot.chunk.store(task.chunk, Ordering::SeqCst);
        slot.busy.store(true, Ordering::SeqCst);
        let mut acc = AOut::default();
        // chunk prefix
        let mut c = task.chunk;
        for i in (0..pre).rev() {
            ops[i] = sh.alphabet[(c % n) as usize];
            c /= n;
        }
        let mut stop = false;
        for s in 0..suffixes {
            if task.skip.contains(&s) {
                continue;
            }
            let index = task.chunk * suffixes + s;
            if let Some(u) = sh.upto {
                if index > u {
                    stop = true;
                    break;
                }
            }
            let mut x = s;
            for i in (pre..d).rev() {
                ops[i] = sh.alphabet[(x % n) as usize];
                x /= n;
            }
            slot.suffix.store(s, Ordering::Relaxed);
            slot.progress.fetch_add(1, Ordering::Relaxed);
            let out = match chain.as_mut() {
                Some(sess) => run_history(sess, &ops, Some(&slot.step), false),
                None => {
                    let mut sess = Session::new(&sh.spec.kinds, DEPTH_LIMIT);
                    run_history(&mut sess, &ops, Some(&slot.step), false)
                }
            };
            if slot.cancelled.load(Ordering::SeqCst) {
                slot.exited.store(true, Ordering::SeqCst);
                return;
            }
            acc.executions += 1;
            acc.transitions += out.steps as u64;
            acc.cycle_panics += out.cycle_panics as u64;
            if out.nontrivial {
                acc.nontrivial += 1;
                if acc.samples.is_empty() && out.viol.is_none() {
                    acc.samples.push(sample_json(&ops, &out, index));
                }
            }
            acc.outcomes.insert(out.outcome_hash());
            if let Some(v) = &out.post_cycle_anomaly {
                acc.post_cycle_anomalies += 1;
                if acc.post_cycle_example.is_none() {
                    acc.post_cycle_example =
                        Some(format!("{:?}: {}: {}", ops.iter().map(|o| o.to_string()).collect::<Vec<_>>(), v.rule, v.detail));
                }
            }
            if let Some((step, v)) = out.viol {
                let v_rule = v.rule;
                acc.add_found(Found {
                    ops: ops[..=step].to_vec(),
                    rule: v.rule.into(),
                    shape: v.shape.into(),
                    detail: v.detail,
                    index,
                });
                // a panic that the model did not expect leaves model and container in step (nothing
                // was initialised); any other mismatch desynchronises a chain
                let in_step = v_rule == "false_cycle" || v_rule == "unexpected_panic";
                if sh.chained && !in_step {
                    // container and model are out of sync from here on
                    acc.aborted = Some(format!("chain stopped at history #{} after a violation", index));
                    sh.abort.store(true, Ordering::SeqCst);
                    stop = true;
                    break;
                }
            }
        }
        sh.out.lock().unwrap().merge(acc);
        slot.busy.store(false, Ordering::SeqCst);
        sh.pending.fetch_sub(1, Ordering::SeqCst);
        if stop {
            // `upto` reached or chain aborted: drop the remaining tasks
            let mut q = sh.queue.lock().unwrap();
            let k = q.len();
            q.clear();
            sh.pending.fetch_sub(k, Ordering::SeqCst);
            break;
        }
    }
    slot.exited.store(true, Ordering::SeqCst);
    // keep the global chain alive until the process ends (nothing to drop for Global anyway)
    std::mem::forget(chain);
}

fn sample_json(ops: &[Op], out: &HistOut, index: u64) -> serde_json::Value {
    json!({
        "index": index,
        "history": ops.iter().zip(out.results.iter()).map(|(o, r)| format!("{} => {}", o, r.text())).collect::<Vec<_>>()
    })
}

fn new_slot() -> Arc<Slot> {
    Arc::new(Slot {
        progress: AtomicU64::new(0),
        chunk: AtomicU64::new(0),
        suffix: AtomicU64::new(0),
        step: AtomicU32::new(0),
        tid: AtomicU32::new(0),
        busy: AtomicBool::new(false),
        cancelled: AtomicBool::new(false),
        exited: AtomicBool::new(false),
    })
}

/// Explore every history of the scenario.  `part`: (j, parts) restricts to chunks = j mod parts.
pub fn explore(spec: &ASpec, jobs: usize, chained: bool, part: (u64, u64), upto: Option<u64>) -> AOut {
    let alphabet = spec.alphabet();
    let n = alphabet.len() as u64;
    let pre = spec.depth.min(2);
    let chunks = pow(n, pre);
    let suffixes = pow(n, spec.depth - pre);
    let mut q = VecDeque::new();
    for c in 0..chunks {
        if c % part.1 == part.0 {
            q.push_back(Task { chunk: c, skip: vec![] });
        }
    }
    let jobs = if chained { 1 } else { jobs.max(1) };
    let sh = Arc::new(Shared {
        spec: spec.clone(),
        alphabet,
        chained,
        upto,
        pending: AtomicUsize::new(q.len()),
        queue: Mutex::new(q),
        abort: AtomicBool::new(false),
        out: Mutex::new(AOut::default()),
    });
    let spawn = |sh: &Arc<Shared>| {
        let slot = new_slot();
        let (a, b) = (sh.clone(), slot.clone());
        std::thread::Builder::new()
            .name("iocx-exec".into())
            .stack_size(8 << 20)
            .spawn(move || executor(a, b))
            .expect("spawn executor");
        slot
    };
    let mut slots: Vec<(Arc<Slot>, u64, Instant)> = (0..jobs).map(|_| (spawn(&sh), 0u64, Instant::now())).collect();
    let mut hangs: Vec<(u64, u64, u32)> = Vec::new();
    loop {
        std::thread::sleep(Duration::from_millis(20));
        if sh.pending.load(Ordering::SeqCst) == 0 || slots.iter().all(|s| s.0.exited.load(Ordering::SeqCst)) {
            break;
        }
        for i in 0..slots.len() {
            let (slot, last, since) = (slots[i].0.clone(), slots[i].1, slots[i].2);
            if slot.exited.load(Ordering::SeqCst) {
                continue;
            }
            let p = slot.progress.load(Ordering::SeqCst);
            if p != last || !slot.busy.load(Ordering::SeqCst) {
                slots[i].1 = p;
                slots[i].2 = Instant::now();
                continue;
            }
            let idle = since.elapsed();
            let st = thread_state(slot.tid.load(Ordering::SeqCst));
            let sleeping = matches!(st, Some('S'));
            if (idle > Duration::from_millis(1500) && sleeping) || idle > Duration::from_secs(30) {
                // the history this executor is running does not return: leak the thread
                slot.cancelled.store(true, Ordering::SeqCst);
                let (chunk, suffix, step) =
                    (slot.chunk.load(Ordering::SeqCst), slot.suffix.load(Ordering::SeqCst), slot.step.load(Ordering::SeqCst));
                hangs.push((chunk, suffix, step));
                if chained || hangs.len() >= MAX_HANGS {
                    sh.abort.store(true, Ordering::SeqCst);
                    let mut o = sh.out.lock().unwrap();
                    o.aborted = Some(format!("stopped after {} hung histories", hangs.len()));
                    sh.pending.store(0, Ordering::SeqCst);
                } else {
                    let mut skip: Vec<u64> = hangs.iter().filter(|h| h.0 == chunk).map(|h| h.1).collect();
                    skip.sort();
                    sh.queue.lock().unwrap().push_front(Task { chunk, skip });
                    slots[i] = (spawn(&sh), 0, Instant::now());
                }
            }
        }
    }
    // wait for the executors that are still alive to notice the end
    let t = Instant::now();
    while !slots.iter().all(|s| s.0.exited.load(Ordering::SeqCst) || s.0.cancelled.load(Ordering::SeqCst))
        && t.elapsed() < Duration::from_secs(5)
    {
        std::thread::sleep(Duration::from_millis(2));
    }
    let mut out = std::mem::take(&mut *sh.out.lock().unwrap());
    let al = &sh.alphabet;
    for (chunk, suffix, step) in hangs {
        let d = spec.depth;
        let mut ops = vec![al[0]; d];
        let mut c = chunk;
        for i in (0..pre).rev() {
            ops[i] = al[(c % n) as usize];
            c /= n;
        }
        let mut x = suffix;
        for i in (pre..d).rev() {
            ops[i] = al[(x % n) as usize];
            x /= n;
        }
        let (step, rule, shape) = classify_hang(&ops, step);
        out.executions += 1;
        out.transitions += step as u64 + 1;
        out.hangs += 1;
        out.add_found(Found {
            ops: ops[..=step].to_vec(),
            rule: rule.into(),
            shape: shape.into(),
            detail: format!("`{}` (step {}) did not return within 1.5 s: the calling thread is parked inside the container", ops[step], step),
            index: chunk * suffixes + suffix,
        });
    }
    out
}

// ---------------------------------------------------------------------------------------------
// confirmation / minimisation of a found violation (fresh mode, in-process)

pub enum Verdict {
    Clean,
    Viol { ops: Vec<Op>, rule: String, shape: String, detail: String },
}

/// one isolated execution on fresh containers (NOT for the global container in the engine process)
pub fn verdict_isolated(kinds: &[ContKind], ops: &[Op], verbose: bool) -> (Verdict, Vec<String>) {
    match run_isolated(kinds, ops, DEPTH_LIMIT, Duration::from_millis(1500), verbose) {
        Iso::Done(o) => {
            let log = o.log.clone();
            match o.viol {
                Some((step, v)) => (
                    Verdict::Viol { ops: ops[..=step].to_vec(), rule: v.rule.into(), shape: v.shape.into(), detail: v.detail },
                    log,
                ),
                None => (Verdict::Clean, log),
            }
        }
        Iso::Hang(step) => {
            let (step, rule, shape) = classify_hang(ops, step);
            (
                Verdict::Viol {
                    ops: ops[..=step].to_vec(),
                    rule: rule.into(),
                    shape: shape.into(),
                    detail: format!("`{}` (step {}) did not return within 1.5 s: the calling thread is parked inside the container", ops[step], step),
                },
                vec![format!("{} => HANG", ops[step])],
            )
        }
    }
}

/// greedy one-op-removal minimisation keeping the same (rule, shape); `run` executes a candidate
pub fn minimise(f: &Found, run: &mut dyn FnMut(&[Op]) -> Verdict) -> Option<Found> {
    let same = |v: &Verdict| matches!(v, Verdict::Viol { rule, shape, .. } if *rule == f.rule && *shape == f.shape);
    // confirmation: the history as found must fail again from scratch
    let mut cur = match run(&f.ops) {
        v @ Verdict::Viol { .. } if same(&v) => match v {
            Verdict::Viol { ops, detail, .. } => Found { ops, detail, ..f.clone() },
            _ => unreachable!(),
        },
        _ => return None,
    };
    let mut i = 0;
    while cur.ops.len() > 1 && i + 1 < cur.ops.len() {
        let mut cand = cur.ops.clone();
        cand.remove(i);
        match run(&cand) {
            v @ Verdict::Viol { .. } if same(&v) => {
                if let Verdict::Viol { ops, detail, .. } = v {
                    cur.ops = ops;
                    cur.detail = detail;
                }
            }
            _ => i += 1,
        }
    }
    Some(cur)
}
