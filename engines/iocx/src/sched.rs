//! Deterministic token scheduler over OS threads (gate granularity).
//!
//! A scenario thread runs only after the controller granted it the token at a *gate*
//! (thread start, harness-factory entry / exit, between two operations of a thread).  When the
//! running thread neither reaches its next gate nor finishes but goes to sleep inside the library
//! (once_cell waiting for another thread's initialisation, a dashmap shard lock), the controller
//! marks it *blocked-in-library* and makes the next decision among the threads waiting at gates; the
//! blocked thread becomes an option again when it later arrives at a gate.
//!
//! "Went to sleep inside the library" is decided from the thread's kernel scheduler state
//! (/proc/self/task/<tid>/stat == 'S' for QUIESCE with no gate event; a merely descheduled thread
//! is 'R'), with a plain 200 ms no-progress timeout as fallback when /proc is unavailable.  All
//! unfinished threads blocked-in-library with no progress for HANG => the execution hangs.

use crate::parta::{thread_state, tid_of_current};
use std::cell::RefCell;
use std::sync::{Arc, Condvar, Mutex};
use std::time::{Duration, Instant};

pub const QUIESCE: Duration = Duration::from_millis(6);
pub const QUIESCE_FALLBACK: Duration = Duration::from_millis(200);
pub const UNEXPECTED: Duration = Duration::from_millis(1500);
pub const HANG: Duration = Duration::from_millis(1000);
const EXEC_TIMEOUT: Duration = Duration::from_secs(60);

#[derive(Clone, Copy, PartialEq, Eq, Debug)]
pub enum St {
    Init,
    Running,
    AtGate,
    Finished,
}

#[derive(Clone, Debug)]
struct TS {
    st: St,
    label: String,
    go: bool,
    tid: u32,
    progress: u64,
    /// the harness predicts that the call the thread is about to make sleeps inside the library
    expect_block: bool,
}

pub struct Sched {
    m: Mutex<Vec<TS>>,
    ctrl: Condvar,
    cvs: Vec<Condvar>,
}

thread_local! {
    static CUR: RefCell<Option<(Arc<Sched>, usize)>> = RefCell::new(None);
}

/// gate of the calling scenario thread (no-op on threads that are not under a scheduler)
pub fn gate_current(label: &str) {
    let cur = CUR.with(|c| c.borrow().clone());
    if let Some((s, me)) = cur {
        s.gate(me, label);
    }
}

/// index of the calling scenario thread
pub fn current_idx() -> Option<usize> {
    CUR.with(|c| c.borrow().as_ref().map(|x| x.1))
}

/// The harness knows when a call must wait for another thread (a singleton being initialised by
/// another thread, a registration into a shard that a resolving thread keeps read-locked).  Only
/// then a short sleep inside the library counts as "blocked"; an unpredicted sleep has to last
/// UNEXPECTED before it is believed (lock-holder preemption on a loaded machine makes running
/// threads sleep for a few ms on allocator / harness locks).
pub fn set_expect_block_current(v: bool) {
    let cur = CUR.with(|c| c.borrow().clone());
    if let Some((s, me)) = cur {
        s.m.lock().unwrap()[me].expect_block = v;
    }
}

#[derive(Clone, Debug)]
pub struct Decision {
    /// threads waiting at a gate (ascending), with their gate labels
    pub options: Vec<(usize, String)>,
    pub chosen: usize,
    /// threads blocked-in-library at this decision
    pub blocked: Vec<usize>,
    /// ... of which the harness had not predicted the block
    pub unexpected: Vec<usize>,
}

#[derive(Clone, Debug, Default)]
pub struct Trace {
    pub decisions: Vec<Decision>,
    pub hang: bool,
    /// threads that never finished (hang)
    pub stuck: Vec<usize>,
    /// the chooser asked for a thread that was not an option
    pub diverged: Option<String>,
    pub machinery_error: Option<String>,
}

impl Sched {
    pub fn new(n: usize) -> Arc<Sched> {
        Arc::new(Sched {
            m: Mutex::new((0..n).map(|_| TS { st: St::Init, label: String::new(), go: false, tid: 0, progress: 0, expect_block: false }).collect()),
            ctrl: Condvar::new(),
            cvs: (0..n).map(|_| Condvar::new()).collect(),
        })
    }

    /// to be called first thing on scenario thread `me`
    pub fn enter(self: &Arc<Sched>, me: usize) {
        CUR.with(|c| *c.borrow_mut() = Some((self.clone(), me)));
        self.m.lock().unwrap()[me].tid = tid_of_current();
        self.gate(me, "start");
    }

    pub fn gate(&self, me: usize, label: &str) {
        let mut g = self.m.lock().unwrap();
        g[me].st = St::AtGate;
        g[me].label = label.to_string();
        g[me].progress += 1;
        self.ctrl.notify_all();
        while !g[me].go {
            g = self.cvs[me].wait(g).unwrap();
        }
        g[me].go = false;
        g[me].st = St::Running;
        g[me].progress += 1;
        self.ctrl.notify_all();
    }

    pub fn finish(&self, me: usize) {
        CUR.with(|c| *c.borrow_mut() = None);
        let mut g = self.m.lock().unwrap();
        g[me].st = St::Finished;
        g[me].progress += 1;
        self.ctrl.notify_all();
    }

    /// Controller.  `choose(decision index, options)` returns the index into `options` to run.
    pub fn control(&self, choose: &mut dyn FnMut(usize, &[(usize, String)]) -> Result<usize, String>) -> Trace {
        let n = self.cvs.len();
        let mut trace = Trace::default();
        // per thread: (progress when first seen asleep, since when, confirmed blocked)
        let mut asleep: Vec<Option<(u64, Instant, bool)>> = vec![None; n];
        let started = Instant::now();
        loop {
            // ---- settle: every thread at a gate, finished, or confirmed blocked-in-library
            let snapshot = loop {
                if started.elapsed() > EXEC_TIMEOUT {
                    trace.machinery_error = Some("execution did not settle within 60 s".into());
                    return trace;
                }
                let snap: Vec<TS> = self.m.lock().unwrap().clone();
                let mut unsettled = false;
                for i in 0..n {
                    match snap[i].st {
                        St::AtGate | St::Finished => asleep[i] = None,
                        St::Init => unsettled = true,
                        St::Running => {
                            let now = Instant::now();
                            let (q_proc, q_fallback) =
                                if snap[i].expect_block { (QUIESCE, QUIESCE_FALLBACK) } else { (UNEXPECTED, UNEXPECTED * 2) };
                            match thread_state(snap[i].tid) {
                                Some('S') => match asleep[i] {
                                    Some((p, since, conf)) if p == snap[i].progress => {
                                        if !conf {
                                            if now.duration_since(since) >= q_proc {
                                                asleep[i] = Some((p, since, true));
                                            } else {
                                                unsettled = true;
                                            }
                                        }
                                    }
                                    _ => {
                                        asleep[i] = Some((snap[i].progress, now, false));
                                        unsettled = true;
                                    }
                                },
                                Some(_) => {
                                    asleep[i] = None;
                                    unsettled = true;
                                }
                                None => match asleep[i] {
                                    // no /proc: plain no-progress timeout
                                    Some((p, since, conf)) if p == snap[i].progress => {
                                        if !conf {
                                            if now.duration_since(since) >= q_fallback {
                                                asleep[i] = Some((p, since, true));
                                            } else {
                                                unsettled = true;
                                            }
                                        }
                                    }
                                    _ => {
                                        asleep[i] = Some((snap[i].progress, now, false));
                                        unsettled = true;
                                    }
                                },
                            }
                        }
                    }
                }
                if !unsettled {
                    // the states may have moved while /proc was read: accept only a stable snapshot
                    let g = self.m.lock().unwrap();
                    if (0..n).all(|i| g[i].progress == snap[i].progress) {
                        break snap;
                    }
                    continue;
                }
                let g = self.m.lock().unwrap();
                let _ = self.ctrl.wait_timeout(g, Duration::from_micros(700)).unwrap();
            };
            if snapshot.iter().all(|t| t.st == St::Finished) {
                return trace;
            }
            let options: Vec<(usize, String)> =
                (0..n).filter(|i| snapshot[*i].st == St::AtGate).map(|i| (i, snapshot[i].label.clone())).collect();
            let blocked: Vec<usize> = (0..n).filter(|i| snapshot[*i].st == St::Running).collect();
            if options.is_empty() {
                // every unfinished thread sleeps inside the library: hang unless one of them moves
                let t0 = Instant::now();
                let mut moved = false;
                while t0.elapsed() < HANG {
                    {
                        let g = self.m.lock().unwrap();
                        let (g, _) = self.ctrl.wait_timeout(g, Duration::from_millis(5)).unwrap();
                        if (0..n).any(|i| g[i].progress != snapshot[i].progress) {
                            moved = true;
                        }
                    }
                    if moved {
                        break;
                    }
                    if blocked.iter().any(|i| !matches!(thread_state(snapshot[*i].tid), Some('S') | None)) {
                        moved = true;
                        break;
                    }
                }
                if moved {
                    for i in &blocked {
                        asleep[*i] = None;
                    }
                    continue;
                }
                trace.hang = true;
                trace.stuck = blocked;
                return trace;
            }
            let k = match choose(trace.decisions.len(), &options) {
                Ok(k) if k < options.len() => k,
                Ok(k) => {
                    trace.diverged = Some(format!("decision {}: option index {} of {}", trace.decisions.len(), k, options.len()));
                    self.release_all();
                    return trace;
                }
                Err(e) => {
                    trace.diverged = Some(e);
                    self.release_all();
                    return trace;
                }
            };
            let who = options[k].0;
            let unexpected: Vec<usize> = blocked.iter().copied().filter(|i| !snapshot[*i].expect_block).collect();
            trace.decisions.push(Decision { options: options.clone(), chosen: who, blocked, unexpected });
            // ---- grant the token and wait for the acknowledgement
            let mut g = self.m.lock().unwrap();
            let p0 = g[who].progress;
            g[who].go = true;
            self.cvs[who].notify_all();
            while g[who].progress == p0 {
                let (g2, to) = self.ctrl.wait_timeout(g, Duration::from_secs(10)).unwrap();
                g = g2;
                if to.timed_out() && g[who].progress == p0 {
                    trace.machinery_error = Some("granted thread did not acknowledge".into());
                    return trace;
                }
            }
        }
    }

    /// after a divergence: let every gated thread run freely so that the execution can end
    fn release_all(&self) {
        for _ in 0..10_000 {
            {
                let mut g = self.m.lock().unwrap();
                if g.iter().all(|t| t.st == St::Finished) {
                    return;
                }
                for i in 0..g.len() {
                    if g[i].st == St::AtGate {
                        g[i].go = true;
                        self.cvs[i].notify_all();
                    }
                }
            }
            std::thread::sleep(Duration::from_millis(1));
        }
    }
}
