//! Part B: concurrent resolution, every schedule at factory-gate granularity.

use crate::harness::*;
use crate::ops::*;
use crate::sched::*;
use fibre_ioc::Container;
use serde_json::json;
use std::collections::{HashMap, HashSet};
use std::panic::{catch_unwind, AssertUnwindSafe};
use std::sync::atomic::{AtomicBool, AtomicU64, AtomicUsize, Ordering};
use std::sync::{Arc, Mutex};

pub static LEAKED_THREADS: AtomicUsize = AtomicUsize::new(0);
pub const MAX_LEAKED: usize = 600;
static EXEC_COUNTER: AtomicU64 = AtomicU64::new(0);

#[derive(Clone, Debug)]
pub enum BOp {
    Get(Key),
    Reg { form: Form, key: Key, dep: Option<Key> },
    /// register `n` unrelated instances of B under the names u<first>.. (covers every dashmap shard)
    RegCover { first: u16, n: u16 },
}

#[derive(Clone, Debug)]
pub struct Program {
    pub setup: Vec<(Form, Key, Option<Key>)>,
    pub threads: Vec<Vec<BOp>>,
    /// every `get` of the program is on a dependency cycle: each must panic
    pub cyclic: bool,
}

pub fn scenario_names(tier: &str, kind: ContKind) -> Vec<&'static str> {
    let mut v = vec!["same2", "same3", "same2_trait", "dep_shared", "cycle2", "cycle2_trait", "rereg", "transient2", "two_ops", "same2_reg"];
    if tier == "thorough" {
        v.extend(["same3_reg", "cycle3", "dep_shared3", "same4"]);
    }
    if kind == ContKind::Global && tier != "thorough" {
        // one child process chain per scenario: keep the quick tier small
        v.retain(|s| ["same2", "same3", "dep_shared", "cycle2", "rereg", "same2_reg"].contains(s));
    }
    v
}

pub fn cover_count() -> u16 {
    let shards = (std::thread::available_parallelism().map_or(1, usize::from) * 4).next_power_of_two();
    (shards * 16).min(4000) as u16
}

pub fn program(name: &str, named: bool) -> Program {
    let nm = if named { 1 } else { 0 };
    let a = Key::new(TY_A, nm);
    let b = Key::new(TY_B, nm);
    let t = Key::new(TY_T, nm);
    let s = Form::Singleton;
    let cover = BOp::RegCover { first: 10, n: cover_count() };
    let cover_probe = BOp::Get(Key::new(TY_B, 10 + 7));
    match name {
        "same2" | "same3" | "same4" => {
            let n = name[4..].parse::<usize>().unwrap();
            Program { setup: vec![(s, a, None)], threads: vec![vec![BOp::Get(a)]; n], cyclic: false }
        }
        "same2_trait" => Program {
            setup: vec![(Form::SingletonTrait, t, None)],
            threads: vec![vec![BOp::Get(t)]; 2],
            cyclic: false,
        },
        "same2_reg" | "same3_reg" => {
            let n = name[4..5].parse::<usize>().unwrap();
            let mut th = vec![vec![BOp::Get(a)]; n];
            th.push(vec![cover, cover_probe]);
            Program { setup: vec![(s, a, None)], threads: th, cyclic: false }
        }
        "dep_shared" => Program {
            setup: vec![(s, a, Some(b)), (s, b, None)],
            threads: vec![vec![BOp::Get(a)], vec![BOp::Get(b)]],
            cyclic: false,
        },
        "dep_shared3" => Program {
            setup: vec![(s, a, Some(b)), (s, b, None), (Form::SingletonTrait, t, Some(b))],
            threads: vec![vec![BOp::Get(a)], vec![BOp::Get(b)], vec![BOp::Get(t)]],
            cyclic: false,
        },
        "cycle2" => Program {
            setup: vec![(s, a, Some(b)), (s, b, Some(a))],
            threads: vec![vec![BOp::Get(a)], vec![BOp::Get(b)]],
            cyclic: true,
        },
        "cycle2_trait" => Program {
            setup: vec![(s, a, Some(t)), (Form::SingletonTrait, t, Some(a))],
            threads: vec![vec![BOp::Get(t)], vec![BOp::Get(a)]],
            cyclic: true,
        },
        "cycle3" => Program {
            setup: vec![(s, a, Some(b)), (s, b, Some(t)), (Form::SingletonTrait, t, Some(a))],
            threads: vec![vec![BOp::Get(a)], vec![BOp::Get(b)], vec![BOp::Get(t)]],
            cyclic: true,
        },
        "rereg" => Program {
            setup: vec![(s, a, None)],
            threads: vec![vec![BOp::Get(a)], vec![BOp::Reg { form: s, key: a, dep: None }, BOp::Get(a)]],
            cyclic: false,
        },
        "transient2" => Program {
            setup: vec![(Form::Transient, a, None)],
            threads: vec![vec![BOp::Get(a), BOp::Get(a)], vec![BOp::Get(a)]],
            cyclic: false,
        },
        "two_ops" => Program {
            setup: vec![(s, a, None)],
            threads: vec![vec![BOp::Get(a), BOp::Get(a)], vec![BOp::Get(a)]],
            cyclic: false,
        },
        x => panic!("unknown part B scenario {}", x),
    }
}

pub fn program_json(p: &Program) -> serde_json::Value {
    let reg = |f: &Form, k: &Key, d: &Option<Key>| match d {
        None => format!("{} {}", f.word(), k),
        Some(d) => format!("{} {} -> {}", f.word(), k, d),
    };
    json!({
        "setup": p.setup.iter().map(|(f, k, d)| reg(f, k, d)).collect::<Vec<_>>(),
        "threads": p.threads.iter().map(|t| t.iter().map(|o| match o {
            BOp::Get(k) => format!("get {}", k),
            BOp::Reg { form, key, dep } => reg(form, key, dep),
            BOp::RegCover { first, n } => format!("inst B.u{}..B.u{} ({} unrelated keys, covers every shard)", first, first + n - 1, n),
        }).collect::<Vec<_>>()).collect::<Vec<_>>(),
        "cyclic": p.cyclic,
    })
}

#[derive(Clone, Debug)]
pub enum BRes {
    RegDone(Vec<u64>),
    Missing,
    Got { ptr: usize, tag: Tag },
    Panic(String),
}

pub struct BExec {
    pub trace: Trace,
    pub results: Vec<Vec<BRes>>,
    /// registration -> (key, form, entries, completions)
    pub regs: HashMap<u64, (Key, Form, u32, u32)>,
    /// the harness stopped an unbounded recursion through the factories
    pub overflow: bool,
}

#[derive(Clone, Debug)]
pub struct BViol {
    pub rule: &'static str,
    pub shape: &'static str,
    pub detail: String,
}

/// Runs the program once under the given chooser.  Fresh container (or, for the global container,
/// a key namespace never used before in this process).
pub fn execute(prog: &Program, kind: ContKind, choose: &mut dyn FnMut(usize, &[(usize, String)]) -> Result<usize, String>) -> BExec {
    let exec_id = EXEC_COUNTER.fetch_add(1, Ordering::SeqCst);
    let mut h = H::new(crate::seq::DEPTH_LIMIT);
    let reginfo: Arc<Mutex<HashMap<u64, (Key, Form)>>> = Arc::new(Mutex::new(HashMap::new()));
    // factories in progress: registration -> threads running its factory
    let inprog: Arc<Mutex<HashMap<u64, Vec<usize>>>> = Arc::new(Mutex::new(HashMap::new()));
    // will `get key` by thread `me` have to wait for another thread's initialisation?
    let predict_get = {
        let (reginfo, inprog) = (reginfo.clone(), inprog.clone());
        move |key: Key, me: usize| -> bool {
            let latest = reginfo.lock().unwrap().iter().filter(|(_, (k, _))| *k == key).map(|(r, (_, f))| (*r, *f)).max_by_key(|x| x.0);
            match latest {
                Some((r, f)) if f.is_singleton_like() => {
                    inprog.lock().unwrap().get(&r).map_or(false, |v| v.iter().any(|t| *t != me))
                }
                _ => false,
            }
        }
    };
    // will a registration by thread `me` have to wait for a shard that a resolving thread keeps
    // read-locked?  (same key: same shard; `any`: the registration covers every shard)
    let predict_reg = {
        let (reginfo, inprog) = (reginfo.clone(), inprog.clone());
        move |key: Option<Key>, me: usize| -> bool {
            let ri = reginfo.lock().unwrap();
            inprog.lock().unwrap().iter().any(|(r, v)| {
                v.iter().any(|t| *t != me) && key.map_or(true, |k| ri.get(r).map_or(false, |x| x.0 == k))
            })
        }
    };
    {
        let (inprog, predict_get) = (inprog.clone(), predict_get.clone());
        h.hook = Some(Box::new(move |k, reg| match k {
            GateKind::FactoryEntry => {
                if let Some(me) = current_idx() {
                    inprog.lock().unwrap().entry(reg).or_default().push(me);
                }
                gate_current(&format!("factory_entry:r{}", reg));
            }
            GateKind::BeforeDep(key) => {
                if let Some(me) = current_idx() {
                    set_expect_block_current(predict_get(key, me));
                }
            }
            GateKind::AfterDep => set_expect_block_current(false),
            GateKind::FactoryExit => gate_current(&format!("factory_exit:r{}", reg)),
            GateKind::FactoryLeave => {
                set_expect_block_current(false);
                if let Some(me) = current_idx() {
                    let mut g = inprog.lock().unwrap();
                    if let Some(v) = g.get_mut(&reg) {
                        if let Some(p) = v.iter().position(|t| *t == me) {
                            v.remove(p);
                        }
                        if v.is_empty() {
                            g.remove(&reg);
                        }
                    }
                }
            }
        }));
    }
    let h = Arc::new(h);
    let owner: Option<Arc<Container>> = if kind == ContKind::Instance { Some(Arc::new(Container::new())) } else { None };
    let cref = match &owner {
        Some(a) => SyncRef::Inst(Arc::downgrade(a)),
        None => SyncRef::Global,
    };
    let ns = if kind == ContKind::Global { Ns(Some(Arc::from(format!("x{}_", exec_id).as_str()))) } else { Ns::default() };
    let do_reg = {
        let (h, cref, ns, reginfo) = (h.clone(), cref.clone(), ns.clone(), reginfo.clone());
        move |form: Form, key: Key, dep: Option<Key>| -> u64 {
            let reg = h.new_reg();
            reginfo.lock().unwrap().insert(reg, (key, form));
            let d = dep.map(|d| SyncDep { target: cref.clone(), key: d, name: ns.name(d) });
            let name = ns.name(key);
            cref.with(|c| sync_reg(c, &h, reg, CKey { c: 0, key }, form, name.as_deref(), d));
            reg
        }
    };
    for (f, k, d) in &prog.setup {
        do_reg(*f, *k, *d);
    }
    let n = prog.threads.len();
    let sched = Sched::new(n);
    let results: Vec<Arc<Mutex<Vec<BRes>>>> = (0..n).map(|_| Arc::new(Mutex::new(Vec::new()))).collect();
    let mut handles = vec![];
    for i in 0..n {
        let (sched, ops, res, cref, ns, do_reg) =
            (sched.clone(), prog.threads[i].clone(), results[i].clone(), cref.clone(), ns.clone(), do_reg.clone());
        let (predict_get, predict_reg) = (predict_get.clone(), predict_reg.clone());
        let jh = std::thread::Builder::new()
            .name(format!("iocx-b{}", i))
            .stack_size(4 << 20)
            .spawn(move || {
                sched.enter(i);
                let mut keep: Vec<Box<dyn std::any::Any + Send + Sync>> = Vec::new();
                for (j, op) in ops.iter().enumerate() {
                    if j > 0 {
                        sched.gate(i, "between");
                    }
                    QUIET.with(|q| q.set(true));
                    set_expect_block_current(match op {
                        BOp::Get(k) => predict_get(*k, i),
                        BOp::Reg { key, .. } => predict_reg(Some(*key), i),
                        BOp::RegCover { .. } => predict_reg(None, i),
                    });
                    let r = catch_unwind(AssertUnwindSafe(|| match op {
                        BOp::Get(k) => {
                            let name = ns.name(*k);
                            match cref.with(|c| sync_get(c, *k, name.as_deref())) {
                                None => (BRes::Missing, None),
                                Some((ptr, tag, kp)) => (BRes::Got { ptr, tag }, Some(kp)),
                            }
                        }
                        BOp::Reg { form, key, dep } => (BRes::RegDone(vec![do_reg(*form, *key, *dep)]), None),
                        BOp::RegCover { first, n } => {
                            let mut v = vec![];
                            for x in 0..*n {
                                v.push(do_reg(Form::Instance, Key::new(TY_B, first + x), None));
                            }
                            (BRes::RegDone(v), None)
                        }
                    }));
                    set_expect_block_current(false);
                    QUIET.with(|q| q.set(false));
                    let r = match r {
                        Ok((r, kp)) => {
                            if let Some(kp) = kp {
                                keep.push(kp);
                            }
                            r
                        }
                        Err(p) => BRes::Panic(panic_message(&p).0),
                    };
                    res.lock().unwrap().push(r);
                }
                sched.finish(i);
                drop(keep);
            })
            .expect("spawn scenario thread");
        handles.push(jh);
    }
    let trace = sched.control(choose);
    if trace.hang || trace.machinery_error.is_some() {
        // the stuck threads are parked inside once_cell / dashmap for ever: leak them
        LEAKED_THREADS.fetch_add(trace.stuck.len().max(1), Ordering::SeqCst);
        drop(handles);
    } else {
        for jh in handles {
            let _ = jh.join();
        }
    }
    let results: Vec<Vec<BRes>> = results.iter().map(|r| r.lock().unwrap().clone()).collect();
    let regs = reginfo
        .lock()
        .unwrap()
        .iter()
        .map(|(r, (k, f))| (*r, (*k, *f, h.entries(*r), h.completions(*r))))
        .collect();
    let overflow = h.overflow.load(Ordering::SeqCst);
    BExec { trace, results, regs, overflow }
}

fn walk_tags<'a>(t: &'a Tag, out: &mut Vec<&'a Tag>) {
    out.push(t);
    if let DepObs::Got(d) = &t.dep {
        walk_tags(d, out);
    }
}

/// Oracles of part B on one finished (or hung) execution.
pub fn judge(prog: &Program, ex: &BExec) -> Option<BViol> {
    // 1. every thread terminates
    if ex.trace.hang {
        let who = ex.trace.stuck.first().copied().unwrap_or(0);
        let done = ex.results[who].len();
        let (opname, shape) = match prog.threads[who].get(done) {
            Some(BOp::Get(k)) => (format!("get {}", k), k.shape()),
            Some(BOp::Reg { key, .. }) => (format!("registration of {}", key), key.shape()),
            Some(BOp::RegCover { .. }) => ("registration of unrelated keys".to_string(), "typed"),
            None => ("thread end".to_string(), "typed"),
        };
        let rule = if prog.cyclic { "cycle_hang_cross_thread" } else { "hang" };
        return Some(BViol {
            rule,
            shape,
            detail: format!(
                "threads {:?} never returned (parked inside the container, no runnable thread left for {} ms); thread {} is stuck in `{}`{}",
                ex.trace.stuck,
                HANG.as_millis(),
                who,
                opname,
                if prog.cyclic { "; a dependency cycle must be reported by a panic, not by a hang" } else { "" }
            ),
        });
    }
    if ex.overflow {
        return Some(BViol {
            rule: "cycle_stack_overflow",
            shape: "typed",
            detail: "resolution recursed through the factories without bound (stack overflow)".into(),
        });
    }
    // registrations of each key: setup ones and the ones made by threads
    let mut key_regs: HashMap<Key, Vec<u64>> = HashMap::new();
    for (r, (k, _, _, _)) in &ex.regs {
        key_regs.entry(*k).or_default().push(*r);
    }
    let mut all_tags: Vec<(&Tag, bool, usize)> = Vec::new(); // (tag, top-level, ptr)
    for (i, th) in prog.threads.iter().enumerate() {
        let mut own_latest: HashMap<Key, u64> = HashMap::new();
        for (j, op) in th.iter().enumerate() {
            let res = match ex.results[i].get(j) {
                Some(r) => r,
                None => {
                    return Some(BViol { rule: "hang", shape: "typed", detail: format!("thread {} has no result for op {}", i, j) })
                }
            };
            match (op, res) {
                (BOp::Reg { key, .. }, BRes::RegDone(v)) => {
                    own_latest.insert(*key, v[0]);
                }
                (BOp::RegCover { first, .. }, BRes::RegDone(v)) => {
                    for (x, r) in v.iter().enumerate() {
                        own_latest.insert(Key::new(TY_B, first + x as u16), *r);
                    }
                }
                (BOp::Reg { key, .. }, BRes::Panic(m)) | (BOp::Get(key), BRes::Panic(m)) if !prog.cyclic => {
                    let rule = if m.contains("ircular") { "false_cycle" } else { "unexpected_panic" };
                    return Some(BViol { rule, shape: key.shape(), detail: format!("thread {} op {} on {} panicked: {}", i, j, key, m) });
                }
                (BOp::RegCover { .. }, BRes::Panic(m)) => {
                    return Some(BViol { rule: "unexpected_panic", shape: "typed", detail: format!("thread {} registration panicked: {}", i, m) });
                }
                (BOp::Get(_), BRes::Panic(_)) => {} // cyclic program: required
                (BOp::Get(key), BRes::Missing) => {
                    let rule = if prog.cyclic { "cycle_no_panic" } else { "registered_resolves" };
                    return Some(BViol { rule, shape: key.shape(), detail: format!("thread {}: get {} returned None for a registered key", i, key) });
                }
                (BOp::Get(key), BRes::Got { ptr, tag }) => {
                    if prog.cyclic {
                        return Some(BViol {
                            rule: "cycle_no_panic",
                            shape: key.shape(),
                            detail: format!("thread {}: get {} is on a dependency cycle but returned instance #{}", i, key, tag.id),
                        });
                    }
                    if tag.at.key != *key {
                        return Some(BViol {
                            rule: "no_alias",
                            shape: key.shape(),
                            detail: format!("thread {}: get {} returned an instance registered under {}", i, key, tag.at.key),
                        });
                    }
                    // latest registration: a thread's own registration of the key precedes its get
                    let others_register = prog.threads.iter().enumerate().any(|(o, t)| {
                        o != i && t.iter().any(|op| matches!(op, BOp::Reg { key: k, .. } if k == key))
                    });
                    if let Some(r) = own_latest.get(key) {
                        if !others_register && tag.reg != *r {
                            return Some(BViol {
                                rule: "latest_wins",
                                shape: key.shape(),
                                detail: format!("thread {} registered {} as r{} and then resolved it, but got an instance of r{}", i, key, r, tag.reg),
                            });
                        }
                    }
                    if !key_regs.get(key).map_or(false, |v| v.contains(&tag.reg)) {
                        return Some(BViol { rule: "no_alias", shape: key.shape(), detail: format!("thread {}: get {} returned an instance of foreign registration r{}", i, key, tag.reg) });
                    }
                    all_tags.push((tag, true, *ptr));
                    if let DepObs::Got(d) = &tag.dep {
                        let mut v = vec![];
                        walk_tags(d, &mut v);
                        for t in v {
                            all_tags.push((t, false, 0));
                        }
                    }
                }
                (o, r) => panic!("harness inconsistency: op {:?} result {:?}", o, r),
            }
        }
    }
    // singleton: one instance, factory completed at most once; transient: fresh every time
    let mut regs: Vec<&u64> = ex.regs.keys().collect();
    regs.sort();
    for r in regs {
        let (key, form, _entries, completions) = ex.regs[r];
        let tags: Vec<&(&Tag, bool, usize)> = all_tags.iter().filter(|t| t.0.reg == *r).collect();
        if form.is_singleton_like() {
            let ids: HashSet<u64> = tags.iter().map(|t| t.0.id).collect();
            let ptrs: HashSet<usize> = tags.iter().filter(|t| t.1).map(|t| t.2).collect();
            if form != Form::Instance && completions > 1 {
                return Some(BViol {
                    rule: "singleton_factory_once",
                    shape: key.shape(),
                    detail: format!("factory of singleton r{} ({}) completed {} times", r, key, completions),
                });
            }
            if ids.len() > 1 || ptrs.len() > 1 {
                let mut v: Vec<_> = ids.into_iter().collect();
                v.sort();
                return Some(BViol {
                    rule: "singleton_same_instance",
                    shape: key.shape(),
                    detail: format!("callers of singleton r{} ({}) got different instances: ids {:?}, {} distinct addresses", r, key, v, ptrs.len()),
                });
            }
        } else {
            let top: Vec<u64> = tags.iter().filter(|t| t.1).map(|t| t.0.id).collect();
            let distinct: HashSet<u64> = top.iter().copied().collect();
            if distinct.len() != top.len() {
                return Some(BViol { rule: "transient_fresh", shape: key.shape(), detail: format!("transient r{} ({}) handed the same instance to two resolutions", r, key) });
            }
            if tags.iter().all(|t| t.1) && completions as usize != top.len() {
                return Some(BViol {
                    rule: "transient_factory_per_get",
                    shape: key.shape(),
                    detail: format!("transient r{} ({}) was resolved {} times but its factory completed {} times", r, key, top.len(), completions),
                });
            }
        }
    }
    None
}

pub fn overlapped(tr: &Trace) -> bool {
    tr.hang
        || tr.decisions.iter().any(|d| {
            let started = d.options.iter().filter(|o| o.1 != "start" && o.1 != "end").count() + d.blocked.len();
            let inside = d.options.iter().any(|o| o.1.starts_with("factory")) || !d.blocked.is_empty();
            started >= 2 && inside
        })
}

pub fn outcome_hash(ex: &BExec) -> u64 {
    let mut regs: Vec<u64> = vec![];
    let mut ids: Vec<u64> = vec![];
    let mut b: Vec<u8> = vec![];
    let ord = |v: &mut Vec<u64>, x: u64| -> u8 {
        match v.iter().position(|y| *y == x) {
            Some(p) => p as u8,
            None => {
                v.push(x);
                (v.len() - 1) as u8
            }
        }
    };
    for th in &ex.results {
        b.push(0xff);
        for r in th {
            match r {
                BRes::RegDone(_) => b.push(1),
                BRes::Missing => b.push(2),
                BRes::Got { tag, .. } => {
                    b.push(3);
                    b.push(ord(&mut regs, tag.reg));
                    b.push(ord(&mut ids, tag.id));
                }
                BRes::Panic(_) => b.push(4),
            }
        }
    }
    if ex.trace.hang {
        b.push(9);
        for s in &ex.trace.stuck {
            b.push(*s as u8);
        }
    }
    vcommon::fnv(&b)
}

pub fn describe(prog: &Program, ex: &BExec) -> Vec<String> {
    let mut v = vec![];
    for (i, d) in ex.trace.decisions.iter().enumerate() {
        v.push(format!(
            "decision {:>2}: run T{} from gate `{}`   (waiting at gates: {}; blocked inside the container: {:?})",
            i,
            d.chosen,
            d.options.iter().find(|o| o.0 == d.chosen).map(|o| o.1.as_str()).unwrap_or("?"),
            d.options.iter().map(|o| format!("T{}@{}", o.0, o.1)).collect::<Vec<_>>().join(" "),
            d.blocked
        ));
        if !d.unexpected.is_empty() {
            v.push(format!("             (the harness had not predicted that {:?} would block)", d.unexpected));
        }
    }
    if ex.trace.hang {
        v.push(format!("HANG: threads {:?} are parked inside the container and no thread is runnable", ex.trace.stuck));
    }
    let mut ptrs: Vec<usize> = vec![];
    for (i, th) in ex.results.iter().enumerate() {
        for (j, r) in th.iter().enumerate() {
            let op = match &prog.threads[i][j] {
                BOp::Get(k) => format!("get {}", k),
                BOp::Reg { form, key, .. } => format!("{} {}", form.word(), key),
                BOp::RegCover { n, .. } => format!("register {} unrelated keys", n),
            };
            let rs = match r {
                BRes::RegDone(x) => format!("registered (r{}{})", x[0], if x.len() > 1 { format!("..r{}", x[x.len() - 1]) } else { String::new() }),
                BRes::Missing => "None".into(),
                BRes::Got { tag, .. } => {
                    // instance ids depend on how far concurrently running registrations got:
                    // print the ordinal of the instance within this execution
                    let p = match ptrs.iter().position(|x| *x == tag.id as usize) {
                        Some(p) => p,
                        None => {
                            ptrs.push(tag.id as usize);
                            ptrs.len() - 1
                        }
                    };
                    format!("Some(instance i{} of r{})", p, tag.reg)
                }
                BRes::Panic(m) => format!("panic: {}", m),
            };
            v.push(format!("T{} op{}: {} => {}", i, j, op, rs));
        }
        if th.len() < prog.threads[i].len() {
            v.push(format!("T{}: did not finish op{}", i, th.len()));
        }
    }
    let mut regs: Vec<_> = ex.regs.iter().filter(|(_, x)| x.1 != Form::Instance).collect();
    regs.sort_by_key(|x| *x.0);
    for (r, (k, f, e, c)) in regs {
        v.push(format!("factory of r{} ({} {}): entered {} times, completed {} times", r, f.word(), k, e, c));
    }
    v
}

// ---------------------------------------------------------------------------------------------
// exploration

#[derive(Clone, Debug)]
pub struct BFound {
    pub schedule: Vec<usize>,
    pub rule: String,
    pub shape: String,
    pub detail: String,
}

#[derive(Default)]
pub struct BOut {
    pub executions: u64,
    pub states: u64,
    pub transitions: u64,
    pub nontrivial: u64,
    pub hangs: u64,
    pub outcomes: HashSet<u64>,
    pub found: Vec<BFound>,
    pub caps: Vec<String>,
    pub samples: Vec<(Vec<usize>, serde_json::Value)>,
    pub machinery: Vec<String>,
}

impl BOut {
    fn add_found(&mut self, f: BFound) {
        if let Some(o) = self.found.iter_mut().find(|o| o.rule == f.rule && o.shape == f.shape) {
            if (f.schedule.len(), &f.schedule) < (o.schedule.len(), &o.schedule) {
                *o = f;
            }
        } else {
            self.found.push(f);
        }
    }
    fn add_sample(&mut self, s: (Vec<usize>, serde_json::Value)) {
        self.samples.push(s);
        // prefer overlapping schedules that are longest, deterministic order
        self.samples.sort_by(|a, b| (b.0.len(), &a.0).cmp(&(a.0.len(), &b.0)));
        self.samples.truncate(2);
    }
    pub fn merge(&mut self, o: BOut) {
        self.executions += o.executions;
        self.states += o.states;
        self.transitions += o.transitions;
        self.nontrivial += o.nontrivial;
        self.hangs += o.hangs;
        self.outcomes.extend(o.outcomes);
        for f in o.found {
            self.add_found(f);
        }
        for c in o.caps {
            if !self.caps.contains(&c) {
                self.caps.push(c);
            }
        }
        for s in o.samples {
            self.add_sample(s);
        }
        self.machinery.extend(o.machinery);
    }
    pub fn to_json(&self) -> serde_json::Value {
        json!({
            "executions": self.executions, "states": self.states, "transitions": self.transitions, "nontrivial": self.nontrivial,
            "hangs": self.hangs, "outcomes": self.outcomes.iter().collect::<Vec<_>>(),
            "found": self.found.iter().map(|f| json!({"schedule": f.schedule, "rule": f.rule, "shape": f.shape, "detail": f.detail})).collect::<Vec<_>>(),
            "caps": self.caps, "samples": self.samples.iter().map(|s| json!({"schedule": s.0, "sample": s.1})).collect::<Vec<_>>(),
            "machinery": self.machinery,
        })
    }
    pub fn from_json(v: &serde_json::Value) -> Result<BOut, String> {
        let mut o = BOut::default();
        o.executions = v["executions"].as_u64().ok_or("executions")?;
        o.states = v["states"].as_u64().ok_or("states")?;
        o.transitions = v["transitions"].as_u64().ok_or("transitions")?;
        o.nontrivial = v["nontrivial"].as_u64().ok_or("nontrivial")?;
        o.hangs = v["hangs"].as_u64().unwrap_or(0);
        for x in v["outcomes"].as_array().ok_or("outcomes")? {
            o.outcomes.insert(x.as_u64().ok_or("outcome")?);
        }
        let us = |x: &serde_json::Value| -> Vec<usize> {
            x.as_array().map(|a| a.iter().filter_map(|y| y.as_u64()).map(|y| y as usize).collect()).unwrap_or_default()
        };
        for f in v["found"].as_array().ok_or("found")? {
            o.found.push(BFound {
                schedule: us(&f["schedule"]),
                rule: f["rule"].as_str().ok_or("rule")?.into(),
                shape: f["shape"].as_str().ok_or("shape")?.into(),
                detail: f["detail"].as_str().ok_or("detail")?.into(),
            });
        }
        o.caps = v["caps"].as_array().map(|a| a.iter().filter_map(|x| x.as_str().map(String::from)).collect()).unwrap_or_default();
        for s in v["samples"].as_array().cloned().unwrap_or_default() {
            o.samples.push((us(&s["schedule"]), s["sample"].clone()));
        }
        o.machinery = v["machinery"].as_array().map(|a| a.iter().filter_map(|x| x.as_str().map(String::from)).collect()).unwrap_or_default();
        Ok(o)
    }
}

/// one DFS node: run the schedule that follows `prefix` (option indices) and then always option 0;
/// returns the sibling prefixes that remain to be explored
pub fn run_node(prog: &Program, kind: ContKind, prefix: &[usize], out: &mut BOut) -> Vec<Vec<usize>> {
    let mut idx: Vec<usize> = vec![];
    let mut nopts: Vec<usize> = vec![];
    let mut choose = |i: usize, opts: &[(usize, String)]| -> Result<usize, String> {
        let k = if i < prefix.len() { prefix[i] } else { 0 };
        if k >= opts.len() {
            return Err(format!("decision {}: prefix wants option {} but only {} exist (schedule tree not deterministic)", i, k, opts.len()));
        }
        idx.push(k);
        nopts.push(opts.len());
        Ok(k)
    };
    let mut ex = execute(prog, kind, &mut choose);
    let mut more = vec![];
    // a schedule tree that is not reproduced (a thread misjudged as blocked on an overloaded
    // machine) is retried before it counts as a machinery failure
    let mut tries = 0;
    while ex.trace.diverged.is_some() && tries < 3 && !ex.trace.hang {
        tries += 1;
        idx.clear();
        nopts.clear();
        let mut choose = |i: usize, opts: &[(usize, String)]| -> Result<usize, String> {
            let k = if i < prefix.len() { prefix[i] } else { 0 };
            if k >= opts.len() {
                return Err(format!("decision {}: prefix wants option {} but only {} exist (schedule tree not deterministic)", i, k, opts.len()));
            }
            idx.push(k);
            nopts.push(opts.len());
            Ok(k)
        };
        ex = execute(prog, kind, &mut choose);
    }
    if let Some(e) = &ex.trace.machinery_error {
        out.machinery.push(e.clone());
        return more;
    }
    if let Some(d) = &ex.trace.diverged {
        out.machinery.push(d.clone());
        return more;
    }
    for i in prefix.len()..idx.len() {
        for alt in 1..nopts[i] {
            let mut p = idx[..i].to_vec();
            p.push(alt);
            more.push(p);
        }
    }
    out.executions += 1;
    out.states += (idx.len() - prefix.len().min(idx.len())) as u64 + if prefix.is_empty() { 1 } else { 0 };
    out.transitions += idx.len() as u64;
    let ov = overlapped(&ex.trace);
    if ov {
        out.nontrivial += 1;
    }
    if ex.trace.hang {
        out.hangs += 1;
    }
    out.outcomes.insert(outcome_hash(&ex));
    let schedule: Vec<usize> = ex.trace.decisions.iter().map(|d| d.chosen).collect();
    if let Some(v) = judge(prog, &ex) {
        out.add_found(BFound { schedule: schedule.clone(), rule: v.rule.into(), shape: v.shape.into(), detail: v.detail });
    } else if ov {
        out.add_sample((schedule.clone(), json!({"schedule": schedule, "execution": describe(prog, &ex)})));
    }
    more
}

/// Exhaustive DFS of the schedule tree, `workers` executions in flight (instance container only:
/// concurrent executions on the one global container would disturb each other's shard locks).
pub fn explore(
    prog: &Program,
    kind: ContKind,
    workers: usize,
    queue: Vec<Vec<usize>>,
    stop_at_hang: bool,
    max_exec: u64,
) -> (BOut, Vec<Vec<usize>>) {
    let workers = if kind == ContKind::Global { 1 } else { workers.max(1) };
    let q = Arc::new(Mutex::new(queue));
    let inflight = Arc::new(AtomicUsize::new(0));
    let stop = Arc::new(AtomicBool::new(false));
    let total = Arc::new(Mutex::new(BOut::default()));
    std::thread::scope(|s| {
        for _ in 0..workers {
            let (q, inflight, stop, total) = (q.clone(), inflight.clone(), stop.clone(), total.clone());
            s.spawn(move || loop {
                if stop.load(Ordering::SeqCst) {
                    break;
                }
                let item = {
                    let mut g = q.lock().unwrap();
                    let it = g.pop();
                    if it.is_some() {
                        inflight.fetch_add(1, Ordering::SeqCst);
                    }
                    it
                };
                let item = match item {
                    Some(i) => i,
                    None => {
                        if inflight.load(Ordering::SeqCst) == 0 {
                            break;
                        }
                        std::thread::sleep(std::time::Duration::from_millis(1));
                        continue;
                    }
                };
                let mut o = BOut::default();
                let more = run_node(prog, kind, &item, &mut o);
                let hung = o.hangs > 0;
                {
                    let mut g = q.lock().unwrap();
                    // reversed: the lowest alternative is popped first
                    for m in more.into_iter().rev() {
                        g.push(m);
                    }
                }
                let bad = !o.machinery.is_empty();
                let done = {
                    let mut t = total.lock().unwrap();
                    t.merge(o);
                    t.executions
                };
                if done >= max_exec {
                    stop.store(true, Ordering::SeqCst);
                }
                inflight.fetch_sub(1, Ordering::SeqCst);
                if bad || (hung && stop_at_hang) {
                    stop.store(true, Ordering::SeqCst);
                }
                if LEAKED_THREADS.load(Ordering::SeqCst) > MAX_LEAKED {
                    total.lock().unwrap().caps.push(format!("stopped: more than {} hung threads leaked", MAX_LEAKED));
                    stop.store(true, Ordering::SeqCst);
                }
            });
        }
    });
    let out = std::mem::take(&mut *total.lock().unwrap());
    let rest = std::mem::take(&mut *q.lock().unwrap());
    (out, rest)
}

/// replay of one schedule given as thread ids
pub fn replay_schedule(prog: &Program, kind: ContKind, schedule: &[usize]) -> (Option<BViol>, Vec<String>) {
    let mut choose = |i: usize, opts: &[(usize, String)]| -> Result<usize, String> {
        if i >= schedule.len() {
            return Ok(0);
        }
        opts.iter()
            .position(|o| o.0 == schedule[i])
            .ok_or_else(|| format!("decision {}: thread T{} is not waiting at a gate (options {:?})", i, schedule[i], opts))
    };
    let ex = execute(prog, kind, &mut choose);
    let mut log = describe(prog, &ex);
    if let Some(d) = &ex.trace.diverged {
        log.push(format!("schedule diverged: {}", d));
        return (None, log);
    }
    if let Some(e) = &ex.trace.machinery_error {
        log.push(format!("machinery error: {}", e));
        return (None, log);
    }
    let v = judge(prog, &ex);
    if let Some(v) = &v {
        log.push(format!("!! {}: {}", v.rule, v.detail));
    }
    (v, log)
}
