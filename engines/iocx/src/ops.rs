//! Operation alphabet of the IoC histories and its textual (replay) encoding.
//!
//! Text form (one op per string, used inside replay JSON):
//!   `inst A.n1`            add_instance_with_name::<A>("n1", ..)
//!   `single A`             add_singleton::<A>(factory)
//!   `single A -> B.n2`     ... whose factory resolves (B,"n2") from the same container
//!   `single A -> c1:A`     ... whose factory resolves A from container #1 of the world
//!   `trans B.n1`           add_transient_with_name
//!   `strait T`             add_singleton_trait::<dyn Tr>(factory returning Arc<dyn Tr>)
//!   `strait A`             add_singleton_trait::<A>(factory returning Arc<A>)   (sized I)
//!   `get T.n1`             get::<dyn Tr>(Some("n1"))
//! An optional `cN:` prefix selects the container of the world the op is applied to (default c0).

use std::fmt;

pub const TY_A: u8 = 0;
pub const TY_B: u8 = 1;
pub const TY_T: u8 = 2; // dyn Tr

#[derive(Clone, Copy, PartialEq, Eq, Hash, PartialOrd, Ord, Debug)]
pub struct Key {
    pub ty: u8,
    /// 0 = unnamed, 1 = "n1", 2 = "n2", k>=3 = "u<k>" (part B cover keys)
    pub name: u16,
}

impl Key {
    pub const fn new(ty: u8, name: u16) -> Key {
        Key { ty, name }
    }
    pub fn shape(&self) -> &'static str {
        if self.ty == TY_T {
            "trait"
        } else {
            "typed"
        }
    }
    pub fn name_string(&self) -> Option<String> {
        match self.name {
            0 => None,
            1 => Some("n1".into()),
            2 => Some("n2".into()),
            k => Some(format!("u{}", k)),
        }
    }
}

impl fmt::Display for Key {
    fn fmt(&self, f: &mut fmt::Formatter<'_>) -> fmt::Result {
        let t = match self.ty {
            TY_A => "A",
            TY_B => "B",
            _ => "T",
        };
        match self.name_string() {
            None => write!(f, "{}", t),
            Some(n) => write!(f, "{}.{}", t, n),
        }
    }
}

fn parse_key(s: &str) -> Result<Key, String> {
    let (t, n) = match s.split_once('.') {
        Some((t, n)) => (t, Some(n)),
        None => (s, None),
    };
    let ty = match t {
        "A" => TY_A,
        "B" => TY_B,
        "T" => TY_T,
        _ => return Err(format!("bad type in key `{}`", s)),
    };
    let name = match n {
        None => 0,
        Some("n1") => 1,
        Some("n2") => 2,
        Some(x) if x.starts_with('u') => x[1..].parse::<u16>().map_err(|e| e.to_string())?,
        Some(x) => return Err(format!("bad name `{}`", x)),
    };
    Ok(Key { ty, name })
}

#[derive(Clone, Copy, PartialEq, Eq, Hash, Debug)]
pub enum Form {
    Instance,
    Singleton,
    Transient,
    /// add_singleton_trait (factory hands out the Arc/Rc itself); for T this is the trait-object form
    SingletonTrait,
}

impl Form {
    pub fn word(&self) -> &'static str {
        match self {
            Form::Instance => "inst",
            Form::Singleton => "single",
            Form::Transient => "trans",
            Form::SingletonTrait => "strait",
        }
    }
    pub fn is_singleton_like(&self) -> bool {
        !matches!(self, Form::Transient)
    }
}

#[derive(Clone, Copy, PartialEq, Eq, Hash, PartialOrd, Ord, Debug)]
pub struct CKey {
    pub c: u8,
    pub key: Key,
}

impl fmt::Display for CKey {
    fn fmt(&self, f: &mut fmt::Formatter<'_>) -> fmt::Result {
        write!(f, "c{}:{}", self.c, self.key)
    }
}

#[derive(Clone, Copy, PartialEq, Eq, Hash, Debug)]
pub enum Op {
    Reg { c: u8, form: Form, key: Key, dep: Option<CKey> },
    Get { c: u8, key: Key },
}

impl Op {
    pub fn is_reg(&self) -> bool {
        matches!(self, Op::Reg { .. })
    }
}

impl fmt::Display for Op {
    fn fmt(&self, f: &mut fmt::Formatter<'_>) -> fmt::Result {
        match self {
            Op::Reg { c, form, key, dep } => {
                if *c != 0 {
                    write!(f, "c{}:", c)?;
                }
                write!(f, "{} {}", form.word(), key)?;
                if let Some(d) = dep {
                    if d.c == *c {
                        write!(f, " -> {}", d.key)?;
                    } else {
                        write!(f, " -> {}", d)?;
                    }
                }
                Ok(())
            }
            Op::Get { c, key } => {
                if *c != 0 {
                    write!(f, "c{}:", c)?;
                }
                write!(f, "get {}", key)
            }
        }
    }
}

fn split_cprefix(s: &str) -> (Option<u8>, &str) {
    if let Some(rest) = s.strip_prefix('c') {
        if let Some((n, tail)) = rest.split_once(':') {
            if let Ok(c) = n.parse::<u8>() {
                return (Some(c), tail);
            }
        }
    }
    (None, s)
}

pub fn parse_op(s: &str) -> Result<Op, String> {
    let s = s.trim();
    let (c, rest) = split_cprefix(s);
    let c = c.unwrap_or(0);
    let (word, tail) = rest.split_once(' ').ok_or_else(|| format!("bad op `{}`", s))?;
    let tail = tail.trim();
    if word == "get" {
        return Ok(Op::Get { c, key: parse_key(tail)? });
    }
    let form = match word {
        "inst" => Form::Instance,
        "single" => Form::Singleton,
        "trans" => Form::Transient,
        "strait" => Form::SingletonTrait,
        _ => return Err(format!("bad op word `{}`", word)),
    };
    let (k, dep) = match tail.split_once("->") {
        None => (tail, None),
        Some((k, d)) => {
            let d = d.trim();
            let (dc, dk) = split_cprefix(d);
            (k.trim(), Some(CKey { c: dc.unwrap_or(c), key: parse_key(dk)? }))
        }
    };
    Ok(Op::Reg { c, form, key: parse_key(k)?, dep })
}

pub fn ops_to_json(ops: &[Op]) -> serde_json::Value {
    serde_json::Value::Array(ops.iter().map(|o| serde_json::Value::String(o.to_string())).collect())
}

pub fn ops_from_json(v: &serde_json::Value) -> Result<Vec<Op>, String> {
    v.as_array()
        .ok_or("ops: not an array")?
        .iter()
        .map(|x| parse_op(x.as_str().ok_or("op: not a string")?))
        .collect()
}

#[derive(Clone, Copy, PartialEq, Eq, Hash, Debug)]
pub enum ContKind {
    Instance,
    Global,
    Local,
}

impl ContKind {
    pub fn word(&self) -> &'static str {
        match self {
            ContKind::Instance => "instance",
            ContKind::Global => "global",
            ContKind::Local => "local",
        }
    }
    pub fn parse(s: &str) -> Result<ContKind, String> {
        match s {
            "instance" => Ok(ContKind::Instance),
            "global" => Ok(ContKind::Global),
            "local" => Ok(ContKind::Local),
            _ => Err(format!("bad container kind `{}`", s)),
        }
    }
    pub fn is_sync(&self) -> bool {
        !matches!(self, ContKind::Local)
    }
}

/// All nine keys: {A,B,T} x {unnamed,n1,n2}, simplest first.
pub fn all_keys() -> Vec<Key> {
    let mut v = vec![];
    for name in 0..3u16 {
        for ty in [TY_A, TY_B, TY_T] {
            v.push(Key { ty, name });
        }
    }
    v
}

/// `flat` alphabet: every registration form x every key (no factory dependencies), `get` on every key.
/// Ordered simplest first (gets, then instances, singletons, transients, trait forms).
pub fn alphabet_flat(kind: ContKind) -> Vec<Op> {
    let keys = all_keys();
    let mut v = vec![];
    for k in &keys {
        v.push(Op::Get { c: 0, key: *k });
    }
    let forms: &[Form] = if kind == ContKind::Local {
        // LocalContainer has no add_instance
        &[Form::Singleton, Form::Transient, Form::SingletonTrait]
    } else {
        &[Form::Instance, Form::Singleton, Form::Transient, Form::SingletonTrait]
    };
    for f in forms {
        for k in &keys {
            if k.ty == TY_T && *f != Form::SingletonTrait {
                continue; // unsized: only the trait form exists
            }
            v.push(Op::Reg { c: 0, form: *f, key: *k, dep: None });
        }
    }
    v
}

/// keys of the `deps` alphabet: a named/unnamed pair of one type, a second type, the trait object
pub fn dep_keys() -> Vec<Key> {
    vec![Key::new(TY_A, 0), Key::new(TY_B, 0), Key::new(TY_T, 0), Key::new(TY_A, 1)]
}

/// `deps` alphabet: factories that resolve another key (including themselves = 1-cycle).
pub fn alphabet_deps(_kind: ContKind) -> Vec<Op> {
    let keys = dep_keys();
    let mut v = vec![];
    for k in &keys {
        v.push(Op::Get { c: 0, key: *k });
    }
    for k in &keys {
        let forms: &[Form] =
            if k.ty == TY_T { &[Form::SingletonTrait] } else { &[Form::Singleton, Form::Transient] };
        for f in forms {
            v.push(Op::Reg { c: 0, form: *f, key: *k, dep: None });
            for d in &keys {
                v.push(Op::Reg { c: 0, form: *f, key: *k, dep: Some(CKey { c: 0, key: *d }) });
            }
        }
    }
    v
}

/// `cross` alphabet over a world of two containers: factories of c0 resolve from c1 (and, where the
/// types allow it, factories of c1 resolve from c0, which makes genuine cross-container cycles).
pub fn alphabet_cross(kinds: &[ContKind]) -> Vec<Op> {
    let a = Key::new(TY_A, 0);
    let t = Key::new(TY_T, 0);
    let mut v = vec![];
    for c in 0..2u8 {
        for k in [a, t] {
            v.push(Op::Get { c, key: k });
        }
    }
    for k in [a, t] {
        let forms: &[Form] =
            if k.ty == TY_T { &[Form::SingletonTrait] } else { &[Form::Singleton, Form::Transient] };
        for f in forms {
            v.push(Op::Reg { c: 0, form: *f, key: k, dep: None });
            for d in [a, t] {
                v.push(Op::Reg { c: 0, form: *f, key: k, dep: Some(CKey { c: 1, key: d }) });
            }
        }
    }
    // a sync container's factory cannot capture a (non-Send) LocalContainer: skip that direction
    let back_ok = !(kinds[1].is_sync() && !kinds[0].is_sync());
    for k in [a, t] {
        let f = if k.ty == TY_T { Form::SingletonTrait } else { Form::Singleton };
        v.push(Op::Reg { c: 1, form: f, key: k, dep: None });
        if back_ok {
            v.push(Op::Reg { c: 1, form: f, key: k, dep: Some(CKey { c: 0, key: a }) });
        }
    }
    v
}
