//! Execution of one sequential history against real containers + the reference model.

use crate::harness::*;
use crate::model::*;
use crate::ops::*;
use std::sync::atomic::{AtomicU32, Ordering};
use std::sync::mpsc;
use std::sync::Arc;
use std::time::Duration;

pub const DEPTH_LIMIT: u32 = 40;
pub const CYCLE_BIT: u32 = 1 << 31;

#[derive(Clone, Copy, PartialEq, Eq, Debug)]
pub enum Res {
    Reg,
    Missing,
    /// (ordinal of the registration among those seen in this history, ordinal of the instance)
    Got(u8, u8),
    CyclePanic,
    Bad,
}

impl Res {
    pub fn text(&self) -> String {
        match self {
            Res::Reg => "ok".into(),
            Res::Missing => "None".into(),
            Res::Got(r, i) => format!("Some(instance i{} of registration r{})", i, r),
            Res::CyclePanic => "panic(cycle)".into(),
            Res::Bad => "VIOLATION".into(),
        }
    }
}

pub struct HistOut {
    pub steps: usize,
    pub viol: Option<(usize, Viol)>,
    pub results: Vec<Res>,
    pub nontrivial: bool,
    pub cycle_panics: u32,
    /// oracle mismatches after a caught cycle panic in the same history: recorded, not reported
    pub post_cycle_anomaly: Option<Viol>,
    pub log: Vec<String>,
}

impl HistOut {
    pub fn outcome_hash(&self) -> u64 {
        let mut b = Vec::with_capacity(self.results.len() * 3);
        for r in &self.results {
            match r {
                Res::Reg => b.push(1u8),
                Res::Missing => b.push(2),
                Res::Got(r, i) => {
                    b.push(3);
                    b.push(*r);
                    b.push(*i)
                }
                Res::CyclePanic => b.push(4),
                Res::Bad => b.push(5),
            }
        }
        vcommon::fnv(&b)
    }
}

/// containers + model; lives for one history (fresh mode) or for a whole chain (global container)
pub struct Session {
    pub world: World,
    pub model: Model,
    /// live registration -> (instance id, address) of its top-level observations (singleton-like)
    ptrs: std::collections::HashMap<u64, (u64, usize)>,
}

impl Session {
    pub fn new(kinds: &[ContKind], depth_limit: u32) -> Session {
        let h = Arc::new(H::new(depth_limit));
        Session { world: World::new(kinds, h, Ns::default()), model: Model::new(kinds.len()), ptrs: Default::default() }
    }
}

pub fn run_history(sess: &mut Session, ops: &[Op], cur_step: Option<&AtomicU32>, verbose: bool) -> HistOut {
    let mut out = HistOut {
        steps: 0,
        viol: None,
        results: Vec::with_capacity(ops.len()),
        nontrivial: false,
        cycle_panics: 0,
        post_cycle_anomaly: None,
        log: Vec::new(),
    };
    sess.world.clear_keep();
    let mut regs = 0u32;
    let mut reg_ord: Vec<u64> = Vec::new();
    let mut id_ord: Vec<u64> = Vec::new();
    for (i, op) in ops.iter().enumerate() {
        if let Some(cs) = cur_step {
            cs.store(i as u32, Ordering::Relaxed);
        }
        out.steps = i + 1;
        match *op {
            Op::Reg { c, form, key, dep } => {
                let (reg, inst) = sess.world.reg(c, form, key, dep);
                if let Some(old) = sess.model.on_reg(c, form, key, dep, reg, inst) {
                    sess.world.h.retire(old);
                    sess.ptrs.remove(&old);
                }
                regs += 1;
                out.results.push(Res::Reg);
                if verbose {
                    out.log.push(format!("{:<28} => registered as r{}", op.to_string(), reg));
                }
            }
            Op::Get { c, key } => {
                let ck = CKey { c, key };
                if let Some(cs) = cur_step {
                    // for the watchdog: does the model expect a cycle here? (bit 31)
                    if sess.model.expect_cycle(ck) {
                        cs.store(i as u32 | CYCLE_BIT, Ordering::Relaxed);
                    }
                }
                let wm = sess.world.h.watermark();
                let obs = sess.world.get(c, key);
                let mut verdict = sess.model.on_get(ck, &obs, wm, &sess.world.h);
                // same Arc / Rc: address identity for singleton-like providers
                if let (Ok(_), GetObs::Got { ptr, tag }) = (&verdict, &obs) {
                    if tag.form.is_singleton_like() {
                        match sess.ptrs.get(&tag.reg) {
                            Some((id0, p0)) if *id0 == tag.id && p0 != ptr => {
                                verdict = Err(Viol {
                                    rule: "singleton_same_instance",
                                    shape: key.shape(),
                                    detail: format!("get {}: same instance id #{} but a different allocation ({:#x} vs {:#x}): not ptr_eq", ck, tag.id, p0, ptr),
                                })
                            }
                            Some(_) => {}
                            None => {
                                sess.ptrs.insert(tag.reg, (tag.id, *ptr));
                            }
                        }
                    }
                }
                if verbose {
                    let o = match &obs {
                        GetObs::Missing => "None".to_string(),
                        GetObs::Got { ptr, tag } => format!("Some(#{} of r{} [{} {}] @{:#x}{})", tag.id, tag.reg, tag.form.word(), tag.at, ptr, dep_text(&tag.dep)),
                        GetObs::Panic { msg, .. } => format!("panic: {}", msg),
                    };
                    out.log.push(format!("{:<28} => {}", op.to_string(), o));
                }
                match verdict {
                    Ok(class) => {
                        let r = match (class, &obs) {
                            (GetClass::Missing, _) => Res::Missing,
                            (GetClass::CyclePanic, _) => {
                                out.cycle_panics += 1;
                                Res::CyclePanic
                            }
                            (GetClass::Got, GetObs::Got { tag, .. }) => {
                                if regs >= 2 {
                                    out.nontrivial = true;
                                }
                                let ro = ord(&mut reg_ord, tag.reg);
                                let io = ord(&mut id_ord, tag.id);
                                Res::Got(ro, io)
                            }
                            _ => unreachable!(),
                        };
                        out.results.push(r);
                    }
                    Err(v) => {
                        out.results.push(Res::Bad);
                        if verbose {
                            out.log.push(format!("  !! {}: {}", v.rule, v.detail));
                        }
                        if out.cycle_panics > 0 && !v.rule.starts_with("cycle_") {
                            // the statement does not promise anything about the container after a
                            // reported cycle: record, do not report
                            out.post_cycle_anomaly = Some(v);
                        } else {
                            out.viol = Some((i, v));
                        }
                        return out;
                    }
                }
            }
        }
    }
    out
}

fn ord(v: &mut Vec<u64>, x: u64) -> u8 {
    match v.iter().position(|y| *y == x) {
        Some(p) => p as u8,
        None => {
            v.push(x);
            (v.len() - 1) as u8
        }
    }
}

fn dep_text(d: &DepObs) -> String {
    match d {
        DepObs::NoDep => String::new(),
        DepObs::Missing => ", dep=None".into(),
        DepObs::Got(t) => format!(", dep=#{} of r{}{}", t.id, t.reg, dep_text(&t.dep)),
    }
}

pub enum Iso {
    Done(HistOut),
    /// the history did not return: step index at which it is stuck (| CYCLE_BIT if the model
    /// expected a dependency cycle there)
    Hang(u32),
}

/// Runs one history on fresh containers in a helper thread; a history that does not come back
/// within `timeout` is a hang (the helper thread is leaked).
pub fn run_isolated(kinds: &[ContKind], ops: &[Op], depth_limit: u32, timeout: Duration, verbose: bool) -> Iso {
    let (tx, rx) = mpsc::channel();
    let step = Arc::new(AtomicU32::new(0));
    let step2 = step.clone();
    let kinds = kinds.to_vec();
    let ops = ops.to_vec();
    std::thread::Builder::new()
        .name("iocx-iso".into())
        .stack_size(if depth_limit == 0 { 1 << 20 } else { 8 << 20 })
        .spawn(move || {
            let mut s = Session::new(&kinds, depth_limit);
            let o = run_history(&mut s, &ops, Some(&step2), verbose);
            let _ = tx.send(o);
            // containers dropped here, inside the helper
        })
        .expect("spawn");
    match rx.recv_timeout(timeout) {
        Ok(o) => Iso::Done(o),
        Err(_) => Iso::Hang(step.load(Ordering::SeqCst)),
    }
}

/// rule name for a hung step (`step` as published by run_history: index | CYCLE_BIT)
pub fn classify_hang(ops: &[Op], step: u32) -> (usize, &'static str, &'static str) {
    let cyc = step & CYCLE_BIT != 0;
    let i = ((step & !CYCLE_BIT) as usize).min(ops.len() - 1);
    match ops[i] {
        Op::Get { key, .. } => (i, if cyc { "cycle_hang" } else { "hang" }, key.shape()),
        Op::Reg { key, .. } => (i, "hang_in_registration", key.shape()),
    }
}
