//! seqx: exhaustive single-thread history exploration of the fibre channels (engine E2, channels part).
mod chan;
mod topic;

use chan::adapters::Flavour;
use chan::explore::{replay, Act, Cfg, Explorer, Stats};
use std::collections::BTreeSet;
use std::sync::atomic::{AtomicBool, AtomicU64, Ordering};
use std::sync::{Arc, Mutex};
use std::time::{Duration, Instant};
use vcommon::{Report, Scenario, Violation};

const PROPS: [&str; 7] = ["C01", "C02", "C03", "C04", "C05", "C06", "C09"];
fn props_for(cfg: &Cfg) -> Vec<String> {
    if cfg.flavour.is_broadcast() {
        ["C07", "C04", "C05", "C09"].iter().map(|s| s.to_string()).collect()
    } else {
        PROPS.iter().map(|s| s.to_string()).collect()
    }
}

fn prefixes(fl: Flavour, cap: Option<usize>, ta: bool, ra: bool) -> Vec<(String, Vec<Act>)> {
    use chan::api::Op;
    let mut v: Vec<(String, Vec<Act>)> = vec![];
    if fl.is_oneshot() {
        // the value already taken while a second sender handle is still alive (a receiver that awaits again
        // must be told Disconnected when that handle goes away), and a receive future pending before any send
        v.push(("taken-with-clone".into(), vec![Act::Tx(0, Op::Clone), Act::Tx(0, Op::TrySend), Act::Rx(0, Op::TryRecv)]));
        v.push(("rx-pending-2tx".into(), vec![Act::Tx(0, Op::Clone), Act::Rx(0, Op::RecvFut), Act::PollTask(false, 0)]));
        return v;
    }
    let fill: Vec<Act> = match cap {
        Some(c) if c > 0 => (0..c).map(|_| Act::Tx(0, Op::TrySend)).collect(),
        _ => vec![],
    };
    if let Some(c) = cap {
        if c > 0 {
            v.push(("full".into(), fill.clone()));
            let mut p = fill.clone();
            p.push(Act::Rx(0, Op::TryRecv));
            v.push(("full-minus-1".into(), p));
        }
    }
    if fl.multi_rx() && ra {
        v.push(("2rx-pending".into(), vec![Act::Rx(0, Op::Clone), Act::Rx(0, Op::RecvFut), Act::Rx(1, Op::RecvFut), Act::PollTask(false, 0), Act::PollTask(false, 1)]));
        v.push(("2rx-stream".into(), vec![Act::Rx(0, Op::Clone), Act::Rx(0, Op::PollNext), Act::Rx(1, Op::PollNext)]));
    }
    if ra {
        v.push(("rx-pending".into(), vec![Act::Rx(0, Op::RecvFut), Act::PollTask(false, 0)]));
    }
    if ta && cap.is_some() {
        let mut p = fill.clone();
        p.extend([Act::Tx(0, Op::SendFut), Act::PollTask(true, 0)]);
        v.push(("tx-pending".into(), p));
        if fl.multi_tx() {
            let mut p = fill.clone();
            p.extend([Act::Tx(0, Op::Clone), Act::Tx(0, Op::SendFut), Act::Tx(1, Op::SendFut), Act::PollTask(true, 0), Act::PollTask(true, 1)]);
            v.push(("2tx-pending".into(), p));
        }
    }
    v
}

fn configs(tier: &str) -> Vec<Cfg> {
    let mut v = vec![];
    let depth_env: Option<usize> = std::env::var("SEQX_DEPTH").ok().and_then(|s| s.parse().ok());
    let pdepth_env: Option<usize> = std::env::var("SEQX_PDEPTH").ok().and_then(|s| s.parse().ok());
    for fl in Flavour::ALL {
        for cap in fl.caps() {
            let kinds: Vec<(bool, bool)> = if fl.is_oneshot() { vec![(false, true)] } else { vec![(false, false), (true, true), (false, true), (true, false)] };
            for (ta, ra) in kinds {
                let warms: Vec<usize> = match (tier, cap) {
                    (_, Some(0)) => vec![0],
                    ("quick", None) => vec![0, 5],
                    // one warmed-up start per bounded capacity: the cursors have passed the end of the ring once
                    // (wrapped rings, recycled slots) before the explored history begins
                    ("quick", Some(c)) => vec![0, c + 1],
                    (_, Some(c)) => vec![0, c, 2 * c + 1],
                    (_, None) => vec![0, 3, 5, 9],
                };
                let (depth, slim, pdepth) = match tier {
                    "quick" => (4, true, 3),
                    _ => (5, false, 4),
                };
                let base = Cfg {
                    flavour: fl,
                    cap,
                    tx_async: ta,
                    rx_async: ra,
                    depth: depth_env.unwrap_or(depth),
                    warm: 0,
                    observers: true,
                    max_tx: if fl.multi_tx() { 2 } else { 1 },
                    max_rx: if fl.multi_rx() { 2 } else { 1 },
                    max_futs: 2,
                    slim,
                    prefix: vec![],
                    prefix_name: String::new(),
                    restrict: vec![],
                };
                for warm in warms {
                    v.push(Cfg { warm, ..base.clone() });
                }
                // more parked receivers than the (non-power-of-two) capacity, then a burst of sends
                if fl == Flavour::MpmcBounded && cap == Some(3) && ra {
                    use chan::api::Op;
                    let p = vec![Act::Rx(0, Op::RecvFut), Act::Rx(0, Op::RecvFut), Act::Rx(0, Op::RecvFut), Act::Rx(0, Op::RecvFut), Act::PollTask(false, 0)];
                    v.push(Cfg { depth: pdepth_env.unwrap_or(if tier == "quick" { 4 } else { 5 }), prefix: p, prefix_name: "4rx-pending".into(), max_futs: 4, restrict: vec![Op::TrySend, Op::TrySendBatch, Op::TryRecv, Op::Send], ..base.clone() });
                }
                // slab / chunk boundaries with two producers: small alphabet, deeper
                if matches!(fl, Flavour::MpscUnbounded | Flavour::MpmcUnbounded | Flavour::MpscBounded) && !ta && !ra {
                    use chan::api::Op;
                    for warm in [3usize, 4] {
                        let p = vec![Act::Tx(0, Op::Clone)];
                        v.push(Cfg { warm, depth: if tier == "quick" { 6 } else { 8 }, prefix: p, prefix_name: format!("2tx-w{}", warm), restrict: vec![Op::TrySend, Op::TrySendBatch, Op::TryRecv, Op::TryRecvBatch], ..base.clone() });
                    }
                }
                for (name, p) in prefixes(fl, cap, ta, ra) {
                    if fl.is_broadcast() && matches!(name.as_str(), "2rx-pending" | "2tx-pending") {
                        continue;
                    }
                    v.push(Cfg { depth: pdepth_env.unwrap_or(pdepth), prefix: p, prefix_name: name, max_futs: 3, ..base.clone() });
                }
            }
        }
    }
    if let Ok(f) = std::env::var("SEQX_ONLY") {
        v.retain(|c| c.name().contains(&f));
    }
    v
}

/// History in flight, for the crash handler: a memory error inside the library (caught by
/// AddressSanitizer or by the allocator) kills this child process; the parent turns the history
/// printed here into a violation and restarts the configuration with that history skipped.
static CUR_LEN: std::sync::atomic::AtomicUsize = std::sync::atomic::AtomicUsize::new(0);
static mut CUR: [[u8; 3]; 64] = [[0; 3]; 64];

const ALL_OPS: [chan::api::Op; 22] = {
    use chan::api::Op::*;
    [TrySend, Send, TrySendBatch, TrySendBatchMut, SendBatch, SendBatchMut, SendFut, SendBatchFut, TryRecv, Recv, RecvTimeout0, TryRecvBatch, TryRecvBatchMut, RecvBatch, RecvBatchMut, RecvFut, RecvBatchFut, PollNext, Close, Clone, Convert, Len]
};
fn enc(a: &Act) -> [u8; 3] {
    let opi = |op: &chan::api::Op| ALL_OPS.iter().position(|o| o == op).unwrap() as u8;
    match a {
        Act::Tx(i, op) => [0, *i as u8, opi(op)],
        Act::Rx(i, op) => [1, *i as u8, opi(op)],
        Act::DropTx(i) => [2, *i as u8, 0],
        Act::DropRx(i) => [3, *i as u8, 0],
        Act::PollTask(t, i) => [4, *t as u8, *i as u8],
        Act::DropFut(i) => [5, *i as u8, 0],
        Act::Migrate(t, i) => [6, *t as u8, *i as u8],
    }
}
fn dec(b: [u8; 3]) -> Act {
    match b[0] {
        0 => Act::Tx(b[1] as usize, ALL_OPS[b[2] as usize]),
        1 => Act::Rx(b[1] as usize, ALL_OPS[b[2] as usize]),
        2 => Act::DropTx(b[1] as usize),
        3 => Act::DropRx(b[1] as usize),
        4 => Act::PollTask(b[1] != 0, b[2] as usize),
        6 => Act::Migrate(b[1] != 0, b[2] as usize),
        _ => Act::DropFut(b[1] as usize),
    }
}
fn publish_current(h: &[Act]) {
    let n = h.len().min(64);
    CUR_LEN.store(0, Ordering::SeqCst);
    for (k, a) in h.iter().take(n).enumerate() {
        unsafe { CUR[k] = enc(a) };
    }
    CUR_LEN.store(n, Ordering::SeqCst);
}

extern "C" fn on_crash(sig: i32) {
    // async-signal-safe: only write(2) and _exit
    let n = CUR_LEN.load(Ordering::SeqCst);
    let mut buf = [0u8; 32 + 64 * 6 + 2];
    let head = b"\nCRASH-HISTORY-HEX ";
    let mut k = 0;
    for b in head {
        buf[k] = *b;
        k += 1;
    }
    let hexd = b"0123456789abcdef";
    for i in 0..n {
        let t = unsafe { CUR[i] };
        for x in t {
            buf[k] = hexd[(x >> 4) as usize];
            buf[k + 1] = hexd[(x & 15) as usize];
            k += 2;
        }
    }
    buf[k] = b'\n';
    k += 1;
    unsafe {
        libc::write(2, buf.as_ptr() as *const libc::c_void, k);
        libc::_exit(if sig == libc::SIGABRT { 3 } else { 4 });
    }
}

struct Progress {
    nodes: AtomicU64,
    current: Mutex<Vec<Act>>,
    done: AtomicBool,
}

/// compact form of a history (the minimal failing history is part of the reported fingerprint)
fn witness(h: &[Act]) -> String {
    use chan::api::Op::*;
    let o = |op: &chan::api::Op| match op {
        TrySend => "ts", Send => "s", TrySendBatch => "tsb", TrySendBatchMut => "tsbm", SendBatch => "sb", SendBatchMut => "sbm", SendFut => "sf", SendBatchFut => "sbf",
        TryRecv => "tr", Recv => "r", RecvTimeout0 => "rt", TryRecvBatch => "trb", TryRecvBatchMut => "trbm", RecvBatch => "rb", RecvBatchMut => "rbm", RecvFut => "rf", RecvBatchFut => "rbf",
        PollNext => "pn", Close => "x", Clone => "c", Convert => "~", Len => "len",
    };
    h.iter()
        .map(|a| match a {
            Act::Tx(i, op) => format!("S{}.{}", i, o(op)),
            Act::Rx(i, op) => format!("R{}.{}", i, o(op)),
            Act::DropTx(i) => format!("S{}.d", i),
            Act::DropRx(i) => format!("R{}.d", i),
            Act::PollTask(t, i) => format!("{}{}.poll", if *t { "S" } else { "R" }, i),
            Act::DropFut(i) => format!("f{}.d", i),
            Act::Migrate(t, i) => format!("{}{}.mig", if *t { "S" } else { "R" }, i),
        })
        .collect::<Vec<_>>()
        .join(",")
}

/// run one configuration in its own thread with a hang watchdog; histories that hang are recorded
/// as violations, added to a skip list, and the configuration is restarted (at most 3 times)
fn run_cfg(cfg: &Cfg, skip0: &BTreeSet<Vec<Act>>) -> (Scenario, Vec<Violation>) {
    let t0 = Instant::now();
    let mut skip: BTreeSet<Vec<Act>> = skip0.clone();
    let mut hang_viol: Vec<Violation> = vec![];
    let mut caps: Vec<String> = vec![];
    loop {
        let prog = Arc::new(Progress { nodes: AtomicU64::new(0), current: Mutex::new(vec![]), done: AtomicBool::new(false) });
        let (txr, rxr) = std::sync::mpsc::channel::<(Stats, Vec<(chan::explore::Fail, Vec<Act>)>)>();
        let cfg2 = cfg.clone();
        let prog2 = prog.clone();
        let skip2 = skip.clone();
        std::thread::Builder::new()
            .stack_size(64 << 20)
            .spawn(move || {
                let hb = |h: &[Act]| {
                    prog2.nodes.fetch_add(1, Ordering::Relaxed);
                    *prog2.current.lock().unwrap() = h.to_vec();
                    publish_current(h);
                };
                let mut ex = Explorer { cfg: &cfg2, stats: Stats::default(), fails: vec![], skip: &skip2, heartbeat: &hb };
                ex.run();
                publish_current(&[]);
                prog2.done.store(true, Ordering::SeqCst);
                let _ = txr.send((ex.stats, ex.fails));
            })
            .unwrap();
        let mut last = 0u64;
        let mut last_change = Instant::now();
        let result = loop {
            match rxr.recv_timeout(Duration::from_millis(200)) {
                Ok(r) => break Some(r),
                Err(std::sync::mpsc::RecvTimeoutError::Timeout) => {
                    let n = prog.nodes.load(Ordering::Relaxed);
                    if n != last {
                        last = n;
                        last_change = Instant::now();
                    } else if last_change.elapsed() > Duration::from_millis(3000) {
                        // suspected hang: confirm by replaying the history in flight on a fresh thread
                        let hist = prog.current.lock().unwrap().clone();
                        let cfg3 = cfg.clone();
                        let (ptx, prx) = std::sync::mpsc::channel();
                        let h2 = hist.clone();
                        std::thread::Builder::new().stack_size(64 << 20).spawn(move || {
                            let _ = replay(&cfg3, &h2);
                            let _ = ptx.send(());
                        }).unwrap();
                        if prx.recv_timeout(Duration::from_secs(10)).is_ok() {
                            // the history completes: the worker is merely slow (machine load)
                            last_change = Instant::now();
                        } else if prog.nodes.load(Ordering::Relaxed) == last && *prog.current.lock().unwrap() == hist {
                            break None;
                        } else {
                            last_change = Instant::now();
                        }
                    }
                }
                Err(_) => break None,
            }
        };
        match result {
            Some((stats, fails)) => {
                let mut viol = hang_viol;
                for (f, hist) in fails {
                    let (log, _) = replay(cfg, &hist);
                    viol.push(Violation {
                        property: f.prop.clone(),
                        fingerprint: format!("{}@{}", f.fingerprint, witness(&hist)),
                        message: format!("{} | history: {:?}", f.message, log),
                        scenario: cfg.name(),
                        replay: serde_json::json!({"kind":"chan","cfg": cfg, "history": hist}),
                    });
                }
                let mut bound = std::collections::BTreeMap::new();
                bound.insert("depth".to_string(), serde_json::json!(cfg.depth));
                bound.insert("start_state_prefix".to_string(), serde_json::json!(format!("{:?}", cfg.prefix)));
                bound.insert("warmup_pairs".to_string(), serde_json::json!(cfg.warm));
                bound.insert("max_handles_per_side".to_string(), serde_json::json!([cfg.max_tx, cfg.max_rx]));
                bound.insert("max_live_futures".to_string(), serde_json::json!(cfg.max_futs));
                bound.insert("batch_size".to_string(), serde_json::json!(2));
                bound.insert("max_model_states".to_string(), serde_json::json!(stats.max_model_states));
                let sc = Scenario {
                    name: cfg.name(),
                    properties: props_for(cfg),
                    executions: stats.nodes,
                    states: stats.nodes,
                    transitions: stats.steps,
                    distinct_outcomes: stats.outcomes.len() as u64,
                    nontrivial: stats.nontrivial,
                    nontrivial_rule: "history with ≥1 successful send and ≥1 of: successful receive, Full, Closed, Disconnected, partial batch, Pending poll".into(),
                    exhaustive: caps.is_empty(),
                    caps,
                    bound,
                    samples: stats.samples,
                    wall_s: t0.elapsed().as_secs_f64(),
                };
                return (sc, viol);
            }
            None => {
                // hang: the worker is stuck inside the library
                let hist = prog.current.lock().unwrap().clone();
                let last_op = hist.last().map(|a| format!("{:?}", a)).unwrap_or_default();
                let opk = match hist.last() {
                    Some(Act::Tx(_, op)) | Some(Act::Rx(_, op)) => format!("{:?}", op),
                    Some(Act::PollTask(..)) => "poll".into(),
                    Some(Act::DropFut(_)) => "drop_future".into(),
                    Some(Act::Migrate(..)) => "migrate".into(),
                    Some(Act::DropTx(_)) => "drop_sender".into(),
                    Some(Act::DropRx(_)) => "drop_receiver".into(),
                    None => "init".into(),
                };
                hang_viol.push(Violation {
                    property: "C05".into(),
                    fingerprint: format!("seqx/{}/C05.blocked_while_enabled/{}@{}", cfg.flavour.name(), opk, witness(&hist)),
                    message: format!("single-threaded history never returned (last action {}): an operation the reference model says cannot wait blocked or spun forever; history {:?}", last_op, hist),
                    scenario: cfg.name(),
                    replay: serde_json::json!({"kind":"chan","cfg": cfg, "history": hist, "hang": true}),
                });
                skip.insert(hist);
                caps.push(format!("history hung and was skipped (subtree unexplored): {}", last_op));
                if skip.len() > skip0.len() + 6 {
                    let sc = Scenario { name: cfg.name(), properties: props_for(cfg), exhaustive: false, caps, wall_s: t0.elapsed().as_secs_f64(), ..Default::default() };
                    return (sc, hang_viol);
                }
            }
        }
    }
}

/// parent side: run one configuration in a child process; a child killed by a memory error is
/// turned into a violation (history from its crash handler) and restarted with that history skipped
fn run_cfg_in_child(cfg: &Cfg) -> (Scenario, Vec<Violation>) {
    static SEQ: AtomicU64 = AtomicU64::new(0);
    let id = SEQ.fetch_add(1, Ordering::SeqCst);
    let dir = std::env::temp_dir();
    let _ = dir;
    let base = format!("{}/seqx-{}-{}", tmp_dir(), std::process::id(), id);
    let cfg_path = format!("{}.cfg.json", base);
    let out_path = format!("{}.out.json", base);
    let skip_path = format!("{}.skip.json", base);
    std::fs::write(&cfg_path, serde_json::to_string(cfg).unwrap()).unwrap();
    let exe = std::env::current_exe().unwrap();
    let mut skip: Vec<Vec<Act>> = vec![];
    let mut crash_viol: Vec<Violation> = vec![];
    let mut caps: Vec<String> = vec![];
    let t0 = Instant::now();
    let result = loop {
        std::fs::write(&skip_path, serde_json::to_string(&skip).unwrap()).unwrap();
        let _ = std::fs::remove_file(&out_path);
        let outp = std::process::Command::new(&exe)
            .args(["run-one", &cfg_path, &out_path, &skip_path])
            .env("ASAN_OPTIONS", "abort_on_error=1:detect_leaks=0:halt_on_error=1:symbolize=0:allocator_may_return_null=1:malloc_context_size=0:quarantine_size_mb=8:fast_unwind_on_malloc=1")
            .stdout(std::process::Stdio::null())
            .stderr(std::process::Stdio::piped())
            .output()
            .expect("spawn child");
        if let Ok(txt) = std::fs::read_to_string(&out_path) {
            if let Ok(v) = serde_json::from_str::<serde_json::Value>(&txt) {
                let sc: Scenario = serde_json::from_value(v["scenario"].clone()).unwrap();
                let vs: Vec<Violation> = serde_json::from_value(v["violations"].clone()).unwrap();
                break Some((sc, vs));
            }
        }
        // the child died: find the history in flight
        let err = String::from_utf8_lossy(&outp.stderr).to_string();
        let hexline = err.lines().rev().find(|l| l.starts_with("CRASH-HISTORY-HEX"));
        let summary = err.lines().find(|l| l.contains("ERROR: AddressSanitizer") || l.contains("malloc") || l.contains("free()") || l.contains("corrupted")).unwrap_or("process killed by a signal").to_string();
        let Some(hexline) = hexline else {
            caps.push(format!("child died without a crash record (status {:?}): {}", outp.status, err.lines().last().unwrap_or("")));
            break None;
        };
        let hx = hexline.trim_start_matches("CRASH-HISTORY-HEX").trim();
        let bytes: Vec<u8> = (0..hx.len() / 2).map(|i| u8::from_str_radix(&hx[2 * i..2 * i + 2], 16).unwrap_or(0)).collect();
        let hist: Vec<Act> = bytes.chunks(3).filter(|c| c.len() == 3).map(|c| dec([c[0], c[1], c[2]])).collect();
        let opk = match hist.last() {
            Some(Act::Tx(_, op)) | Some(Act::Rx(_, op)) => format!("{:?}", op),
            Some(Act::PollTask(..)) => "poll".into(),
            Some(Act::DropFut(_)) => "drop_future".into(),
            Some(Act::Migrate(..)) => "migrate".into(),
            Some(Act::DropTx(_)) => "drop_sender".into(),
            Some(Act::DropRx(_)) => "drop_receiver".into(),
            None => "init".into(),
        };
        crash_viol.push(Violation {
            property: "C09".into(),
            fingerprint: format!("seqx/{}/C09.memory_error/{}@{}", cfg.flavour.name(), opk, witness(&hist)),
            message: format!("the process died with a memory error while executing (or tearing down) this history: {} | history {:?}", summary.trim(), hist),
            scenario: cfg.name(),
            replay: serde_json::json!({"kind":"chan","cfg": cfg, "history": hist, "crash": true}),
        });
        caps.push(format!("history crashed the process and was skipped (subtree unexplored): {:?}", hist.last()));
        if skip.contains(&hist) || skip.len() >= 12 {
            break None;
        }
        skip.push(hist);
    };
    for pth in [&cfg_path, &out_path, &skip_path] {
        let _ = std::fs::remove_file(pth);
    }
    match result {
        Some((mut sc, mut vs)) => {
            if !caps.is_empty() {
                sc.exhaustive = false;
                sc.caps.extend(caps);
            }
            vs.extend(crash_viol);
            (sc, vs)
        }
        None => (
            Scenario { name: cfg.name(), properties: props_for(cfg), exhaustive: false, caps, wall_s: t0.elapsed().as_secs_f64(), ..Default::default() },
            crash_viol,
        ),
    }
}

fn run_topic_suite(tier: &str, out: &str, jobs: usize) -> ! {
    let cfgs = topic::configs(tier);
    let queue = Arc::new(Mutex::new(cfgs.into_iter().rev().collect::<Vec<_>>()));
    let results: Arc<Mutex<Vec<(Scenario, Vec<Violation>)>>> = Arc::new(Mutex::new(Vec::new()));
    let exe = std::env::current_exe().unwrap();
    let mut hs = vec![];
    for w in 0..jobs {
        let q = queue.clone();
        let res = results.clone();
        let exe = exe.clone();
        hs.push(std::thread::spawn(move || {
            let mut n = 0;
            loop {
                let c = { q.lock().unwrap().pop() };
                let Some(c) = c else { break };
                n += 1;
                let base = format!("{}/topic-{}-{}-{}", tmp_dir(), std::process::id(), w, n);
                let cp = format!("{}.cfg.json", base);
                let op = format!("{}.out.json", base);
                std::fs::write(&cp, serde_json::to_string(&c).unwrap()).unwrap();
                let st = std::process::Command::new(&exe).args(["run-one-topic", &cp, &op]).stderr(std::process::Stdio::piped()).output().unwrap();
                let r = std::fs::read_to_string(&op).ok().and_then(|t| serde_json::from_str::<serde_json::Value>(&t).ok());
                let _ = std::fs::remove_file(&cp);
                let _ = std::fs::remove_file(&op);
                match r {
                    Some(v) => {
                        let sc: Scenario = serde_json::from_value(v["scenario"].clone()).unwrap();
                        let vs: Vec<Violation> = serde_json::from_value(v["violations"].clone()).unwrap();
                        res.lock().unwrap().push((sc, vs));
                    }
                    None => {
                        let err = String::from_utf8_lossy(&st.stderr).to_string();
                        res.lock().unwrap().push((Scenario { name: c.name(), properties: vec!["C08".into()], exhaustive: false, caps: vec![format!("child died ({:?}): {}", st.status, err.lines().last().unwrap_or(""))], ..Default::default() }, vec![]));
                    }
                }
            }
        }));
    }
    for h in hs {
        h.join().unwrap();
    }
    let mut rep = Report::new("seqx-topic", tier);
    let mut rs = std::mem::take(&mut *results.lock().unwrap());
    rs.sort_by(|a, b| a.0.name.cmp(&b.0.name));
    // one finding per class (rule/op): minimal witness
    let mut best: std::collections::BTreeMap<String, Violation> = std::collections::BTreeMap::new();
    let mut died = false;
    for (sc, vs) in rs {
        if sc.executions == 0 {
            died = true;
        }
        rep.scenarios.push(sc);
        for v in vs {
            let class = v.fingerprint.split('@').next().unwrap().to_string();
            let key = |x: &Violation| (x.fingerprint.split('@').nth(1).unwrap_or("").matches(',').count(), x.scenario.clone(), x.fingerprint.clone());
            match best.get(&class) {
                Some(old) if key(old) <= key(&v) => {}
                _ => {
                    best.insert(class, v);
                }
            }
        }
    }
    rep.violations = best.into_values().collect();
    rep.write(out);
    std::process::exit(if died { 3 } else { 0 });
}

fn tmp_dir() -> String {
    // scratch files live under /verif/target (never /tmp)
    let exe = std::env::current_exe().unwrap();
    let mut d = exe.clone();
    while d.pop() {
        if d.file_name().map(|f| f == "target").unwrap_or(false) {
            let t = d.join("tmp-seqx");
            let _ = std::fs::create_dir_all(&t);
            return t.to_string_lossy().to_string();
        }
    }
    let _ = std::fs::create_dir_all("target/tmp-seqx");
    "target/tmp-seqx".into()
}

fn main() {
    let args: Vec<String> = std::env::args().collect();
    // violations are expected to panic inside catch_unwind: keep stderr quiet
    std::panic::set_hook(Box::new(|_| {}));
    if std::env::var("SEQX_TRACE").is_ok() {
        chan::explore::TRACE.store(true, Ordering::Relaxed);
    }
    unsafe {
        libc::signal(libc::SIGABRT, on_crash as usize);
        libc::signal(libc::SIGSEGV, on_crash as usize);
        libc::signal(libc::SIGBUS, on_crash as usize);
    }
    match args.get(1).map(|s| s.as_str()) {
        Some("run") => {
            let mut tier = "quick".to_string();
            let mut out = "report.json".to_string();
            let mut jobs = 16usize;
            let mut space: Option<String> = None;
            let mut suite = "chan".to_string();
            let mut i = 2;
            while i < args.len() {
                match args[i].as_str() {
                    "--tier" => { tier = args[i + 1].clone(); i += 1; }
                    "--out" => { out = args[i + 1].clone(); i += 1; }
                    "--jobs" => { jobs = args[i + 1].parse().unwrap(); i += 1; }
                    "--props" => { i += 1; }
                    "--space" => { space = Some(args[i + 1].clone()); i += 1; }
                    "--suite" => { suite = args[i + 1].clone(); i += 1; }
                    _ => {}
                }
                i += 1;
            }
            if suite == "topic" {
                run_topic_suite(&tier, &out, jobs);
            }
            let cfgs = configs(space.as_deref().unwrap_or(&tier));
            let queue = Arc::new(Mutex::new(cfgs.into_iter().rev().collect::<Vec<_>>()));
            let results = Arc::new(Mutex::new(Vec::new()));
            let mut hs = vec![];
            for _ in 0..jobs {
                let q = queue.clone();
                let res = results.clone();
                hs.push(std::thread::spawn(move || loop {
                    let c = { q.lock().unwrap().pop() };
                    let Some(c) = c else { break };
                    let r = run_cfg_in_child(&c);
                    if std::env::var("SEQX_VERBOSE").is_ok() {
                        eprintln!("{} nodes={} viol={} {:.1}s", r.0.name, r.0.executions, r.1.len(), r.0.wall_s);
                    }
                    if r.0.executions == 0 && r.1.is_empty() && r.0.caps.is_empty() {
                        continue; // start-state prefix not applicable to this flavour/handle mix
                    }
                    res.lock().unwrap().push(r);
                }));
            }
            for h in hs {
                h.join().unwrap();
            }
            let mut rep = Report::new("seqx", &tier);
            let mut rs = std::mem::take(&mut *results.lock().unwrap());
            rs.sort_by(|a, b| a.0.name.cmp(&b.0.name));
            // one finding per class (flavour / rule / operation): the minimal witness over all scenarios
            let mut best: std::collections::BTreeMap<String, Violation> = std::collections::BTreeMap::new();
            for (sc, vs) in rs {
                rep.scenarios.push(sc);
                for v in vs {
                    let class = v.fingerprint.split('@').next().unwrap().to_string();
                    let key = |x: &Violation| (x.fingerprint.split('@').nth(1).unwrap_or("").matches(',').count(), x.scenario.clone(), x.fingerprint.clone());
                    match best.get(&class) {
                        Some(old) if key(old) <= key(&v) => {}
                        _ => {
                            best.insert(class, v);
                        }
                    }
                }
            }
            rep.violations = best.into_values().collect();
            rep.violations.sort_by(|a, b| a.fingerprint.cmp(&b.fingerprint));
            rep.write(&out);
            // stuck worker threads (hangs) would keep the process alive
            std::process::exit(0);
        }
        Some("run-one-topic") => {
            let cfg: topic::Cfg = serde_json::from_str(&std::fs::read_to_string(&args[2]).unwrap()).unwrap();
            let (sc, viol) = topic::run_cfg(&cfg);
            std::fs::write(&args[3], serde_json::to_string(&serde_json::json!({"scenario": sc, "violations": viol})).unwrap()).unwrap();
            std::process::exit(0);
        }
        Some("run-one") => {
            // child: one configuration; args: cfg.json out.json
            let cfg: Cfg = serde_json::from_str(&std::fs::read_to_string(&args[2]).unwrap()).unwrap();
            let skip: Vec<Vec<Act>> = serde_json::from_str(&std::fs::read_to_string(&args[4]).unwrap()).unwrap();
            let skip: BTreeSet<Vec<Act>> = skip.into_iter().collect();
            let (sc, viol) = run_cfg(&cfg, &skip);
            let v = serde_json::json!({"scenario": sc, "violations": viol});
            std::fs::write(&args[3], serde_json::to_string(&v).unwrap()).unwrap();
            std::process::exit(0);
        }
        Some("replay") => {
            let txt = std::fs::read_to_string(&args[2]).expect("read replay");
            let v: serde_json::Value = serde_json::from_str(&txt).unwrap();
            let r = &v["replay"];
            if r["kind"] == "topic" {
                let cfg: topic::Cfg = serde_json::from_value(r["cfg"].clone()).unwrap();
                let hist: Vec<topic::Act> = serde_json::from_value(r["history"].clone()).unwrap();
                let (log, f) = topic::replay(&cfg, &hist);
                for (a, o) in &log { println!("  {:?} -> {:?}", a, o); }
                match f {
                    Some(f) => { println!("VIOLATION reproduced: {} / {} — {}", f.rule, f.op, f.msg); std::process::exit(1) }
                    None => { println!("no violation"); std::process::exit(0) }
                }
            }
            let cfg: Cfg = serde_json::from_value(r["cfg"].clone()).unwrap();
            let hist: Vec<Act> = serde_json::from_value(r["history"].clone()).unwrap();
            println!("replaying {} actions on {}", hist.len(), cfg.name());
            if r.get("crash").is_some() && std::env::var("SEQX_REPLAY_CHILD").is_err() {
                let st = std::process::Command::new(std::env::current_exe().unwrap()).args(["replay", &args[2]]).env("SEQX_REPLAY_CHILD", "1")
                    .env("ASAN_OPTIONS", "abort_on_error=1:detect_leaks=0:halt_on_error=1").status().unwrap();
                if st.success() { println!("history completed without a memory error: not reproduced (needs the ASan build to be deterministic)"); std::process::exit(0) }
                println!("child died ({:?}): memory error reproduced", st); std::process::exit(1);
            }
            if r.get("hang").is_some() {
                let (tx, rx) = std::sync::mpsc::channel();
                std::thread::spawn(move || { let x = replay(&cfg, &hist); let _ = tx.send(x.1.is_some()); });
                match rx.recv_timeout(Duration::from_secs(8)) {
                    Ok(_) => { println!("history returned: hang not reproduced"); std::process::exit(0) }
                    Err(_) => { println!("history hangs: reproduced"); std::process::exit(1) }
                }
            }
            let (log, f) = replay(&cfg, &hist);
            for (a, o) in &log { println!("  {:?} -> {:?}", a, o); }
            match f {
                Some(f) => { println!("VIOLATION reproduced: {} — {}", f.fingerprint, f.message); std::process::exit(1) }
                None => { println!("no violation"); std::process::exit(0) }
            }
        }
        _ => { eprintln!("usage: seqx run --tier quick|thorough --out FILE | seqx replay FILE"); std::process::exit(2) }
    }
}
