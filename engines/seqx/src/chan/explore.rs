//! Exhaustive depth-first enumeration of single-threaded operation / poll / drop histories on the
//! real channel objects, checked step by step against `model::Model`.
use super::adapters::{make, Flavour};
use super::api::*;
use super::bmodel::BModel;
use super::model::{FutSt, HSt, Mismatch, Model};
use serde::{Deserialize, Serialize};
use std::collections::BTreeSet;
use std::panic::{catch_unwind, AssertUnwindSafe};
use std::sync::atomic::{AtomicUsize, Ordering};
use std::sync::Arc;
use std::task::{Context, Poll, Wake, Waker};

#[derive(Clone, Debug, Serialize, Deserialize, PartialEq, Eq, Hash)]
pub struct Cfg {
    pub flavour: Flavour,
    pub cap: Option<usize>,
    pub tx_async: bool,
    pub rx_async: bool,
    pub depth: usize,
    /// warm-up: number of send+recv pairs executed before the history starts
    pub warm: usize,
    /// check len/is_empty/is_full on every live handle after every step
    pub observers: bool,
    pub max_tx: usize,
    pub max_rx: usize,
    pub max_futs: usize,
    /// restrict the alphabet (quick tier): drop the in-place/blocking batch duplicates
    pub slim: bool,
    /// start from a non-initial state: actions applied (and checked) before the enumeration starts
    #[serde(default)]
    pub prefix: Vec<Act>,
    #[serde(default)]
    pub prefix_name: String,
    /// when non-empty only these operations (plus handle drops) are in the alphabet
    #[serde(default)]
    pub restrict: Vec<Op>,
}
impl Cfg {
    pub fn name(&self) -> String {
        format!(
            "chan/{}/cap{}/{}{}/d{}/w{}{}{}{}",
            self.flavour.name(),
            self.cap.map(|c| c.to_string()).unwrap_or_else(|| "inf".into()),
            if self.tx_async { "A" } else { "S" },
            if self.rx_async { "A" } else { "S" },
            self.depth,
            self.warm,
            if self.observers { "/obs" } else { "" },
            if self.slim { "/slim" } else { "" },
            if self.prefix.is_empty() { String::new() } else { format!("/from-{}", self.prefix_name) }
        )
    }
}

#[derive(Clone, Copy, Debug, Serialize, Deserialize, PartialEq, Eq, Hash, PartialOrd, Ord)]
pub enum Act {
    Tx(usize, Op),
    Rx(usize, Op),
    DropTx(usize),
    DropRx(usize),
    /// the task owning handle (is_tx, idx) is scheduled: polls every live future of that handle (and its pending Stream)
    PollTask(bool, usize),
    /// the futures of handle (is_tx, idx) move to another task: from now on they are polled with a
    /// different waker, and the new owner polls them before it suspends
    Migrate(bool, usize),
    DropFut(usize),
}

struct CountWaker(AtomicUsize);
impl Wake for CountWaker {
    fn wake(self: Arc<Self>) {
        self.0.fetch_add(1, Ordering::SeqCst);
    }
    fn wake_by_ref(self: &Arc<Self>) {
        self.0.fetch_add(1, Ordering::SeqCst);
    }
}

struct FutSlot {
    fut: Option<Fut>,
    is_tx: bool,
    handle: usize,
    /// polled at least once
    polled: bool,
    /// last poll returned Pending
    pending: bool,
    kind: &'static str,
    /// payload id of a single-send future (broadcast model)
    val: Id,
}
#[derive(Default)]
struct StreamReg {
    pending: bool,
}
/// One task per handle: every waker handed out on behalf of that handle wakes the same task.
struct Task {
    wakes: Arc<CountWaker>,
    /// value of `wakes` when the task last started to run (a later wake makes it runnable again)
    seen: usize,
    /// the task has just taken over its futures (Migrate): it runs once more whatever happens
    must_run: bool,
}
impl Task {
    fn new() -> Task {
        Task { wakes: Arc::new(CountWaker(AtomicUsize::new(0))), seen: 0, must_run: false }
    }
    fn woken(&self) -> bool {
        self.must_run || self.wakes.0.load(Ordering::SeqCst) > self.seen
    }
    fn start_run(&mut self) {
        self.seen = self.wakes.0.load(Ordering::SeqCst);
        self.must_run = false;
    }
}

pub struct World {
    cfg: Cfg,
    // drop order matters: futures first (declared first)
    futs: Vec<FutSlot>,
    txs: Vec<Option<Box<dyn Tx>>>,
    rxs: Vec<Option<Box<dyn Rx>>>,
    streams: Vec<StreamReg>,
    tx_tasks: Vec<Task>,
    rx_tasks: Vec<Task>,
    pub model: Model,
    /// broadcast flavour: results are judged by this model; `model` only tracks handle states
    pub bmodel: Option<BModel>,
    next_id: Id,
    pub log: Vec<(Act, Out)>,
    /// what the last action was (for the stall fingerprint)
    last_kind: &'static str,
}

#[derive(Debug, Clone)]
pub struct Fail {
    pub prop: String,
    pub fingerprint: String,
    pub message: String,
}

fn opname(op: Op, is_async: bool) -> String {
    let base = match op {
        Op::TrySend => "try_send",
        Op::Send => "send",
        Op::TrySendBatch => "try_send_batch",
        Op::TrySendBatchMut => "try_send_batch_mut",
        Op::SendBatch => "send_batch",
        Op::SendBatchMut => "send_batch_mut",
        Op::SendFut => "send_future",
        Op::SendBatchFut => "send_batch_future",
        Op::TryRecv => "try_recv",
        Op::Recv => "recv",
        Op::RecvTimeout0 => "recv_timeout",
        Op::TryRecvBatch => "try_recv_batch",
        Op::TryRecvBatchMut => "try_recv_batch_mut",
        Op::RecvBatch => "recv_batch",
        Op::RecvBatchMut => "recv_batch_mut",
        Op::RecvFut => "recv_future",
        Op::RecvBatchFut => "recv_batch_future",
        Op::PollNext => "stream_poll_next",
        Op::Close => "close",
        Op::Clone => "clone",
        Op::Convert => "convert",
        Op::Len => "len",
    };
    format!("{}{}", if is_async { "async." } else { "sync." }, base)
}

impl World {
    pub fn new(cfg: &Cfg) -> World {
        bag_clear();
        ledger_reset();
        let (t, r) = make(cfg.flavour, cfg.cap, cfg.tx_async, cfg.rx_async);
        let mut w = World {
            cfg: cfg.clone(),
            futs: vec![],
            txs: vec![Some(t)],
            rxs: vec![Some(r)],
            streams: vec![StreamReg::default()],
            tx_tasks: vec![Task::new()],
            rx_tasks: vec![Task::new()],
            model: {
                let mut m = Model::new(cfg.cap, cfg.flavour.is_oneshot());
                m.stale_credit = cfg.flavour == Flavour::MpscBounded;
                m
            },
            bmodel: if cfg.flavour.is_broadcast() { Some(BModel::new(cfg.cap.unwrap_or(1))) } else { None },
            next_id: 1,
            log: vec![],
            last_kind: "init",
        };
        // warm-up: move the cursors w positions forward with plain try_send / try_recv pairs
        if !cfg.flavour.is_oneshot() && cfg.cap != Some(0) {
            for _ in 0..cfg.warm {
                let a = w.apply(Act::Tx(0, Op::TrySend));
                let b = w.apply(Act::Rx(0, Op::TryRecv));
                debug_assert!(a.is_ok() && b.is_ok());
            }
            w.log.clear();
        }
        w
    }
    fn fresh(&mut self) -> Tk {
        let id = self.next_id;
        self.next_id += 1;
        Tk::new(id)
    }
    fn live_futs_on(&self, is_tx: bool, h: usize) -> bool {
        self.futs.iter().any(|f| f.fut.is_some() && f.is_tx == is_tx && f.handle == h)
    }
    fn n_live_futs(&self) -> usize {
        self.futs.iter().filter(|f| f.fut.is_some()).count()
    }

    /// the alphabet enabled in the current state, simplest first
    pub fn enabled(&self) -> Vec<Act> {
        let mut acts = vec![];
        let slim = self.cfg.slim;
        let tx_ops = [Op::TrySend, Op::Send, Op::TrySendBatch, Op::TrySendBatchMut, Op::SendBatch, Op::SendBatchMut, Op::SendFut, Op::SendBatchFut, Op::Close, Op::Clone, Op::Convert];
        let rx_ops = [
            Op::TryRecv,
            Op::Recv,
            Op::RecvTimeout0,
            Op::TryRecvBatch,
            Op::TryRecvBatchMut,
            Op::RecvBatch,
            Op::RecvBatchMut,
            Op::RecvFut,
            Op::RecvBatchFut,
            Op::PollNext,
            Op::Close,
            Op::Clone,
            Op::Convert,
        ];
        for (i, t) in self.txs.iter().enumerate() {
            let Some(t) = t else { continue };
            let has_fut = self.live_futs_on(true, i);
            if has_fut && t.fut_exclusive() {
                continue;
            }
            for op in tx_ops {
                if !t.supports(op) {
                    continue;
                }
                if slim && matches!(op, Op::TrySendBatchMut | Op::SendBatchMut | Op::SendBatchFut) {
                    continue;
                }
                if !self.cfg.restrict.is_empty() && !self.cfg.restrict.contains(&op) {
                    continue;
                }
                let ok = match op {
                    Op::Send => self.bmodel.as_ref().map(|b| b.send_nonblocking(1)).unwrap_or_else(|| self.model.send_nonblocking(i, 1)),
                    Op::SendBatch | Op::SendBatchMut => self.bmodel.as_ref().map(|b| b.send_nonblocking(2)).unwrap_or_else(|| self.model.send_nonblocking(i, 2)),
                    Op::SendFut | Op::SendBatchFut => self.n_live_futs() < self.cfg.max_futs,
                    Op::Close | Op::Convert => !has_fut,
                    Op::Clone => self.txs.iter().filter(|x| x.is_some()).count() < self.cfg.max_tx && self.model.tx[i] == HSt::Open,
                    _ => true,
                };
                if ok {
                    acts.push(Act::Tx(i, op));
                }
            }
            if !has_fut {
                acts.push(Act::DropTx(i));
            }
        }
        for (i, r) in self.rxs.iter().enumerate() {
            let Some(r) = r else { continue };
            let has_fut = self.live_futs_on(false, i);
            if has_fut && r.fut_exclusive() {
                continue;
            }
            for op in rx_ops {
                if !r.supports(op) {
                    continue;
                }
                if slim && matches!(op, Op::TryRecvBatchMut | Op::RecvBatchMut | Op::RecvBatchFut) {
                    continue;
                }
                if !self.cfg.restrict.is_empty() && !self.cfg.restrict.contains(&op) {
                    continue;
                }
                let ok = match op {
                    Op::Recv | Op::RecvBatch | Op::RecvBatchMut => self.bmodel.as_ref().map(|b| b.recv_nonblocking(i)).unwrap_or_else(|| self.model.recv_nonblocking(i)),
                    Op::RecvFut | Op::RecvBatchFut => self.n_live_futs() < self.cfg.max_futs,
                    // Stream::poll_next needs `&mut` to the receiver: impossible while a future borrows it
                    Op::PollNext => !has_fut,
                    Op::Close | Op::Convert => !has_fut,
                    Op::Clone => self.rxs.iter().filter(|x| x.is_some()).count() < self.cfg.max_rx && self.model.rx[i] == HSt::Open,
                    _ => true,
                };
                if ok {
                    acts.push(Act::Rx(i, op));
                }
            }
            if !has_fut {
                acts.push(Act::DropRx(i));
            }
        }
        for i in 0..self.txs.len() {
            if self.live_futs_on(true, i) {
                acts.push(Act::PollTask(true, i));
            }
        }
        for i in 0..self.rxs.len() {
            if self.live_futs_on(false, i) || (self.streams[i].pending && self.rxs[i].is_some()) {
                acts.push(Act::PollTask(false, i));
            }
        }
        for (i, f) in self.futs.iter().enumerate() {
            if f.fut.is_some() {
                acts.push(Act::DropFut(i));
            }
        }
        if !self.cfg.slim || self.cfg.prefix_name.contains("pending") {
            for i in 0..self.txs.len() {
                if self.txs[i].is_some() && !self.tx_tasks[i].must_run && self.futs.iter().any(|f| f.fut.is_some() && f.pending && f.is_tx && f.handle == i) {
                    acts.push(Act::Migrate(true, i));
                }
            }
            for i in 0..self.rxs.len() {
                if self.rxs[i].is_some() && !self.rx_tasks[i].must_run && (self.futs.iter().any(|f| f.fut.is_some() && f.pending && !f.is_tx && f.handle == i) || self.streams[i].pending) {
                    acts.push(Act::Migrate(false, i));
                }
            }
        }
        acts
    }

    fn fail(&self, m: Mismatch, op: &str) -> Fail {
        // a value that was handed to a receive future which was then dropped, and that nobody has
        // received since, explains every later disagreement of this history: name that root cause
        if let Some(v) = self.model.orphaned() {
            if !(m.prop == "C04" && m.rule == "closed_handle_accepts") && m.rule != "cancelled_recv_loses_value" {
                return Fail {
                    prop: "C06".into(),
                    fingerprint: format!("seqx/{}/C06.cancelled_recv_loses_value/drop.recv_future", self.cfg.flavour.name()),
                    message: format!("value #{} was handed to a receive future that was dropped before completing; it was not put back (its send had reported success) and the channel now disagrees with the reference model: [{}.{} at {}] {}", v, m.prop, m.rule, op, m.detail),
                };
            }
        }
        Fail {
            prop: m.prop.to_string(),
            fingerprint: format!("seqx/{}/{}.{}/{}", self.cfg.flavour.name(), m.prop, m.rule, m.op.unwrap_or(op)),
            message: m.detail,
        }
    }

    /// apply one action to the real objects and to the model
    pub fn apply(&mut self, a: Act) -> Result<Out, Fail> {
        let r = catch_unwind(AssertUnwindSafe(|| self.apply_inner(a)));
        match r {
            Ok(x) => x,
            Err(p) => {
                let msg = if let Some(s) = p.downcast_ref::<String>() {
                    s.clone()
                } else if let Some(s) = p.downcast_ref::<&str>() {
                    s.to_string()
                } else {
                    "panic".to_string()
                };
                let op = match a {
                    Act::Tx(i, op) => opname(op, self.txs.get(i).and_then(|t| t.as_ref()).map(|t| t.is_async()).unwrap_or(false)),
                    Act::Rx(i, op) => opname(op, self.rxs.get(i).and_then(|t| t.as_ref()).map(|t| t.is_async()).unwrap_or(false)),
                    Act::PollTask(..) => "async.poll".to_string(),
                    Act::Migrate(..) => "migrate".to_string(),
                    Act::DropFut(i) => format!("drop.{}", self.futs[i].kind),
                    Act::DropTx(_) => "drop.sender".into(),
                    Act::DropRx(_) => "drop.receiver".into(),
                };
                self.log.push((a, Out::Panic(msg.clone())));
                Err(Fail { prop: "C01".into(), fingerprint: format!("seqx/{}/C01.panic/{}", self.cfg.flavour.name(), op), message: format!("operation panicked: {}", msg) })
            }
        }
    }

    fn apply_inner(&mut self, a: Act) -> Result<Out, Fail> {
        let (out, res): (Out, Result<(), (Mismatch, String)>) = match a {
            Act::Tx(i, op) => {
                let is_async = self.txs[i].as_ref().unwrap().is_async();
                let name = opname(op, is_async);
                self.last_kind = "send-side";
                match op {
                    Op::TrySend | Op::Send => {
                        let v = self.fresh();
                        let id = v.id;
                        let t = self.txs[i].as_ref().unwrap();
                        let out = if op == Op::TrySend { t.try_send(v) } else { t.send(v) };
                        let consumed = self.cfg.flavour.is_oneshot();
                        let r = match self.bmodel.as_mut() {
                            Some(b) => b.send1(id, &out, op == Op::TrySend, &name),
                            None => self.model.send1(i, id, &out, op == Op::TrySend, &name),
                        };
                        if consumed {
                            // oneshot: send(self) consumed the handle
                            self.txs[i] = None;
                            self.model.drop_tx(i);
                        }
                        (out, r.map_err(|m| (m, name)))
                    }
                    Op::TrySendBatch | Op::TrySendBatchMut | Op::SendBatch | Op::SendBatchMut => {
                        let vs = vec![self.fresh(), self.fresh()];
                        let ids: Vec<Id> = vs.iter().map(|t| t.id).collect();
                        let t = self.txs[i].as_ref().unwrap();
                        let (out, form) = match op {
                            Op::TrySendBatch => (t.try_send_batch(vs), 0),
                            Op::TrySendBatchMut => (t.try_send_batch_mut(vs), 1),
                            Op::SendBatch => (t.send_batch(vs), 2),
                            _ => (t.send_batch_mut(vs), 3),
                        };
                        let r = match self.bmodel.as_mut() {
                            Some(b) => b.send_batch(&ids, &out, &name),
                            None => self.model.send_batch(i, &ids, &out, form, &name),
                        };
                        (out, r.map_err(|m| (m, name)))
                    }
                    Op::SendFut => {
                        let v = self.fresh();
                        let id = v.id;
                        let fut = self.txs[i].as_ref().unwrap().send_fut(v).expect("send_fut");
                        let mi = self.model.new_fut(FutSt::Send { h: i, v: id, fired: false });
                        self.push_fut(mi, fut, true, i, "send_future");
                        self.futs[mi].val = id;
                        (Out::Unit, Ok(()))
                    }
                    Op::SendBatchFut => {
                        let vs = vec![self.fresh(), self.fresh()];
                        let ids: Vec<Id> = vs.iter().map(|t| t.id).collect();
                        let fut = self.txs[i].as_ref().unwrap().send_batch_fut(vs).expect("send_batch_fut");
                        let mi = self.model.new_fut(FutSt::SendBatch { h: i, vs: ids, sent: 0 });
                        self.push_fut(mi, fut, true, i, "send_batch_future");
                        (Out::Unit, Ok(()))
                    }
                    Op::Close => {
                        let out = self.txs[i].as_ref().unwrap().close();
                        let r = self.model.close_tx(i, &out);
                        if let Some(b) = self.bmodel.as_mut() {
                            b.gone_tx(HSt::Closed);
                        }
                        self.last_kind = "close-sender";
                        (out, r.map_err(|m| (m, name)))
                    }
                    Op::Clone => {
                        let c = self.txs[i].as_ref().unwrap().try_clone().expect("clone");
                        self.txs.push(Some(c));
                        self.tx_tasks.push(Task::new());
                        self.model.add_tx();
                        (Out::Unit, Ok(()))
                    }
                    Op::Convert => {
                        let t = self.txs[i].take().unwrap();
                        self.txs[i] = Some(t.convert());
                        (Out::Unit, Ok(()))
                    }
                    _ => unreachable!(),
                }
            }
            Act::Rx(i, op) => {
                let is_async = self.rxs[i].as_ref().unwrap().is_async();
                let name = opname(op, is_async);
                self.last_kind = "recv-side";
                let r = self.rxs[i].as_ref().unwrap();
                match op {
                    Op::TryRecv => {
                        let out = r.try_recv();
                        let m = match self.bmodel.as_mut() {
                            Some(b) => b.recv1(i, &out, &Out::RecvEmpty, &name),
                            None => self.model.recv1(i, &out, &Out::RecvEmpty, &name),
                        };
                        (out, m.map_err(|m| (m, name)))
                    }
                    Op::Recv => {
                        let out = r.recv();
                        let m = match self.bmodel.as_mut() {
                            Some(b) => b.recv1(i, &out, &Out::RecvEmpty, &name),
                            None => self.model.recv1(i, &out, &Out::RecvEmpty, &name),
                        };
                        (out, m.map_err(|m| (m, name)))
                    }
                    Op::RecvTimeout0 => {
                        let out = r.recv_timeout0();
                        let m = match self.bmodel.as_mut() {
                            Some(b) => b.recv1(i, &out, &Out::RecvTimeout, &name),
                            None => self.model.recv1(i, &out, &Out::RecvTimeout, &name),
                        };
                        (out, m.map_err(|m| (m, name)))
                    }
                    Op::TryRecvBatch | Op::TryRecvBatchMut | Op::RecvBatch | Op::RecvBatchMut => {
                        let out = match op {
                            Op::TryRecvBatch => r.try_recv_batch(2),
                            Op::TryRecvBatchMut => r.try_recv_batch_mut(2),
                            Op::RecvBatch => r.recv_batch(2),
                            _ => r.recv_batch_mut(2),
                        };
                        let m = match self.bmodel.as_mut() {
                            Some(b) => b.recv_batch(i, 2, &out, &Out::RecvEmpty, &name),
                            None => self.model.recv_batch(i, 2, &out, &Out::RecvEmpty, &name),
                        };
                        (out, m.map_err(|m| (m, name)))
                    }
                    Op::RecvFut => {
                        // a future on the handle supersedes an earlier Stream poll of the same handle
                        self.streams[i].pending = false;
                        let fut = r.recv_fut().expect("recv_fut");
                        let mi = self.model.new_fut(FutSt::Recv { h: i, got: None });
                        self.push_fut(mi, fut, false, i, "recv_future");
                        (Out::Unit, Ok(()))
                    }
                    Op::RecvBatchFut => {
                        self.streams[i].pending = false;
                        let fut = r.recv_batch_fut(2).expect("recv_batch_fut");
                        let mi = self.model.new_fut(FutSt::RecvBatch { h: i, max: 2, got: vec![] });
                        self.push_fut(mi, fut, false, i, "recv_batch_future");
                        (Out::Unit, Ok(()))
                    }
                    Op::PollNext => {
                        self.rx_tasks[i].start_run();
                        let w = self.rx_tasks[i].wakes.clone();
                        let out = r.poll_next(&Waker::from(w));
                        let m = match self.bmodel.as_mut() {
                            Some(b) => b.recv1(i, &out, &Out::Pending, &name),
                            None => self.model.recv1(i, &out, &Out::Pending, &name),
                        };
                        self.streams[i] = StreamReg { pending: out == Out::Pending };
                        (out, m.map_err(|m| (m, name)))
                    }
                    Op::Close => {
                        let out = r.close();
                        let m = self.model.close_rx(i, &out);
                        if let Some(b) = self.bmodel.as_mut() {
                            b.gone_rx(i, HSt::Closed);
                        }
                        self.last_kind = "close-receiver";
                        self.streams[i].pending = false;
                        (out, m.map_err(|m| (m, name)))
                    }
                    Op::Clone => {
                        let c = r.try_clone().expect("clone");
                        self.rxs.push(Some(c));
                        self.streams.push(StreamReg::default());
                        self.rx_tasks.push(Task::new());
                        self.model.add_rx();
                        if let Some(b) = self.bmodel.as_mut() {
                            b.add_rx_from(i);
                        }
                        (Out::Unit, Ok(()))
                    }
                    Op::Convert => {
                        let t = self.rxs[i].take().unwrap();
                        self.rxs[i] = Some(t.convert());
                        self.streams[i] = StreamReg::default();
                        (Out::Unit, Ok(()))
                    }
                    _ => unreachable!(),
                }
            }
            Act::DropTx(i) => {
                self.txs[i] = None;
                self.model.drop_tx(i);
                if let Some(b) = self.bmodel.as_mut() {
                    b.gone_tx(HSt::Gone);
                }
                self.last_kind = "drop-sender";
                (Out::Unit, Ok(()))
            }
            Act::DropRx(i) => {
                self.rxs[i] = None;
                self.streams[i] = StreamReg::default();
                self.model.drop_rx(i);
                if let Some(b) = self.bmodel.as_mut() {
                    b.gone_rx(i, HSt::Gone);
                }
                self.last_kind = "drop-receiver";
                (Out::Unit, Ok(()))
            }
            Act::PollTask(is_tx, h) => {
                self.last_kind = "poll";
                {
                    let t = if is_tx { &mut self.tx_tasks[h] } else { &mut self.rx_tasks[h] };
                    t.start_run();
                }
                if !is_tx && self.streams[h].pending && self.rxs[h].is_some() && !self.live_futs_on(false, h) {
                    let w = self.rx_tasks[h].wakes.clone();
                    let r = self.rxs[h].as_ref().unwrap();
                    let name = opname(Op::PollNext, true);
                    let out = r.poll_next(&Waker::from(w));
                    let m = match self.bmodel.as_mut() {
                        Some(b) => b.recv1(h, &out, &Out::Pending, &name),
                        None => self.model.recv1(h, &out, &Out::Pending, &name),
                    };
                    self.streams[h] = StreamReg { pending: out == Out::Pending };
                    self.log.push((a, out.clone()));
                    if let Err(m) = m {
                        return Err(self.fail(m, &name));
                    }
                    return Ok(out);
                }
                return self.poll_task_futs(is_tx, h, a);
            }
            Act::Migrate(is_tx, h) => {
                let t = if is_tx { &mut self.tx_tasks[h] } else { &mut self.rx_tasks[h] };
                *t = Task::new();
                t.must_run = true;
                self.last_kind = "migrate";
                (Out::Unit, Ok(()))
            }
            Act::DropFut(i) => {
                self.futs[i].fut = None;
                self.futs[i].pending = false;
                self.model.drop_fut(i);
                self.last_kind = "drop-future";
                self.log.push((a, Out::Unit));
                // dropping is something the owning task does while it runs; before it suspends again
                // it polls whatever else it is still awaiting on this handle
                let (is_tx, h) = (self.futs[i].is_tx, self.futs[i].handle);
                if self.futs.iter().any(|f| f.fut.is_some() && f.polled && f.is_tx == is_tx && f.handle == h) {
                    {
                        let t = if is_tx { &mut self.tx_tasks[h] } else { &mut self.rx_tasks[h] };
                        t.start_run();
                    }
                    self.poll_task_futs(is_tx, h, a)?;
                }
                return Ok(Out::Unit);
            }
        };
        self.log.push((a, out.clone()));
        match res {
            Ok(()) => Ok(out),
            Err((m, name)) => Err(self.fail(m, &name)),
        }
    }

    fn push_fut(&mut self, model_idx: usize, fut: Fut, is_tx: bool, handle: usize, kind: &'static str) {
        while self.futs.len() < model_idx {
            self.futs.push(FutSlot { fut: None, is_tx, handle, polled: false, pending: false, kind, val: 0 });
        }
        debug_assert_eq!(self.futs.len(), model_idx);
        self.futs.push(FutSlot { fut: Some(fut), is_tx, handle, polled: false, pending: false, kind, val: 0 });
    }

    /// poll every live future of the task that owns handle (is_tx, h), in slot order
    fn poll_task_futs(&mut self, is_tx: bool, h: usize, a: Act) -> Result<Out, Fail> {
        let w = if is_tx { self.tx_tasks[h].wakes.clone() } else { self.rx_tasks[h].wakes.clone() };
        let waker = Waker::from(w);
        let mut last = Out::Unit;
        for i in 0..self.futs.len() {
            if self.futs[i].fut.is_none() || self.futs[i].is_tx != is_tx || self.futs[i].handle != h {
                continue;
            }
            let mut cx = Context::from_waker(&waker);
            let slot = &mut self.futs[i];
            let out = match slot.fut.as_mut().unwrap().as_mut().poll(&mut cx) {
                Poll::Ready(o) => o,
                Poll::Pending => Out::Pending,
            };
            slot.polled = true;
            slot.pending = out == Out::Pending;
            let kind = slot.kind;
            if out != Out::Pending {
                slot.fut = None;
            }
            let name = format!("async.{}", kind);
            let (is_txf, hf, vf) = (self.futs[i].is_tx, self.futs[i].handle, self.futs[i].val);
            let m = match self.bmodel.as_mut() {
                Some(b) if is_txf => b.poll_send_fut(vf, &out, &name),
                Some(b) => b.poll_recv_fut(hf, &out, &name),
                None => self.model.poll_fut(i, &out, &name),
            };
            self.log.push((a, out.clone()));
            if let Err(m) = m {
                return Err(self.fail(m, &name));
            }
            last = out;
        }
        Ok(last)
    }

    /// len / is_empty / is_full on every live open handle (observation refines the model)
    pub fn observe(&mut self) -> Result<(), Fail> {
        if self.bmodel.is_some() {
            let mut lens = vec![];
            for (i, r) in self.rxs.iter().enumerate() {
                if let Some(r) = r {
                    if let Some(l) = r.len() {
                        lens.push((i, l, if r.is_async() { "receiver.async" } else { "receiver.sync" }));
                    }
                }
            }
            for (i, l, who) in lens {
                let res = self.bmodel.as_ref().unwrap().observe_rx_len(i, l, who);
                res.map_err(|m| self.fail(m, &format!("{}.len", who)))?;
            }
            return Ok(());
        }
        let mut checks: Vec<(String, Option<usize>, Option<bool>, Option<bool>, Option<Option<usize>>)> = vec![];
        for (i, t) in self.txs.iter().enumerate() {
            if let Some(t) = t {
                if self.model.tx[i] == HSt::Open && !(t.fut_exclusive() && self.live_futs_on(true, i)) {
                    checks.push((format!("sender{}", if t.is_async() { ".async" } else { ".sync" }), t.len(), t.is_empty(), t.is_full(), t.capacity()));
                }
            }
        }
        for (i, r) in self.rxs.iter().enumerate() {
            if let Some(r) = r {
                if self.model.rx[i] == HSt::Open && !(r.fut_exclusive() && self.live_futs_on(false, i)) {
                    checks.push((format!("receiver{}", if r.is_async() { ".async" } else { ".sync" }), r.len(), r.is_empty(), r.is_full(), r.capacity()));
                }
            }
        }
        for (who, len, is_empty, is_full, cap) in checks {
            if let Some(l) = len {
                self.model.observe_len(l, &who).map_err(|m| self.fail(m, &format!("{}.len", who)))?;
            }
            if let Some(b) = is_empty {
                self.model.check_flag("is_empty", b, &who).map_err(|m| self.fail(m, &format!("{}.is_empty", who)))?;
            }
            if let Some(b) = is_full {
                self.model.check_flag("is_full", b, &who).map_err(|m| self.fail(m, &format!("{}.is_full", who)))?;
            }
            if let Some(c) = cap {
                let expect = if self.model.rendezvous() { c == Some(0) || c.is_none() } else { c == self.model.cap };
                if !expect && self.model.cap.is_some() {
                    return Err(self.fail(Mismatch { prop: "C03", rule: "capacity_mismatch", detail: format!("{}.capacity() = {:?}, configured {:?}", who, c, self.model.cap), op: None }, &format!("{}.capacity", who)));
                }
            }
        }
        Ok(())
    }

    /// C06 idle-stall probe (destructive). A task (= the owner of one handle) is runnable when one
    /// of its wakers was invoked since it last ran, or when it holds a future it has never polled.
    /// If no task is runnable the executor is idle: then no pending future / stream may be able to
    /// complete, otherwise a wakeup was lost or swallowed.
    pub fn stall_probe(&mut self) -> Result<(), Fail> {
        let mut waiting: Vec<(bool, usize)> = vec![];
        let mut runnable = false;
        for is_tx in [true, false] {
            let n = if is_tx { self.txs.len() } else { self.rxs.len() };
            for h in 0..n {
                let alive = if is_tx { self.txs[h].is_some() } else { self.rxs[h].is_some() };
                if !alive {
                    continue;
                }
                let futs: Vec<&FutSlot> = self.futs.iter().filter(|f| f.fut.is_some() && f.is_tx == is_tx && f.handle == h).collect();
                let stream = !is_tx && self.streams[h].pending && self.model.rx[h] == HSt::Open;
                if futs.is_empty() && !stream {
                    continue;
                }
                let t = if is_tx { &self.tx_tasks[h] } else { &self.rx_tasks[h] };
                if t.woken() || futs.iter().any(|f| !f.polled) {
                    runnable = true;
                }
                waiting.push((is_tx, h));
            }
        }
        if runnable || waiting.is_empty() {
            return Ok(());
        }
        let last = self.last_kind;
        for (is_tx, h) in waiting {
            let before = self.log.len();
            let kinds: Vec<&'static str> = self.futs.iter().filter(|f| f.fut.is_some() && f.is_tx == is_tx && f.handle == h).map(|f| f.kind).collect();
            self.apply(Act::PollTask(is_tx, h))?;
            let ready: Vec<(usize, Out)> = self.log[before..].iter().map(|(_, o)| o.clone()).enumerate().filter(|(_, o)| *o != Out::Pending).collect();
            if let Some((k, o)) = ready.first() {
                let kind = kinds.get(*k).copied().unwrap_or("stream");
                return Err(Fail {
                    prop: "C06".into(),
                    fingerprint: format!("seqx/{}/C06.lost_wakeup/{}-after-{}", self.cfg.flavour.name(), kind, last),
                    message: format!("no task was runnable (no waker invoked since each task last ran, no unpolled future), yet polling the pending {} completes with {:?}: the wakeup it needed was never delivered (an executor that polls only woken tasks stalls here)", kind, o),
                });
            }
        }
        Ok(())
    }

    /// drop everything (futures, senders, receivers) and check the drop ledger (C09)
    pub fn teardown(mut self) -> Result<(), Fail> {
        let name = self.cfg.flavour.name();
        let r = catch_unwind(AssertUnwindSafe(|| {
            for f in self.futs.iter_mut() {
                f.fut = None;
            }
            for t in self.txs.iter_mut() {
                *t = None;
            }
            for r in self.rxs.iter_mut() {
                *r = None;
            }
        }));
        bag_clear();
        if r.is_err() {
            return Err(Fail { prop: "C09".into(), fingerprint: format!("seqx/{}/C09.panic_in_drop/teardown", name), message: "dropping the handles panicked".into() });
        }
        let led = ledger_snapshot();
        for (id, (created, dropped)) in led.iter().enumerate() {
            if created > dropped {
                return Err(Fail { prop: "C09".into(), fingerprint: format!("seqx/{}/C09.leak/teardown", name), message: format!("value #{} was never dropped although every handle and future is gone ({} created, {} dropped)", id, created, dropped) });
            }
            if dropped > created {
                return Err(Fail { prop: "C09".into(), fingerprint: format!("seqx/{}/C09.double_drop/teardown", name), message: format!("value #{} was dropped {} times ({} instances created)", id, dropped, created) });
            }
        }
        Ok(())
    }
}

pub static TRACE: std::sync::atomic::AtomicBool = std::sync::atomic::AtomicBool::new(false);

#[derive(Default, Clone, Debug)]
pub struct Stats {
    pub nodes: u64,
    pub steps: u64,
    pub nontrivial: u64,
    pub outcomes: BTreeSet<u64>,
    pub samples: Vec<serde_json::Value>,
    pub max_model_states: usize,
}

pub struct Explorer<'a> {
    pub cfg: &'a Cfg,
    pub stats: Stats,
    pub fails: Vec<(Fail, Vec<Act>)>,
    /// histories that hang (skip list, see main.rs watchdog)
    pub skip: &'a BTreeSet<Vec<Act>>,
    pub heartbeat: &'a (dyn Fn(&[Act]) + 'a),
}

pub fn replay(cfg: &Cfg, hist: &[Act]) -> (Vec<(Act, Out)>, Option<Fail>) {
    let mut w = World::new(cfg);
    for (k, a) in hist.iter().enumerate() {
        if let Err(f) = w.apply(*a) {
            let log = w.log.clone();
            std::mem::forget(w);
            let _ = k;
            return (log, Some(f));
        }
        if cfg.observers {
            if let Err(f) = w.observe() {
                let log = w.log.clone();
                std::mem::forget(w);
                return (log, Some(f));
            }
        }
    }
    if let Err(f) = w.stall_probe() {
        let log = w.log.clone();
        std::mem::forget(w);
        return (log, Some(f));
    }
    let log = w.log.clone();
    match w.teardown() {
        Ok(()) => (log, None),
        Err(f) => (log, Some(f)),
    }
}

impl<'a> Explorer<'a> {
    pub fn run(&mut self) {
        // the start-state prefix must be made of enabled actions; otherwise the scenario does not apply
        // (the alphabet restriction applies to the enumeration, not to the start-state prefix)
        let mut vcfg = self.cfg.clone();
        vcfg.restrict.clear();
        let mut w = World::new(&vcfg);
        for a in &self.cfg.prefix {
            if !w.enabled().contains(a) {
                std::mem::forget(w);
                return;
            }
            if w.apply(*a).is_err() {
                break;
            }
        }
        std::mem::forget(w);
        let mut hist = self.cfg.prefix.clone();
        self.node(&mut hist);
    }
    fn record(&mut self, f: Fail, hist: &[Act]) {
        // re-execute from scratch: the same history must fail the same way
        let (_, again) = replay(self.cfg, hist);
        let f = match again {
            Some(g) if g.fingerprint == f.fingerprint => f,
            other => Fail { prop: f.prop.clone(), fingerprint: format!("{}#UNSTABLE", f.fingerprint), message: format!("violation did not reproduce identically on replay (first: {}; replay: {:?})", f.message, other.map(|g| g.fingerprint)) },
        };
        if let Some(old) = self.fails.iter_mut().find(|(o, _)| o.fingerprint == f.fingerprint) {
            if hist.len() < old.1.len() {
                *old = (f, hist.to_vec());
            }
        } else {
            self.fails.push((f, hist.to_vec()));
        }
    }
    fn node(&mut self, hist: &mut Vec<Act>) {
        if self.skip.contains(hist) {
            return;
        }
        (self.heartbeat)(hist);
        let cfg = self.cfg;
        if TRACE.load(std::sync::atomic::Ordering::Relaxed) {
            eprintln!("TRACE {} {}", cfg.name(), serde_json::to_string(hist).unwrap());
        }
        let mut w = World::new(cfg);
        let n = hist.len();
        for (k, a) in hist.iter().enumerate() {
            let r = w.apply(*a);
            self.stats.steps += 1;
            let r = r.and_then(|o| if cfg.observers { w.observe().map(|_| o) } else { Ok(o) });
            if let Err(f) = r {
                if k + 1 != n && n != cfg.prefix.len() {
                    // ancestors were validated: a failure in the prefix means nondeterminism
                    panic!("replay diverged at step {} of {:?}: {:?}", k, hist, f);
                }
                std::mem::forget(w);
                self.stats.nodes += 1;
                self.record(f, hist);
                return;
            }
        }
        self.stats.nodes += 1;
        self.stats.max_model_states = self.stats.max_model_states.max(w.model.set.len());
        let acts = if n < cfg.prefix.len() + cfg.depth { w.enabled() } else { vec![] };
        // outcome hash + non-triviality
        let outs: Vec<&Out> = w.log.iter().map(|(_, o)| o).collect();
        let h = vcommon::fnv(format!("{:?}", outs).as_bytes());
        self.stats.outcomes.insert(h);
        let sent_ok = w.log.iter().any(|(_, o)| matches!(o, Out::SendOk | Out::BatchOk(_)) || matches!(o, Out::MutBatch { ok: Some(k), .. } if *k > 0) || matches!(o, Out::BatchErr{sent,..} if *sent>0));
        let interesting = w.log.iter().any(|(_, o)| matches!(o, Out::Recv(_) | Out::RecvBatch(_) | Out::SendFull(_) | Out::SendClosed(_) | Out::RecvDisc | Out::Pending | Out::BatchErr { .. } | Out::SendSent(_)));
        if sent_ok && interesting {
            self.stats.nontrivial += 1;
            if self.stats.samples.len() < 2 && n == cfg.prefix.len() + cfg.depth {
                self.stats.samples.push(serde_json::json!({"history": format!("{:?}", w.log)}));
            }
        }
        // destructive end-of-history oracles
        let r = w.stall_probe();
        match r {
            Err(f) => {
                std::mem::forget(w);
                self.record(f, hist);
                return;
            }
            Ok(()) => {
                if let Err(f) = w.teardown() {
                    self.record(f, hist);
                    return;
                }
            }
        }
        for a in acts {
            hist.push(a);
            self.node(hist);
            hist.pop();
        }
    }
}
