//! Reference model of the broadcast SPMC channel for non-overlapping (sequential) histories:
//! one FIFO view per receiver; a clone starts at its parent's position; the sender is held back by
//! the slowest open receiver; closing / dropping a receiver discards its view.
use super::api::{Id, Out};
use super::model::{HSt, Mismatch};
use std::collections::VecDeque;

fn mm(prop: &'static str, rule: &'static str, detail: String) -> Mismatch {
    Mismatch { prop, rule, detail, op: None }
}

#[derive(Clone, Debug)]
pub struct BModel {
    pub cap: usize,
    pub tx: HSt,
    pub rx: Vec<HSt>,
    pub qs: Vec<VecDeque<Id>>,
    pub saw_disc: Vec<bool>,
}

impl BModel {
    pub fn new(cap: usize) -> BModel {
        BModel { cap, tx: HSt::Open, rx: vec![HSt::Open], qs: vec![VecDeque::new()], saw_disc: vec![false] }
    }
    pub fn describe(&self) -> String {
        format!("cap={} sender={:?} receivers={:?} views={:?}", self.cap, self.tx, self.rx, self.qs)
    }
    fn any_rx(&self) -> bool {
        self.rx.iter().any(|h| *h == HSt::Open)
    }
    /// free slots as seen by the sender: limited by the slowest open receiver
    fn space(&self) -> usize {
        self.rx.iter().zip(self.qs.iter()).filter(|(h, _)| **h == HSt::Open).map(|(_, q)| self.cap.saturating_sub(q.len())).min().unwrap_or(0)
    }
    fn push(&mut self, v: Id) {
        for (h, q) in self.rx.iter().zip(self.qs.iter_mut()) {
            if *h == HSt::Open {
                q.push_back(v);
            }
        }
    }
    pub fn send_nonblocking(&self, n: usize) -> bool {
        self.space() >= n
    }
    pub fn recv_nonblocking(&self, h: usize) -> bool {
        !self.qs[h].is_empty() || self.tx != HSt::Open
    }
    pub fn add_rx_from(&mut self, parent: usize) -> usize {
        self.rx.push(HSt::Open);
        let q = self.qs[parent].clone();
        self.qs.push(q);
        self.saw_disc.push(false);
        self.rx.len() - 1
    }
    pub fn gone_rx(&mut self, h: usize, st: HSt) {
        self.rx[h] = st;
        self.qs[h].clear();
    }
    pub fn gone_tx(&mut self, st: HSt) {
        self.tx = st;
    }
    pub fn send1(&mut self, v: Id, out: &Out, carries: bool, op: &str) -> Result<(), Mismatch> {
        let back_ok = |b: &Option<Id>| match b {
            Some(x) if *x == v => Ok(()),
            None if !carries => Ok(()),
            other => Err(mm("C01", "value_not_returned", format!("{} error handed back {:?} instead of #{}", op, other, v))),
        };
        if self.tx == HSt::Closed {
            return match out {
                Out::SendOk => Err(mm("C04", "closed_handle_accepts", format!("{} on a sender that was itself closed returned Ok", op))),
                Out::SendClosed(b) | Out::SendFull(b) => back_ok(b),
                o => Err(mm("C04", "closed_handle_wrong_result", format!("{} on a closed sender returned {:?}", op, o))),
            };
        }
        if !self.any_rx() {
            return match out {
                Out::SendOk => Err(mm("C04", "send_after_receivers_gone", format!("{} returned Ok although every receiver is dropped/closed", op))),
                Out::SendClosed(b) => back_ok(b),
                o => Err(mm("C04", "wrong_error_after_receivers_gone", format!("{} returned {:?}, expected Closed", op, o))),
            };
        }
        if self.space() >= 1 {
            match out {
                Out::SendOk => {
                    self.push(v);
                    Ok(())
                }
                Out::SendFull(_) => Err(mm("C07", "false_full", format!("{} returned Full although the slowest receiver still has room; {}", op, self.describe()))),
                o => Err(mm("C07", "wrong_result", format!("{} returned {:?}; {}", op, o, self.describe()))),
            }
        } else {
            match out {
                Out::SendFull(b) => back_ok(b),
                Out::SendOk => Err(mm("C07", "unread_value_overwritten", format!("{} returned Ok although the slowest open receiver has {} unread values (capacity {}): an unread value would be overwritten; {}", op, self.cap, self.cap, self.describe()))),
                o => Err(mm("C07", "wrong_result", format!("{} returned {:?}; {}", op, o, self.describe()))),
            }
        }
    }
    pub fn send_batch(&mut self, vs: &[Id], out: &Out, op: &str) -> Result<(), Mismatch> {
        let n = vs.len();
        let (sent, left, is_err): (usize, Vec<Id>, bool) = match out {
            Out::BatchOk(k) => (*k, vs[(*k).min(n)..].to_vec(), false),
            Out::BatchErr { sent, unsent, .. } => (*sent, unsent.clone(), true),
            Out::MutBatch { ok: Some(k), left } => (*k, left.clone(), false),
            Out::MutBatch { ok: None, left } => (n - left.len().min(n), left.clone(), true),
            o => return Err(mm("C01", "wrong_result", format!("{} returned {:?}", op, o))),
        };
        if sent > n || left != vs[sent..].to_vec() {
            return Err(mm("C01", "batch_accounting", format!("{} on {:?}: sent={} left={:?}", op, vs, sent, left)));
        }
        if self.tx == HSt::Closed || !self.any_rx() {
            if sent > 0 {
                return Err(mm("C04", if self.tx == HSt::Closed { "closed_handle_accepts" } else { "send_after_receivers_gone" }, format!("{} sent {} items although the channel is closed for it", op, sent)));
            }
            if n > 0 && !is_err && !matches!(out, Out::MutBatch { .. }) {
                return Err(mm("C04", "closed_handle_accepts", format!("{} returned {:?} on a closed channel", op, out)));
            }
            return Ok(());
        }
        let k = self.space().min(n);
        if sent > k {
            return Err(mm("C07", "unread_value_overwritten", format!("{} sent {} items but the slowest receiver had room for {}; {}", op, sent, k, self.describe())));
        }
        if sent < k {
            return Err(mm("C07", "false_full", format!("{} sent only {} of {} although {} fit; {}", op, sent, n, k, self.describe())));
        }
        for v in &vs[..sent] {
            self.push(*v);
        }
        Ok(())
    }
    pub fn recv1(&mut self, h: usize, out: &Out, empty_out: &Out, op: &str) -> Result<(), Mismatch> {
        if self.rx[h] == HSt::Closed {
            return match out {
                Out::Recv(x) => Err(mm("C04", "closed_handle_accepts", format!("{} on a receiver that was itself closed returned #{}", op, x))),
                _ => Ok(()),
            };
        }
        if let Some(front) = self.qs[h].front().copied() {
            return match out {
                Out::Recv(x) if *x == front => {
                    self.qs[h].pop_front();
                    if self.saw_disc[h] {
                        return Err(mm("C04", "value_after_disconnected", format!("{} returned #{} after this receiver observed Disconnected", op, x)));
                    }
                    Ok(())
                }
                Out::Recv(x) if self.qs[h].contains(x) => Err(mm("C07", "order_or_skipped_value", format!("{} returned #{} but the next unread value of this receiver is #{}; {}", op, x, front, self.describe()))),
                Out::Recv(x) => Err(mm("C07", "phantom_or_duplicate_value", format!("{} returned #{} which is not in this receiver's view; {}", op, x, self.describe()))),
                Out::RecvDisc => Err(mm("C07", "disconnected_before_drain", format!("{} returned Disconnected while this receiver still has unread values; {}", op, self.describe()))),
                o => Err(mm("C07", "value_not_delivered", format!("{} returned {:?} although #{} is unread for this receiver; {}", op, o, front, self.describe()))),
            };
        }
        let expect_disc = self.tx != HSt::Open;
        match out {
            Out::RecvDisc if expect_disc => {
                self.saw_disc[h] = true;
                Ok(())
            }
            o if o == empty_out && !expect_disc => Ok(()),
            Out::Recv(x) => Err(mm("C07", "phantom_or_duplicate_value", format!("{} returned #{} but this receiver has nothing unread; {}", op, x, self.describe()))),
            Out::RecvDisc => Err(mm("C07", "spurious_disconnected", format!("{} returned Disconnected while the sender is alive; {}", op, self.describe()))),
            o => Err(mm("C07", "no_disconnected_after_drain", format!("{} returned {:?} although the sender is gone and the view is drained; {}", op, o, self.describe()))),
        }
    }
    pub fn recv_batch(&mut self, h: usize, max: usize, out: &Out, empty_out: &Out, op: &str) -> Result<(), Mismatch> {
        let xs = match out {
            Out::RecvBatch(xs) => xs.clone(),
            _ => return self.recv1(h, out, empty_out, op),
        };
        if self.rx[h] == HSt::Closed {
            return Err(mm("C04", "closed_handle_accepts", format!("{} on a closed receiver returned {:?}", op, xs)));
        }
        if xs.is_empty() || xs.len() > max {
            return Err(mm("C01", "batch_accounting", format!("{}(max={}) returned {} items", op, max, xs.len())));
        }
        let q: Vec<Id> = self.qs[h].iter().copied().collect();
        if q.len() >= xs.len() && q[..xs.len()] == xs[..] {
            for _ in 0..xs.len() {
                self.qs[h].pop_front();
            }
            Ok(())
        } else {
            Err(mm("C07", "order_or_skipped_value", format!("{} returned {:?} which is not a prefix of this receiver's view; {}", op, xs, self.describe())))
        }
    }
    /// Futures of the broadcast channel act when polled: a send future writes its value in the poll
    /// that completes it, a receive future takes its value in the poll that completes it.
    pub fn poll_send_fut(&mut self, v: Id, out: &Out, op: &str) -> Result<(), Mismatch> {
        match out {
            Out::Pending => Ok(()),
            Out::SendOk => self.send1(v, out, false, op),
            Out::SendClosed(_) => self.send1(v, out, false, op),
            o => Err(mm("C07", "wrong_result", format!("{} completed with {:?}", op, o))),
        }
    }
    pub fn poll_recv_fut(&mut self, h: usize, out: &Out, op: &str) -> Result<(), Mismatch> {
        match out {
            Out::Pending => Ok(()),
            _ => self.recv1(h, out, &Out::Pending, op),
        }
    }
    pub fn observe_rx_len(&self, h: usize, len: usize, who: &str) -> Result<(), Mismatch> {
        if self.rx[h] != HSt::Open {
            return Ok(());
        }
        if len != self.qs[h].len() {
            return Err(mm("C07", "len_mismatch", format!("{}.len() = {} but this receiver has {} unread values; {}", who, len, self.qs[h].len(), self.describe())));
        }
        Ok(())
    }
}
