//! Uniform handle traits, normalised outcomes and the drop-tracked payload.
use serde::Serialize;
use std::cell::RefCell;
use std::future::Future;
use std::pin::Pin;

pub type Id = u32;

thread_local! {
    /// per id: (instances created, instances dropped)
    static LEDGER: RefCell<Vec<(u32, u32)>> = RefCell::new(Vec::new());
}

pub fn ledger_reset() {
    LEDGER.with(|l| l.borrow_mut().clear());
}
pub fn ledger_snapshot() -> Vec<(u32, u32)> {
    LEDGER.with(|l| l.borrow().clone())
}

/// Drop-tracked payload. `Clone` (needed by the broadcast channel) registers another instance of the same id.
pub struct Tk {
    pub id: Id,
}
impl Tk {
    pub fn new(id: Id) -> Tk {
        LEDGER.with(|l| {
            let mut l = l.borrow_mut();
            if l.len() <= id as usize {
                l.resize(id as usize + 1, (0, 0));
            }
            l[id as usize].0 += 1;
        });
        Tk { id }
    }
}
impl Clone for Tk {
    fn clone(&self) -> Tk {
        Tk::new(self.id)
    }
}
impl Drop for Tk {
    fn drop(&mut self) {
        let id = self.id as usize;
        let _ = LEDGER.try_with(|l| {
            if let Ok(mut l) = l.try_borrow_mut() {
                if l.len() <= id {
                    l.resize(id + 1, (0, 0));
                }
                l[id].1 += 1;
            }
        });
    }
}
impl std::fmt::Debug for Tk {
    fn fmt(&self, f: &mut std::fmt::Formatter<'_>) -> std::fmt::Result {
        write!(f, "#{}", self.id)
    }
}

fn ids(v: &[Tk]) -> Vec<Id> {
    v.iter().map(|t| t.id).collect()
}

/// Normalised result of any operation.
#[derive(Clone, Debug, PartialEq, Eq, Hash, Serialize)]
pub enum Out {
    Unit,
    Unsupported,
    Pending,
    Bool(bool),
    Num(usize),
    SendOk,
    /// error variants carry the id that was handed back (None when the error type cannot carry it)
    SendFull(Option<Id>),
    SendClosed(Option<Id>),
    SendSent(Option<Id>),
    /// owned batch: all sent
    BatchOk(usize),
    /// owned batch error: sent count, unsent ids in order, reason Full(true)/Closed(false)
    BatchErr { sent: usize, unsent: Vec<Id>, full: bool },
    /// in-place batch: Ok(n)/Err(closed) and what is left in the caller's vector
    MutBatch { ok: Option<usize>, left: Vec<Id> },
    Recv(Id),
    RecvEmpty,
    RecvDisc,
    RecvTimeout,
    RecvBatch(Vec<Id>),
    CloseOk,
    CloseErr,
    Panic(String),
}

// The received / handed-back payloads are kept alive in a bag owned by the harness so that
// their drop is attributed to the harness, not to the channel.
thread_local! {
    pub static BAG: RefCell<Vec<Tk>> = RefCell::new(Vec::new());
}
pub fn bag(t: Tk) -> Id {
    let id = t.id;
    BAG.with(|b| b.borrow_mut().push(t));
    id
}
pub fn bag_all(v: Vec<Tk>) -> Vec<Id> {
    let i = ids(&v);
    BAG.with(|b| b.borrow_mut().extend(v));
    i
}
pub fn bag_clear() {
    let v: Vec<Tk> = BAG.with(|b| std::mem::take(&mut *b.borrow_mut()));
    drop(v);
}

pub type Fut = Pin<Box<dyn Future<Output = Out>>>;

/// Conversion of the library's result types into `Out`.
pub trait Norm {
    fn norm(self) -> Out;
}
use fibre::error::*;
impl Norm for Result<(), TrySendError<Tk>> {
    fn norm(self) -> Out {
        match self {
            Ok(()) => Out::SendOk,
            Err(TrySendError::Full(t)) => Out::SendFull(Some(bag(t))),
            Err(TrySendError::Closed(t)) => Out::SendClosed(Some(bag(t))),
            Err(TrySendError::Sent(t)) => Out::SendSent(Some(bag(t))),
        }
    }
}
impl Norm for Result<(), SendError> {
    fn norm(self) -> Out {
        match self {
            Ok(()) => Out::SendOk,
            Err(SendError::Closed) => Out::SendClosed(None),
            Err(SendError::Sent) => Out::SendSent(None),
        }
    }
}
impl Norm for Result<usize, TrySendBatchError<Tk>> {
    fn norm(self) -> Out {
        match self {
            Ok(n) => Out::BatchOk(n),
            Err(e) => Out::BatchErr { sent: e.sent, full: matches!(e.reason, BatchSendErrorReason::Full), unsent: bag_all(e.unsent) },
        }
    }
}
impl Norm for Result<usize, SendBatchError<Tk>> {
    fn norm(self) -> Out {
        match self {
            Ok(n) => Out::BatchOk(n),
            Err(e) => Out::BatchErr { sent: e.sent, full: false, unsent: bag_all(e.unsent) },
        }
    }
}
impl Norm for Result<Tk, TryRecvError> {
    fn norm(self) -> Out {
        match self {
            Ok(t) => Out::Recv(bag(t)),
            Err(TryRecvError::Empty) => Out::RecvEmpty,
            Err(TryRecvError::Disconnected) => Out::RecvDisc,
        }
    }
}
impl Norm for Result<Tk, RecvError> {
    fn norm(self) -> Out {
        match self {
            Ok(t) => Out::Recv(bag(t)),
            Err(RecvError::Disconnected) => Out::RecvDisc,
        }
    }
}
impl Norm for Result<Tk, RecvErrorTimeout> {
    fn norm(self) -> Out {
        match self {
            Ok(t) => Out::Recv(bag(t)),
            Err(RecvErrorTimeout::Disconnected) => Out::RecvDisc,
            Err(RecvErrorTimeout::Timeout) => Out::RecvTimeout,
        }
    }
}
impl Norm for Result<Vec<Tk>, TryRecvError> {
    fn norm(self) -> Out {
        match self {
            Ok(v) => Out::RecvBatch(bag_all(v)),
            Err(TryRecvError::Empty) => Out::RecvEmpty,
            Err(TryRecvError::Disconnected) => Out::RecvDisc,
        }
    }
}
impl Norm for Result<Vec<Tk>, RecvError> {
    fn norm(self) -> Out {
        match self {
            Ok(v) => Out::RecvBatch(bag_all(v)),
            Err(RecvError::Disconnected) => Out::RecvDisc,
        }
    }
}
impl Norm for Result<(), CloseError> {
    fn norm(self) -> Out {
        match self {
            Ok(()) => Out::CloseOk,
            Err(_) => Out::CloseErr,
        }
    }
}
impl Norm for Option<Tk> {
    // Stream item
    fn norm(self) -> Out {
        match self {
            Some(t) => Out::Recv(bag(t)),
            None => Out::RecvDisc,
        }
    }
}

/// in-place send batch result
pub fn norm_mut_send(r: Result<usize, SendError>, left: Vec<Tk>) -> Out {
    Out::MutBatch { ok: r.ok(), left: bag_all(left) }
}
/// in-place recv batch result: the appended items are the received ones
pub fn norm_mut_recv_try(r: Result<usize, TryRecvError>, out: Vec<Tk>) -> Out {
    match r {
        Ok(n) => {
            let got = bag_all(out);
            if n != got.len() {
                return Out::Panic(format!("recv_batch_mut returned {} but appended {} items", n, got.len()));
            }
            Out::RecvBatch(got)
        }
        Err(e) => {
            let extra = bag_all(out);
            if !extra.is_empty() {
                return Out::Panic(format!("recv_batch_mut returned Err but appended {:?}", extra));
            }
            match e {
                TryRecvError::Empty => Out::RecvEmpty,
                TryRecvError::Disconnected => Out::RecvDisc,
            }
        }
    }
}
pub fn norm_mut_recv(r: Result<usize, RecvError>, out: Vec<Tk>) -> Out {
    norm_mut_recv_try(r.map_err(|_| TryRecvError::Disconnected), out)
}

/// Operations a handle may support (used by the explorer to build the alphabet).
#[derive(Clone, Copy, Debug, PartialEq, Eq, Hash, PartialOrd, Ord, Serialize, serde::Deserialize)]
pub enum Op {
    TrySend,
    Send,
    TrySendBatch,
    TrySendBatchMut,
    SendBatch,
    SendBatchMut,
    SendFut,
    SendBatchFut,
    TryRecv,
    Recv,
    RecvTimeout0,
    TryRecvBatch,
    TryRecvBatchMut,
    RecvBatch,
    RecvBatchMut,
    RecvFut,
    RecvBatchFut,
    PollNext,
    Close,
    Clone,
    Convert,
    Len,
}

pub trait Tx {
    fn is_async(&self) -> bool;
    fn supports(&self, op: Op) -> bool;
    /// futures borrow the handle mutably: no other operation may be issued while one is alive
    fn fut_exclusive(&self) -> bool {
        false
    }
    fn try_send(&self, _v: Tk) -> Out {
        Out::Unsupported
    }
    fn send(&self, _v: Tk) -> Out {
        Out::Unsupported
    }
    fn try_send_batch(&self, _v: Vec<Tk>) -> Out {
        Out::Unsupported
    }
    fn try_send_batch_mut(&self, _v: Vec<Tk>) -> Out {
        Out::Unsupported
    }
    fn send_batch(&self, _v: Vec<Tk>) -> Out {
        Out::Unsupported
    }
    fn send_batch_mut(&self, _v: Vec<Tk>) -> Out {
        Out::Unsupported
    }
    fn send_fut(&self, _v: Tk) -> Option<Fut> {
        None
    }
    fn send_batch_fut(&self, _v: Vec<Tk>) -> Option<Fut> {
        None
    }
    fn close(&self) -> Out;
    fn is_closed(&self) -> Option<bool> {
        None
    }
    fn len(&self) -> Option<usize> {
        None
    }
    fn is_empty(&self) -> Option<bool> {
        None
    }
    fn is_full(&self) -> Option<bool> {
        None
    }
    /// Some(None) = rendezvous style `Option<usize>` capacity reporting None
    fn capacity(&self) -> Option<Option<usize>> {
        None
    }
    fn try_clone(&self) -> Option<Box<dyn Tx>> {
        None
    }
    fn convert(self: Box<Self>) -> Box<dyn Tx>;
}

pub trait Rx {
    fn is_async(&self) -> bool;
    fn supports(&self, op: Op) -> bool;
    fn fut_exclusive(&self) -> bool {
        false
    }
    fn try_recv(&self) -> Out {
        Out::Unsupported
    }
    fn recv(&self) -> Out {
        Out::Unsupported
    }
    fn recv_timeout0(&self) -> Out {
        Out::Unsupported
    }
    fn try_recv_batch(&self, _max: usize) -> Out {
        Out::Unsupported
    }
    fn try_recv_batch_mut(&self, _max: usize) -> Out {
        Out::Unsupported
    }
    fn recv_batch(&self, _max: usize) -> Out {
        Out::Unsupported
    }
    fn recv_batch_mut(&self, _max: usize) -> Out {
        Out::Unsupported
    }
    fn recv_fut(&self) -> Option<Fut> {
        None
    }
    fn recv_batch_fut(&self, _max: usize) -> Option<Fut> {
        None
    }
    /// one `Stream::poll_next` with the given waker
    fn poll_next(&self, _w: &std::task::Waker) -> Out {
        Out::Unsupported
    }
    fn close(&self) -> Out;
    fn is_closed(&self) -> Option<bool> {
        None
    }
    fn len(&self) -> Option<usize> {
        None
    }
    fn is_empty(&self) -> Option<bool> {
        None
    }
    fn is_full(&self) -> Option<bool> {
        None
    }
    fn capacity(&self) -> Option<Option<usize>> {
        None
    }
    fn try_clone(&self) -> Option<Box<dyn Rx>> {
        None
    }
    fn convert(self: Box<Self>) -> Box<dyn Rx>;
    // topic-only operations
    fn subscribe(&self, _topic: u8) -> Out {
        Out::Unsupported
    }
    fn unsubscribe(&self, _topic: u8) -> Out {
        Out::Unsupported
    }
}

/// A future whose output is mapped into `Out`; the inner future is created eagerly.
pub struct Mapped<F: Future> {
    inner: Pin<Box<F>>,
    map: fn(F::Output) -> Out,
}
impl<F: Future> Future for Mapped<F> {
    type Output = Out;
    fn poll(mut self: Pin<&mut Self>, cx: &mut std::task::Context<'_>) -> std::task::Poll<Out> {
        let map = self.map;
        self.inner.as_mut().poll(cx).map(map)
    }
}
/// erase the borrow of the handle: the explorer guarantees that a future is dropped before its handle
pub fn erase<F: Future>(f: F, map: fn(F::Output) -> Out) -> Fut {
    let b: Pin<Box<dyn Future<Output = Out> + '_>> = Box::pin(Mapped { inner: Box::pin(f), map });
    unsafe { std::mem::transmute::<Pin<Box<dyn Future<Output = Out> + '_>>, Fut>(b) }
}
