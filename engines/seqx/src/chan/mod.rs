pub mod adapters;
pub mod api;
pub mod explore;
pub mod model;
