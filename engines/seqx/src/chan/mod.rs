pub mod adapters;
pub mod api;
pub mod bmodel;
pub mod explore;
pub mod model;
