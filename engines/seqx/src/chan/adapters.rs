//! One adapter per channel flavour: maps the uniform `Tx`/`Rx` traits onto the concrete API.
//! Method-call auto-ref lets the same macro body serve `&self` and `&mut self` APIs.
use super::api::*;
use futures_core::Stream;
use std::cell::UnsafeCell;
use std::pin::Pin;
use std::task::{Context, Poll, Waker};
use std::time::Duration;

pub struct W<H>(pub UnsafeCell<H>);
impl<H> W<H> {
    pub fn new(h: H) -> Self {
        W(UnsafeCell::new(h))
    }
    #[allow(clippy::mut_from_ref)]
    fn h(&self) -> &mut H {
        // single-threaded harness; the explorer never issues an operation on a handle while a
        // future that borrows it mutably is alive (see `fut_exclusive`).
        unsafe { &mut *self.0.get() }
    }
}

macro_rules! feat {
    // ---- sender features ----
    (tx_core) => {
        fn try_send(&self, v: Tk) -> Out {
            self.h().try_send(v).norm()
        }
        fn close(&self) -> Out {
            self.h().close().norm()
        }
        fn is_closed(&self) -> Option<bool> {
            Some(self.h().is_closed())
        }
    };
    (tx_sync_send) => {
        fn send(&self, v: Tk) -> Out {
            self.h().send(v).norm()
        }
    };
    (tx_fut_send) => {
        fn send_fut(&self, v: Tk) -> Option<Fut> {
            Some(erase(self.h().send(v), |r| r.norm()))
        }
    };
    (tx_batch_try) => {
        fn try_send_batch(&self, v: Vec<Tk>) -> Out {
            self.h().try_send_batch(v).norm()
        }
        fn try_send_batch_mut(&self, mut v: Vec<Tk>) -> Out {
            let r = self.h().try_send_batch_mut(&mut v);
            norm_mut_send(r, v)
        }
    };
    (tx_batch_sync) => {
        fn send_batch(&self, v: Vec<Tk>) -> Out {
            self.h().send_batch(v).norm()
        }
        fn send_batch_mut(&self, mut v: Vec<Tk>) -> Out {
            let r = self.h().send_batch_mut(&mut v);
            norm_mut_send(r, v)
        }
    };
    (tx_batch_fut) => {
        fn send_batch_fut(&self, v: Vec<Tk>) -> Option<Fut> {
            Some(erase(self.h().send_batch(v), |r| r.norm()))
        }
    };
    (obs) => {
        fn len(&self) -> Option<usize> {
            Some(self.h().len())
        }
        fn is_empty(&self) -> Option<bool> {
            Some(self.h().is_empty())
        }
    };
    (obs_full) => {
        fn is_full(&self) -> Option<bool> {
            Some(self.h().is_full())
        }
    };
    (cap_usize) => {
        fn capacity(&self) -> Option<Option<usize>> {
            Some(Some(self.h().capacity()))
        }
    };
    (cap_opt) => {
        fn capacity(&self) -> Option<Option<usize>> {
            Some(self.h().capacity())
        }
    };
    (tx_clone) => {
        fn try_clone(&self) -> Option<Box<dyn Tx>> {
            Some(Box::new(W::new(self.h().clone())))
        }
    };
    // ---- receiver features ----
    (rx_core) => {
        fn try_recv(&self) -> Out {
            self.h().try_recv().norm()
        }
        fn close(&self) -> Out {
            self.h().close().norm()
        }
        fn is_closed(&self) -> Option<bool> {
            Some(self.h().is_closed())
        }
    };
    (rx_sync_recv) => {
        fn recv(&self) -> Out {
            self.h().recv().norm()
        }
        fn recv_timeout0(&self) -> Out {
            self.h().recv_timeout(Duration::ZERO).norm()
        }
    };
    (rx_fut_recv) => {
        fn recv_fut(&self) -> Option<Fut> {
            Some(erase(self.h().recv(), |r| r.norm()))
        }
    };
    (rx_batch_try) => {
        fn try_recv_batch(&self, max: usize) -> Out {
            self.h().try_recv_batch(max).norm()
        }
        fn try_recv_batch_mut(&self, max: usize) -> Out {
            let mut out = Vec::new();
            let r = self.h().try_recv_batch_mut(&mut out, max);
            norm_mut_recv_try(r, out)
        }
    };
    (rx_batch_sync) => {
        fn recv_batch(&self, max: usize) -> Out {
            self.h().recv_batch(max).norm()
        }
        fn recv_batch_mut(&self, max: usize) -> Out {
            let mut out = Vec::new();
            let r = self.h().recv_batch_mut(&mut out, max);
            norm_mut_recv(r, out)
        }
    };
    (rx_batch_fut) => {
        fn recv_batch_fut(&self, max: usize) -> Option<Fut> {
            Some(erase(self.h().recv_batch(max), |r| r.norm()))
        }
    };
    (rx_stream) => {
        fn poll_next(&self, w: &Waker) -> Out {
            let mut cx = Context::from_waker(w);
            match Pin::new(self.h()).poll_next(&mut cx) {
                Poll::Ready(x) => x.norm(),
                Poll::Pending => Out::Pending,
            }
        }
    };
    (rx_clone) => {
        fn try_clone(&self) -> Option<Box<dyn Rx>> {
            Some(Box::new(W::new(self.h().clone())))
        }
    };
    (excl) => {
        fn fut_exclusive(&self) -> bool {
            true
        }
    };
}

macro_rules! tx_impl {
    ($ty:ty, async = $is_async:expr, conv = $conv:ident, ops = [$($op:ident),*], feats = [$($f:ident),*]) => {
        impl Tx for W<$ty> {
            fn is_async(&self) -> bool { $is_async }
            fn supports(&self, op: Op) -> bool { matches!(op, $(Op::$op)|*) }
            fn convert(self: Box<Self>) -> Box<dyn Tx> { Box::new(W::new(self.0.into_inner().$conv())) }
            $( feat!($f); )*
        }
    };
}
macro_rules! rx_impl {
    ($ty:ty, async = $is_async:expr, conv = $conv:ident, ops = [$($op:ident),*], feats = [$($f:ident),*]) => {
        impl Rx for W<$ty> {
            fn is_async(&self) -> bool { $is_async }
            fn supports(&self, op: Op) -> bool { matches!(op, $(Op::$op)|*) }
            fn convert(self: Box<Self>) -> Box<dyn Rx> { Box::new(W::new(self.0.into_inner().$conv())) }
            $( feat!($f); )*
        }
    };
}

// ------------------------------------------------------------------ spsc bounded
tx_impl!(fibre::spsc::BoundedSyncSender<Tk>, async = false, conv = to_async,
    ops = [TrySend, Send, TrySendBatch, TrySendBatchMut, SendBatch, SendBatchMut, Close, Convert, Len],
    feats = [tx_core, tx_sync_send, tx_batch_try, tx_batch_sync, obs, obs_full, cap_usize]);
tx_impl!(fibre::spsc::BoundedAsyncSender<Tk>, async = true, conv = to_sync,
    ops = [TrySend, SendFut, TrySendBatch, TrySendBatchMut, SendBatchFut, Close, Convert, Len],
    feats = [tx_core, tx_fut_send, tx_batch_try, tx_batch_fut, obs, obs_full, cap_usize, excl]);
rx_impl!(fibre::spsc::BoundedSyncReceiver<Tk>, async = false, conv = to_async,
    ops = [TryRecv, Recv, RecvTimeout0, TryRecvBatch, TryRecvBatchMut, RecvBatch, RecvBatchMut, Close, Convert, Len],
    feats = [rx_core, rx_sync_recv, rx_batch_try, rx_batch_sync, obs, obs_full, cap_usize]);
rx_impl!(fibre::spsc::BoundedAsyncReceiver<Tk>, async = true, conv = to_sync,
    ops = [TryRecv, RecvFut, TryRecvBatch, TryRecvBatchMut, RecvBatchFut, PollNext, Close, Convert, Len],
    feats = [rx_core, rx_fut_recv, rx_batch_try, rx_batch_fut, rx_stream, obs, obs_full, cap_usize, excl]);

// ------------------------------------------------------------------ spsc rendezvous
tx_impl!(fibre::spsc::RendezvousSyncSender<Tk>, async = false, conv = to_async,
    ops = [TrySend, Send, Close, Convert, Len],
    feats = [tx_core, tx_sync_send, obs, obs_full, cap_opt]);
tx_impl!(fibre::spsc::RendezvousAsyncSender<Tk>, async = true, conv = to_sync,
    ops = [TrySend, SendFut, Close, Convert, Len],
    feats = [tx_core, tx_fut_send, obs, obs_full, cap_opt]);
rx_impl!(fibre::spsc::RendezvousSyncReceiver<Tk>, async = false, conv = to_async,
    ops = [TryRecv, Recv, RecvTimeout0, Close, Convert, Len],
    feats = [rx_core, rx_sync_recv, obs, obs_full, cap_opt]);
rx_impl!(fibre::spsc::RendezvousAsyncReceiver<Tk>, async = true, conv = to_sync,
    ops = [TryRecv, RecvFut, Close, Convert, Len],
    feats = [rx_core, rx_fut_recv, obs, obs_full, cap_opt]);

// ------------------------------------------------------------------ mpsc bounded
tx_impl!(fibre::mpsc::BoundedSyncSender<Tk>, async = false, conv = to_async,
    ops = [TrySend, Send, TrySendBatch, TrySendBatchMut, SendBatch, SendBatchMut, Close, Clone, Convert, Len],
    feats = [tx_core, tx_sync_send, tx_batch_try, tx_batch_sync, obs, obs_full, cap_usize, tx_clone]);
tx_impl!(fibre::mpsc::BoundedAsyncSender<Tk>, async = true, conv = to_sync,
    ops = [TrySend, SendFut, TrySendBatch, TrySendBatchMut, SendBatchFut, Close, Clone, Convert, Len],
    feats = [tx_core, tx_fut_send, tx_batch_try, tx_batch_fut, obs, obs_full, cap_usize, tx_clone]);
rx_impl!(fibre::mpsc::BoundedSyncReceiver<Tk>, async = false, conv = to_async,
    ops = [TryRecv, Recv, RecvTimeout0, TryRecvBatch, TryRecvBatchMut, RecvBatch, RecvBatchMut, Close, Convert, Len],
    feats = [rx_core, rx_sync_recv, rx_batch_try, rx_batch_sync, obs, obs_full, cap_usize]);
rx_impl!(fibre::mpsc::BoundedAsyncReceiver<Tk>, async = true, conv = to_sync,
    ops = [TryRecv, RecvFut, TryRecvBatch, TryRecvBatchMut, RecvBatchFut, PollNext, Close, Convert, Len],
    feats = [rx_core, rx_fut_recv, rx_batch_try, rx_batch_fut, rx_stream, obs, obs_full, cap_usize]);

// ------------------------------------------------------------------ mpsc unbounded
tx_impl!(fibre::mpsc::UnboundedSyncSender<Tk>, async = false, conv = to_async,
    ops = [TrySend, Send, TrySendBatch, TrySendBatchMut, SendBatch, SendBatchMut, Close, Clone, Convert, Len],
    feats = [tx_core, tx_sync_send, tx_batch_try, tx_batch_sync, obs, tx_clone]);
tx_impl!(fibre::mpsc::UnboundedAsyncSender<Tk>, async = true, conv = to_sync,
    ops = [TrySend, SendFut, TrySendBatch, TrySendBatchMut, SendBatchFut, Close, Clone, Convert, Len],
    feats = [tx_core, tx_fut_send, tx_batch_try, tx_batch_fut, obs, tx_clone, excl]);
rx_impl!(fibre::mpsc::UnboundedSyncReceiver<Tk>, async = false, conv = to_async,
    ops = [TryRecv, Recv, RecvTimeout0, TryRecvBatch, TryRecvBatchMut, RecvBatch, RecvBatchMut, Close, Convert, Len],
    feats = [rx_core, rx_sync_recv, rx_batch_try, rx_batch_sync, obs]);
rx_impl!(fibre::mpsc::UnboundedAsyncReceiver<Tk>, async = true, conv = to_sync,
    ops = [TryRecv, RecvFut, TryRecvBatch, TryRecvBatchMut, RecvBatchFut, PollNext, Close, Convert, Len],
    feats = [rx_core, rx_fut_recv, rx_batch_try, rx_batch_fut, rx_stream, obs, excl]);

// ------------------------------------------------------------------ mpsc rendezvous
tx_impl!(fibre::mpsc::RendezvousSyncSender<Tk>, async = false, conv = to_async,
    ops = [TrySend, Send, Close, Clone, Convert, Len],
    feats = [tx_core, tx_sync_send, obs, obs_full, cap_opt, tx_clone]);
tx_impl!(fibre::mpsc::RendezvousAsyncSender<Tk>, async = true, conv = to_sync,
    ops = [TrySend, SendFut, Close, Clone, Convert, Len],
    feats = [tx_core, tx_fut_send, obs, obs_full, cap_opt, tx_clone]);
rx_impl!(fibre::mpsc::RendezvousSyncReceiver<Tk>, async = false, conv = to_async,
    ops = [TryRecv, Recv, RecvTimeout0, Close, Convert, Len],
    feats = [rx_core, rx_sync_recv, obs, obs_full, cap_opt]);
rx_impl!(fibre::mpsc::RendezvousAsyncReceiver<Tk>, async = true, conv = to_sync,
    ops = [TryRecv, RecvFut, Close, Convert, Len],
    feats = [rx_core, rx_fut_recv, obs, obs_full, cap_opt]);

// ------------------------------------------------------------------ mpmc bounded
tx_impl!(fibre::mpmc::Sender<Tk>, async = false, conv = to_async,
    ops = [TrySend, Send, TrySendBatch, TrySendBatchMut, SendBatch, SendBatchMut, Close, Clone, Convert, Len],
    feats = [tx_core, tx_sync_send, tx_batch_try, tx_batch_sync, obs, obs_full, cap_usize, tx_clone]);
tx_impl!(fibre::mpmc::AsyncSender<Tk>, async = true, conv = to_sync,
    ops = [TrySend, SendFut, TrySendBatch, TrySendBatchMut, SendBatchFut, Close, Clone, Convert, Len],
    feats = [tx_core, tx_fut_send, tx_batch_try, tx_batch_fut, obs, obs_full, cap_usize, tx_clone]);
rx_impl!(fibre::mpmc::Receiver<Tk>, async = false, conv = to_async,
    ops = [TryRecv, Recv, RecvTimeout0, TryRecvBatch, TryRecvBatchMut, RecvBatch, RecvBatchMut, Close, Clone, Convert, Len],
    feats = [rx_core, rx_sync_recv, rx_batch_try, rx_batch_sync, obs, obs_full, cap_usize, rx_clone]);
rx_impl!(fibre::mpmc::AsyncReceiver<Tk>, async = true, conv = to_sync,
    ops = [TryRecv, RecvFut, TryRecvBatch, TryRecvBatchMut, RecvBatchFut, PollNext, Close, Clone, Convert, Len],
    feats = [rx_core, rx_fut_recv, rx_batch_try, rx_batch_fut, rx_stream, obs, obs_full, cap_usize, rx_clone]);

// ------------------------------------------------------------------ mpmc unbounded
tx_impl!(fibre::mpmc::UnboundedSyncSender<Tk>, async = false, conv = to_async,
    ops = [TrySend, Send, TrySendBatch, TrySendBatchMut, SendBatch, SendBatchMut, Close, Clone, Convert, Len],
    feats = [tx_core, tx_sync_send, tx_batch_try, tx_batch_sync, obs, tx_clone]);
tx_impl!(fibre::mpmc::UnboundedAsyncSender<Tk>, async = true, conv = to_sync,
    ops = [TrySend, SendFut, TrySendBatch, TrySendBatchMut, SendBatchFut, Close, Clone, Convert, Len],
    feats = [tx_core, tx_fut_send, tx_batch_try, tx_batch_fut, obs, tx_clone, excl]);
rx_impl!(fibre::mpmc::UnboundedSyncReceiver<Tk>, async = false, conv = to_async,
    ops = [TryRecv, Recv, RecvTimeout0, TryRecvBatch, TryRecvBatchMut, RecvBatch, RecvBatchMut, Close, Clone, Convert, Len],
    feats = [rx_core, rx_sync_recv, rx_batch_try, rx_batch_sync, obs, rx_clone]);
rx_impl!(fibre::mpmc::UnboundedAsyncReceiver<Tk>, async = true, conv = to_sync,
    ops = [TryRecv, RecvFut, TryRecvBatch, TryRecvBatchMut, RecvBatchFut, PollNext, Close, Clone, Convert, Len],
    feats = [rx_core, rx_fut_recv, rx_batch_try, rx_batch_fut, rx_stream, obs, rx_clone, excl]);

// ------------------------------------------------------------------ mpmc rendezvous
tx_impl!(fibre::mpmc::rendezvous::RendezvousSyncSender<Tk>, async = false, conv = to_async,
    ops = [TrySend, Send, Close, Clone, Convert, Len],
    feats = [tx_core, tx_sync_send, obs, obs_full, cap_opt, tx_clone]);
tx_impl!(fibre::mpmc::rendezvous::RendezvousAsyncSender<Tk>, async = true, conv = to_sync,
    ops = [TrySend, SendFut, Close, Clone, Convert, Len],
    feats = [tx_core, tx_fut_send, obs, obs_full, cap_opt, tx_clone]);
rx_impl!(fibre::mpmc::rendezvous::RendezvousSyncReceiver<Tk>, async = false, conv = to_async,
    ops = [TryRecv, Recv, RecvTimeout0, Close, Clone, Convert, Len],
    feats = [rx_core, rx_sync_recv, obs, obs_full, cap_opt, rx_clone]);
rx_impl!(fibre::mpmc::rendezvous::RendezvousAsyncReceiver<Tk>, async = true, conv = to_sync,
    ops = [TryRecv, RecvFut, Close, Clone, Convert, Len],
    feats = [rx_core, rx_fut_recv, obs, obs_full, cap_opt, rx_clone]);

// ------------------------------------------------------------------ spmc broadcast
tx_impl!(fibre::spmc::BoundedSyncSender<Tk>, async = false, conv = to_async,
    ops = [TrySend, Send, TrySendBatch, TrySendBatchMut, SendBatch, SendBatchMut, Close, Convert, Len],
    feats = [tx_core, tx_sync_send, tx_batch_try, tx_batch_sync, obs, obs_full, cap_usize]);
tx_impl!(fibre::spmc::BoundedAsyncSender<Tk>, async = true, conv = to_sync,
    ops = [TrySend, SendFut, TrySendBatch, TrySendBatchMut, Close, Convert, Len],
    feats = [tx_core, tx_fut_send, tx_batch_try, obs, obs_full, cap_usize]);
rx_impl!(fibre::spmc::BoundedSyncReceiver<Tk>, async = false, conv = to_async,
    ops = [TryRecv, Recv, RecvTimeout0, TryRecvBatch, TryRecvBatchMut, RecvBatch, RecvBatchMut, Close, Clone, Convert, Len],
    feats = [rx_core, rx_sync_recv, rx_batch_try, rx_batch_sync, obs, obs_full, cap_usize, rx_clone]);
rx_impl!(fibre::spmc::BoundedAsyncReceiver<Tk>, async = true, conv = to_sync,
    ops = [TryRecv, RecvFut, TryRecvBatch, TryRecvBatchMut, PollNext, Close, Clone, Convert, Len],
    feats = [rx_core, rx_fut_recv, rx_batch_try, rx_stream, obs, obs_full, cap_usize, rx_clone]);

// ------------------------------------------------------------------ oneshot (hand-written: send consumes the handle)
pub struct OneTx(pub UnsafeCell<Option<fibre::oneshot::Sender<Tk>>>);
impl Tx for OneTx {
    fn is_async(&self) -> bool {
        false
    }
    fn supports(&self, op: Op) -> bool {
        matches!(op, Op::TrySend | Op::Close | Op::Clone)
    }
    /// `send(self, v)`: consumes the sender whatever the result
    fn try_send(&self, v: Tk) -> Out {
        let s = unsafe { &mut *self.0.get() }.take();
        match s {
            Some(s) => s.send(v).norm(),
            None => Out::Unsupported,
        }
    }
    fn close(&self) -> Out {
        match unsafe { &*self.0.get() } {
            Some(s) => s.close().norm(),
            None => Out::Unsupported,
        }
    }
    fn is_closed(&self) -> Option<bool> {
        unsafe { &*self.0.get() }.as_ref().map(|s| s.is_closed())
    }
    fn try_clone(&self) -> Option<Box<dyn Tx>> {
        unsafe { &*self.0.get() }.as_ref().map(|s| Box::new(OneTx(UnsafeCell::new(Some(s.clone())))) as Box<dyn Tx>)
    }
    fn convert(self: Box<Self>) -> Box<dyn Tx> {
        self
    }
}
pub struct OneRx(pub fibre::oneshot::Receiver<Tk>);
impl Rx for OneRx {
    fn is_async(&self) -> bool {
        true
    }
    fn supports(&self, op: Op) -> bool {
        matches!(op, Op::TryRecv | Op::RecvFut | Op::Close)
    }
    fn try_recv(&self) -> Out {
        self.0.try_recv().norm()
    }
    fn recv_fut(&self) -> Option<Fut> {
        Some(erase(self.0.recv(), |r| r.norm()))
    }
    fn close(&self) -> Out {
        self.0.close().norm()
    }
    fn is_closed(&self) -> Option<bool> {
        Some(self.0.is_closed())
    }
    fn convert(self: Box<Self>) -> Box<dyn Rx> {
        self
    }
}

#[derive(Clone, Copy, Debug, PartialEq, Eq, Hash, serde::Serialize, serde::Deserialize)]
pub enum Flavour {
    SpscBounded,
    SpscRendezvous,
    MpscBounded,
    MpscUnbounded,
    MpscRendezvous,
    MpmcBounded,
    MpmcUnbounded,
    MpmcRendezvous,
    Oneshot,
    SpmcBroadcast,
}
impl Flavour {
    pub const ALL: [Flavour; 10] = [
        Flavour::SpscBounded,
        Flavour::SpscRendezvous,
        Flavour::MpscBounded,
        Flavour::MpscUnbounded,
        Flavour::MpscRendezvous,
        Flavour::MpmcBounded,
        Flavour::MpmcUnbounded,
        Flavour::MpmcRendezvous,
        Flavour::Oneshot,
        Flavour::SpmcBroadcast,
    ];
    pub fn name(self) -> &'static str {
        match self {
            Flavour::SpscBounded => "spsc_bounded",
            Flavour::SpscRendezvous => "spsc_rendezvous",
            Flavour::MpscBounded => "mpsc_bounded",
            Flavour::MpscUnbounded => "mpsc_unbounded",
            Flavour::MpscRendezvous => "mpsc_rendezvous",
            Flavour::MpmcBounded => "mpmc_bounded",
            Flavour::MpmcUnbounded => "mpmc_unbounded",
            Flavour::MpmcRendezvous => "mpmc_rendezvous",
            Flavour::Oneshot => "oneshot",
            Flavour::SpmcBroadcast => "spmc_broadcast",
        }
    }
    pub fn from_name(s: &str) -> Option<Flavour> {
        Flavour::ALL.iter().copied().find(|f| f.name() == s)
    }
    /// capacity semantics: Some(0) rendezvous, None unbounded
    pub fn caps(self) -> Vec<Option<usize>> {
        match self {
            Flavour::SpscBounded | Flavour::MpscBounded | Flavour::MpmcBounded | Flavour::SpmcBroadcast => vec![Some(1), Some(2), Some(3)],
            Flavour::SpscRendezvous | Flavour::MpscRendezvous | Flavour::MpmcRendezvous => vec![Some(0)],
            Flavour::MpscUnbounded | Flavour::MpmcUnbounded => vec![None],
            Flavour::Oneshot => vec![Some(1)],
        }
    }
    pub fn multi_tx(self) -> bool {
        !matches!(self, Flavour::SpscBounded | Flavour::SpscRendezvous | Flavour::SpmcBroadcast)
    }
    pub fn multi_rx(self) -> bool {
        matches!(self, Flavour::MpmcBounded | Flavour::MpmcUnbounded | Flavour::MpmcRendezvous | Flavour::SpmcBroadcast)
    }
    pub fn is_oneshot(self) -> bool {
        self == Flavour::Oneshot
    }
    pub fn is_broadcast(self) -> bool {
        self == Flavour::SpmcBroadcast
    }
}

/// Build a channel with the requested handle kinds. Mixed kinds are obtained from the sync
/// constructor followed by a conversion (the only way the API offers).
pub fn make(fl: Flavour, cap: Option<usize>, tx_async: bool, rx_async: bool) -> (Box<dyn Tx>, Box<dyn Rx>) {
    macro_rules! pair {
        ($sync:expr, $asyn:expr) => {{
            if tx_async && rx_async {
                let (t, r) = $asyn;
                (Box::new(W::new(t)) as Box<dyn Tx>, Box::new(W::new(r)) as Box<dyn Rx>)
            } else {
                let (t, r) = $sync;
                let mut t: Box<dyn Tx> = Box::new(W::new(t));
                let mut r: Box<dyn Rx> = Box::new(W::new(r));
                if tx_async {
                    t = t.convert();
                }
                if rx_async {
                    r = r.convert();
                }
                (t, r)
            }
        }};
    }
    let c = cap.unwrap_or(0);
    match fl {
        Flavour::SpscBounded => pair!(fibre::spsc::bounded_sync::<Tk>(c), fibre::spsc::bounded_async::<Tk>(c)),
        Flavour::SpscRendezvous => pair!(fibre::spsc::rendezvous::rendezvous::<Tk>(), fibre::spsc::rendezvous::rendezvous_async::<Tk>()),
        Flavour::MpscBounded => pair!(fibre::mpsc::bounded::<Tk>(c), fibre::mpsc::bounded_async::<Tk>(c)),
        Flavour::MpscUnbounded => pair!(fibre::mpsc::unbounded::<Tk>(), fibre::mpsc::unbounded_async::<Tk>()),
        Flavour::MpscRendezvous => pair!(fibre::mpsc::rendezvous::rendezvous::<Tk>(), fibre::mpsc::rendezvous::rendezvous_async::<Tk>()),
        Flavour::MpmcBounded => pair!(fibre::mpmc::bounded::<Tk>(c), fibre::mpmc::bounded_async::<Tk>(c)),
        Flavour::MpmcUnbounded => pair!(fibre::mpmc::unbounded::<Tk>(), fibre::mpmc::unbounded_async::<Tk>()),
        Flavour::MpmcRendezvous => {
            pair!(fibre::mpmc::rendezvous::rendezvous::<Tk>(), fibre::mpmc::rendezvous::rendezvous_async::<Tk>())
        }
        Flavour::SpmcBroadcast => pair!(fibre::spmc::bounded::<Tk>(c), fibre::spmc::bounded_async::<Tk>(c)),
        Flavour::Oneshot => {
            let (t, r) = fibre::oneshot::oneshot::<Tk>();
            (Box::new(OneTx(UnsafeCell::new(Some(t)))), Box::new(OneRx(r)))
        }
    }
}
