//! Reference model for point-to-point channels: a FIFO queue with handle states, made
//! nondeterministic only by *pending futures*, which may take effect at any moment between their
//! creation and their completion / cancellation (brute-force linearisation of the few
//! overlapping operations). With no future alive the state set is a singleton and the model is
//! exactly "a FIFO queue with capacity N and a closed flag per side".
use super::api::{Id, Out};
use std::collections::BTreeSet;

#[derive(Clone, Copy, PartialEq, Eq, Hash, Debug, PartialOrd, Ord)]
pub enum HSt {
    Open,
    Closed,
    Gone,
}

#[derive(Clone, PartialEq, Eq, Hash, Debug, PartialOrd, Ord)]
pub enum FutSt {
    Dead,
    Send { h: usize, v: Id, fired: bool },
    SendBatch { h: usize, vs: Vec<Id>, sent: usize },
    Recv { h: usize, got: Option<Id> },
    RecvBatch { h: usize, max: usize, got: Vec<Id> },
}

#[derive(Clone, PartialEq, Eq, Hash, Debug, PartialOrd, Ord)]
pub struct MState {
    pub q: Vec<Id>,
    pub futs: Vec<FutSt>,
    pub once_sent: bool,
    pub once_taken: bool,
}

#[derive(Debug, Clone)]
pub struct Mismatch {
    pub prop: &'static str,
    pub rule: &'static str,
    pub detail: String,
    /// names the operation at fault when it is not the one that exposed the problem
    pub op: Option<&'static str>,
}
fn mm(prop: &'static str, rule: &'static str, detail: String) -> Mismatch {
    Mismatch { prop, rule, detail, op: None }
}

#[derive(Clone, Debug)]
pub struct Model {
    pub cap: Option<usize>,
    pub oneshot: bool,
    pub tx: Vec<HSt>,
    pub rx: Vec<HSt>,
    pub saw_disc: Vec<bool>,
    pub set: BTreeSet<MState>,
    /// every id ever returned by a receive (duplicate detection)
    pub received: BTreeSet<Id>,
    /// mpsc bounded publishes consumer progress in batches (K cadence) and on every Empty/wait
    /// path; a *blocking* send may legitimately wait for that publication, so the explorer only
    /// issues blocking sends when even the unpublished receives leave room (see DESIGN C03/C05)
    pub stale_credit: bool,
    pub unflushed: usize,
    /// values that had been handed to a receive future which was then dropped (they must go back)
    pub undone: BTreeSet<Id>,
}

impl Model {
    pub fn new(cap: Option<usize>, oneshot: bool) -> Model {
        let mut set = BTreeSet::new();
        set.insert(MState { q: vec![], futs: vec![], once_sent: false, once_taken: false });
        Model { cap, oneshot, tx: vec![HSt::Open], rx: vec![HSt::Open], saw_disc: vec![false], set, received: BTreeSet::new(), stale_credit: false, unflushed: 0, undone: BTreeSet::new() }
    }
    pub fn rendezvous(&self) -> bool {
        self.cap == Some(0)
    }
    pub fn any_rx(&self) -> bool {
        self.rx.iter().any(|h| *h == HSt::Open)
    }
    pub fn any_tx(&self) -> bool {
        self.tx.iter().any(|h| *h == HSt::Open)
    }
    fn has_space(&self, s: &MState, extra: usize) -> bool {
        match self.cap {
            None => true,
            Some(c) => s.q.len() + extra <= c,
        }
    }
    pub fn describe(&self) -> String {
        let mut v: Vec<String> = self.set.iter().take(4).map(|s| format!("q={:?} futs={:?}", s.q, s.futs)).collect();
        if self.set.len() > 4 {
            v.push(format!("… {} states", self.set.len()));
        }
        format!("cap={:?} tx={:?} rx={:?} states: {}", self.cap, self.tx, self.rx, v.join(" | "))
    }

    // ------------------------------------------------------------- closure over pending futures
    fn successors(&self, s: &MState) -> Vec<MState> {
        let mut out = vec![];
        let any_rx = self.any_rx();
        for (i, f) in s.futs.iter().enumerate() {
            match f {
                FutSt::Send { h, v, fired: false } if self.tx[*h] == HSt::Open && any_rx => {
                    if self.rendezvous() {
                        // pair with a pending receive
                        for (j, g) in s.futs.iter().enumerate() {
                            match g {
                                FutSt::Recv { h: rh, got: None } if self.rx[*rh] == HSt::Open => {
                                    let mut n = s.clone();
                                    n.futs[i] = FutSt::Send { h: *h, v: *v, fired: true };
                                    n.futs[j] = FutSt::Recv { h: *rh, got: Some(*v) };
                                    out.push(n);
                                }
                                _ => {}
                            }
                        }
                    } else if self.has_space(s, 1) && !(self.oneshot && s.once_sent) {
                        let mut n = s.clone();
                        n.q.push(*v);
                        n.futs[i] = FutSt::Send { h: *h, v: *v, fired: true };
                        out.push(n);
                    }
                }
                FutSt::SendBatch { h, vs, sent } if *sent < vs.len() && self.tx[*h] == HSt::Open && any_rx && !self.rendezvous() => {
                    if self.has_space(s, 1) {
                        let mut n = s.clone();
                        n.q.push(vs[*sent]);
                        n.futs[i] = FutSt::SendBatch { h: *h, vs: vs.clone(), sent: sent + 1 };
                        out.push(n);
                    }
                }
                FutSt::Recv { h, got: None } if self.rx[*h] == HSt::Open && !s.q.is_empty() => {
                    let mut n = s.clone();
                    let v = n.q.remove(0);
                    n.futs[i] = FutSt::Recv { h: *h, got: Some(v) };
                    if self.oneshot {
                        n.once_taken = true;
                    }
                    out.push(n);
                }
                FutSt::RecvBatch { h, max, got } if self.rx[*h] == HSt::Open && got.len() < *max && !s.q.is_empty() => {
                    let mut n = s.clone();
                    let v = n.q.remove(0);
                    let mut g = got.clone();
                    g.push(v);
                    n.futs[i] = FutSt::RecvBatch { h: *h, max: *max, got: g };
                    out.push(n);
                }
                _ => {}
            }
        }
        out
    }
    /// an unfinished send future on a still-open handle keeps the channel connected
    pub fn pending_send(&self, s: &MState) -> bool {
        s.futs.iter().any(|f| match f {
            FutSt::Send { h, fired: false, .. } => self.tx[*h] == HSt::Open,
            FutSt::SendBatch { h, vs, sent } => *sent < vs.len() && self.tx[*h] == HSt::Open,
            _ => false,
        })
    }
    pub fn close_set(&mut self) {
        let mut work: Vec<MState> = self.set.iter().cloned().collect();
        while let Some(s) = work.pop() {
            for n in self.successors(&s) {
                if self.set.insert(n.clone()) {
                    work.push(n);
                }
            }
        }
    }
    /// replace the state set by the union of `f(s)`; returns false (and leaves the set untouched) if empty
    fn refine(&mut self, f: impl Fn(&Model, &MState) -> Vec<MState>) -> bool {
        let mut next = BTreeSet::new();
        for s in &self.set {
            for n in f(self, s) {
                next.insert(n);
            }
        }
        if next.is_empty() {
            return false;
        }
        self.set = next;
        self.close_set();
        true
    }

    // ------------------------------------------------------------- handle bookkeeping
    pub fn add_tx(&mut self) -> usize {
        self.tx.push(HSt::Open);
        self.tx.len() - 1
    }
    pub fn add_rx(&mut self) -> usize {
        self.rx.push(HSt::Open);
        self.saw_disc.push(false);
        self.rx.len() - 1
    }
    pub fn drop_tx(&mut self, h: usize) {
        self.tx[h] = HSt::Gone;
        self.close_set();
    }
    pub fn drop_rx(&mut self, h: usize) {
        self.rx[h] = HSt::Gone;
        self.close_set();
    }
    pub fn close_tx(&mut self, h: usize, out: &Out) -> Result<(), Mismatch> {
        self.close_any(true, h, out)
    }
    pub fn close_rx(&mut self, h: usize, out: &Out) -> Result<(), Mismatch> {
        self.close_any(false, h, out)
    }
    fn close_any(&mut self, is_tx: bool, h: usize, out: &Out) -> Result<(), Mismatch> {
        let st = if is_tx { &mut self.tx[h] } else { &mut self.rx[h] };
        let r = match (*st, out) {
            (HSt::Open, Out::CloseOk) => {
                *st = HSt::Closed;
                Ok(())
            }
            (HSt::Closed, Out::CloseErr) => Ok(()),
            (HSt::Open, o) => {
                // keep the model usable: the handle is closed whatever it answered
                *st = HSt::Closed;
                Err(mm("C04", "close_result", format!("first close of an open handle returned {:?}, expected CloseOk", o)))
            }
            (_, o) => Err(mm("C04", "close_not_idempotent", format!("close of an already closed handle returned {:?}, expected CloseErr", o))),
        };
        self.close_set();
        r
    }

    // ------------------------------------------------------------- sends
    fn check_back(v: Id, got: &Option<Id>, must_carry: bool) -> Result<(), Mismatch> {
        match got {
            Some(x) if *x == v => Ok(()),
            Some(x) => Err(mm("C01", "value_not_returned", format!("error handed back #{} instead of #{}", x, v))),
            None if must_carry => Err(mm("C01", "value_not_returned", "error did not hand the value back".into())),
            None => Ok(()),
        }
    }
    /// can a blocking single send be issued without waiting (in every possible state)?
    pub fn send_nonblocking(&self, h: usize, n: usize) -> bool {
        if self.rendezvous() {
            // only the immediate rejection can be explored on one thread
            return self.tx[h] != HSt::Open || !self.any_rx();
        }
        // conservative: must have room whatever the closed flags are (a missing closed-handle check
        // is reported by the result, it must not hang the explorer)
        let extra = if self.stale_credit { self.unflushed } else { 0 };
        self.set.iter().all(|s| self.has_space(s, n + extra) && !(self.oneshot && s.once_sent))
    }
    /// a value that was handed to a receive future which was then dropped and that nobody received since
    pub fn orphaned(&self) -> Option<Id> {
        // only rendezvous channels hand a value to a specific waiting receive; in buffered
        // channels the model's "handed to the future" states are hypotheses, not facts
        if !self.rendezvous() {
            return None;
        }
        self.undone.iter().copied().find(|v| !self.received.contains(v))
    }
    pub fn recv_nonblocking(&self, _h: usize) -> bool {
        if self.orphaned().is_some() {
            // known weak spot (rendezvous): the value may be gone; never risk blocking on it
            return false;
        }
        let no_tx = !self.any_tx();
        self.set.iter().all(|s| !s.q.is_empty() || (no_tx && !self.pending_send(s)))
    }

    /// single send; `carries` = the error type can hand the value back (try_send yes, send no)
    pub fn send1(&mut self, h: usize, v: Id, out: &Out, carries: bool, opname: &str) -> Result<(), Mismatch> {
        // deterministic rejections first
        if self.tx[h] == HSt::Closed {
            return match out {
                Out::SendOk => Err(mm("C04", "closed_handle_accepts", format!("{} on a handle that was itself closed returned Ok", opname))),
                Out::SendClosed(b) | Out::SendFull(b) | Out::SendSent(b) => Self::check_back(v, b, carries),
                o => Err(mm("C04", "closed_handle_wrong_result", format!("{} on a closed handle returned {:?}", opname, o))),
            };
        }
        if !self.any_rx() {
            return match out {
                Out::SendOk => Err(mm("C04", "send_after_receivers_gone", format!("{} returned Ok although every receiver is dropped/closed", opname))),
                Out::SendClosed(b) => Self::check_back(v, b, carries),
                Out::SendSent(b) if self.oneshot => Self::check_back(v, b, carries),
                o => Err(mm("C04", "wrong_error_after_receivers_gone", format!("{} returned {:?}, expected Closed", opname, o))),
            };
        }
        let out2 = out.clone();
        let ok = self.refine(|m, s| {
            let mut res = vec![];
            if m.oneshot && s.once_sent {
                if matches!(out2, Out::SendSent(_)) {
                    res.push(s.clone());
                }
                return res;
            }
            if m.rendezvous() {
                match out2 {
                    Out::SendOk => {
                        for (j, g) in s.futs.iter().enumerate() {
                            if let FutSt::Recv { h: rh, got: None } = g {
                                if m.rx[*rh] == HSt::Open {
                                    let mut n = s.clone();
                                    n.futs[j] = FutSt::Recv { h: *rh, got: Some(v) };
                                    res.push(n);
                                }
                            }
                        }
                    }
                    Out::SendFull(_) => {
                        // Full is the answer when no receiver is waiting; a waiting (pending) receive
                        // future may or may not have registered, so Full is always acceptable.
                        res.push(s.clone());
                    }
                    _ => {}
                }
                return res;
            }
            if m.has_space(s, 1) {
                if out2 == Out::SendOk {
                    let mut n = s.clone();
                    n.q.push(v);
                    if m.oneshot {
                        n.once_sent = true;
                    }
                    res.push(n);
                }
            } else if matches!(out2, Out::SendFull(_)) {
                res.push(s.clone());
            }
            res
        });
        if ok {
            return match out {
                Out::SendFull(b) | Out::SendSent(b) => Self::check_back(v, b, carries),
                _ => Ok(()),
            };
        }
        Err(match out {
            Out::SendOk if self.oneshot => mm("C03", "oneshot_second_send_succeeds", format!("{} returned Ok but a value was already sent; {}", opname, self.describe())),
            Out::SendOk if self.rendezvous() && self.set.iter().any(|s| s.futs.iter().any(|f| matches!(f, FutSt::Recv { h, got: None } if self.rx[*h] == HSt::Closed))) => {
                let mut m = mm("C04", "closed_handle_accepts", format!("{} returned Ok: the value was taken by a receive future created on a receiver handle that was itself closed; {}", opname, self.describe()));
                m.op = Some("async.recv_future");
                m
            }
            Out::SendOk if self.rendezvous() => mm("C03", "rendezvous_send_without_receiver", format!("{} returned Ok with no receive in progress; {}", opname, self.describe())),
            Out::SendOk => mm("C03", "over_capacity", format!("{} returned Ok but the channel is full in every possible state; {}", opname, self.describe())),
            Out::SendFull(_) => mm("C03", "false_full", format!("{} returned Full but the channel has space; {}", opname, self.describe())),
            Out::SendClosed(_) => mm("C04", "spurious_closed", format!("{} returned Closed but a receiver is alive and the handle is open; {}", opname, self.describe())),
            o => mm("C01", "wrong_result", format!("{} returned {:?}; {}", opname, o, self.describe())),
        })
    }

    /// owned / in-place / blocking batch sends, normalised by the caller into (sent, left, reason)
    /// `form`: 0 = try_send_batch (Ok(n) | Err{sent,unsent,reason}), 1 = try_send_batch_mut, 2 = send_batch (blocking), 3 = send_batch_mut (blocking)
    pub fn send_batch(&mut self, h: usize, vs: &[Id], out: &Out, form: u8, opname: &str) -> Result<(), Mismatch> {
        let n = vs.len();
        // decode
        let (sent, left, reason_full, is_err): (usize, Vec<Id>, Option<bool>, bool) = match out {
            Out::BatchOk(k) => (*k, vs[(*k).min(n)..].to_vec(), None, false),
            Out::BatchErr { sent, unsent, full } => (*sent, unsent.clone(), Some(*full), true),
            Out::MutBatch { ok: Some(k), left } => (*k, left.clone(), None, false),
            Out::MutBatch { ok: None, left } => (n - left.len().min(n), left.clone(), Some(false), true),
            o => return Err(mm("C01", "wrong_result", format!("{} returned {:?}", opname, o))),
        };
        // accounting: sent + unsent == input, in order
        if sent > n || left != vs[sent..].to_vec() {
            return Err(mm("C01", "batch_accounting", format!("{} on {:?}: reported sent={} but what is left/unsent is {:?} (must be the input tail {:?})", opname, vs, sent, left, &vs[sent.min(n)..])));
        }
        if matches!(out, Out::BatchOk(k) if *k != n) {
            return Err(mm("C01", "batch_accounting", format!("{} returned Ok({}) for a batch of {}", opname, sent, n)));
        }
        if self.tx[h] == HSt::Closed {
            if sent > 0 {
                return Err(mm("C04", "closed_handle_accepts", format!("{} on a handle that was itself closed sent {} items", opname, sent)));
            }
            if n > 0 && !is_err {
                return Err(mm("C04", "closed_handle_accepts", format!("{} on a handle that was itself closed returned {:?}", opname, out)));
            }
            return Ok(());
        }
        if !self.any_rx() {
            if sent > 0 {
                return Err(mm("C04", "send_after_receivers_gone", format!("{} sent {} items although every receiver is dropped/closed", opname, sent)));
            }
            if n > 0 && (!is_err || reason_full == Some(true)) {
                return Err(mm("C04", "wrong_error_after_receivers_gone", format!("{} returned {:?}, expected a Closed error", opname, out)));
            }
            return Ok(());
        }
        if reason_full == Some(false) && form != 1 {
            return Err(mm("C04", "spurious_closed", format!("{} reported Closed but a receiver is alive; {}", opname, self.describe())));
        }
        if form == 1 && is_err {
            return Err(mm("C04", "spurious_closed", format!("{} returned Err(Closed) but a receiver is alive; {}", opname, self.describe())));
        }
        let vs2 = vs.to_vec();
        let ok = self.refine(|m, s| {
            let space = match m.cap {
                None => n,
                Some(c) => c.saturating_sub(s.q.len()).min(n),
            };
            if sent == space {
                let mut nn = s.clone();
                nn.q.extend_from_slice(&vs2[..sent]);
                vec![nn]
            } else {
                vec![]
            }
        });
        if ok {
            return Ok(());
        }
        let spaces: Vec<usize> = self.set.iter().map(|s| self.cap.map(|c| c.saturating_sub(s.q.len())).unwrap_or(n).min(n)).collect();
        let maxs = spaces.iter().copied().max().unwrap_or(0);
        if sent > maxs {
            Err(mm("C03", "over_capacity", format!("{} sent {} items but at most {} fit; {}", opname, sent, maxs, self.describe())))
        } else {
            Err(mm("C03", "false_full", format!("{} sent only {} of {} items although {} fit; {}", opname, sent, n, spaces.iter().min().unwrap(), self.describe())))
        }
    }

    // ------------------------------------------------------------- receives
    fn closed_sender_offer(&self, x: Id, opname: &str) -> Option<Mismatch> {
        for s in &self.set {
            for f in &s.futs {
                if let FutSt::Send { h, v, fired: false } = f {
                    if *v == x && self.tx[*h] == HSt::Closed {
                        let mut m = mm("C04", "closed_handle_accepts", format!("{} returned #{}, which a send future created on an already closed sender handle had offered", opname, x));
                        m.op = Some("async.send_future");
                        return Some(m);
                    }
                }
            }
        }
        None
    }
    fn classify_bad_value(&self, x: Id, opname: &str) -> Mismatch {
        if let Some(m) = self.closed_sender_offer(x, opname) {
            return m;
        }
        let in_q_front = self.set.iter().any(|s| s.q.first() == Some(&x));
        let in_q = self.set.iter().any(|s| s.q.contains(&x));
        if self.received.contains(&x) {
            mm("C01", "duplicate_delivery", format!("{} returned #{} which was already received; {}", opname, x, self.describe()))
        } else if in_q && !in_q_front {
            mm("C02", "fifo_order", format!("{} returned #{} which is not the oldest value; {}", opname, x, self.describe()))
        } else {
            mm("C01", "phantom_value", format!("{} returned #{} which is not in the channel; {}", opname, x, self.describe()))
        }
    }
    /// `empty_out`: what "nothing there but senders alive" looks like for this form (RecvEmpty / RecvTimeout / Pending)
    pub fn recv1(&mut self, h: usize, out: &Out, empty_out: &Out, opname: &str) -> Result<(), Mismatch> {
        if self.rx[h] == HSt::Closed {
            return match out {
                Out::Recv(x) => Err(mm("C04", "closed_handle_accepts", format!("{} on a receiver that was itself closed returned #{}", opname, x))),
                _ => Ok(()),
            };
        }
        if let Out::Recv(x) = out {
            if let Some(m) = self.closed_sender_offer(*x, opname) {
                return Err(m);
            }
            if self.saw_disc[h] {
                return Err(mm("C04", "value_after_disconnected", format!("{} returned #{} after this receiver had observed Disconnected", opname, x)));
            }
        }
        let no_tx = !self.any_tx();
        let out2 = out.clone();
        let empty2 = empty_out.clone();
        let ok = self.refine(|m, s| {
            let mut res = vec![];
            if let Some(front) = s.q.first() {
                if out2 == Out::Recv(*front) {
                    let mut n = s.clone();
                    n.q.remove(0);
                    if m.oneshot {
                        n.once_taken = true;
                    }
                    res.push(n);
                }
                return res;
            }
            if m.rendezvous() {
                if let Out::Recv(x) = out2 {
                    for (i, f) in s.futs.iter().enumerate() {
                        if let FutSt::Send { h: th, v, fired: false } = f {
                            if *v == x && m.tx[*th] == HSt::Open {
                                let mut n = s.clone();
                                n.futs[i] = FutSt::Send { h: *th, v: *v, fired: true };
                                res.push(n);
                            }
                        }
                    }
                    return res;
                }
            }
            // nothing to take
            let pending_send = m.pending_send(s);
            let disconnected = no_tx && !pending_send;
            if disconnected {
                if out2 == Out::RecvDisc || (m.oneshot && s.once_taken && out2 == empty2) {
                    res.push(s.clone());
                }
            } else if out2 == empty2 {
                res.push(s.clone());
            }
            res
        });
        if ok {
            match out {
                Out::Recv(x) => {
                    self.received.insert(*x);
                    self.unflushed += 1;
                }
                Out::RecvDisc => {
                    self.saw_disc[h] = true;
                    self.unflushed = 0;
                }
                _ => self.unflushed = 0,
            }
            return Ok(());
        }
        let all_nonempty = self.set.iter().all(|s| !s.q.is_empty());
        Err(match out {
            Out::Recv(x) => self.classify_bad_value(*x, opname),
            Out::RecvDisc if all_nonempty => mm("C04", "disconnected_before_drain", format!("{} returned Disconnected while values are still buffered; {}", opname, self.describe())),
            Out::RecvDisc => mm("C04", "spurious_disconnected", format!("{} returned Disconnected while a sender is alive; {}", opname, self.describe())),
            o if o == empty_out && all_nonempty && self.set.iter().all(|s| self.undone.contains(&s.q[0])) => {
                let mut m = mm("C06", "cancelled_recv_loses_value", format!("{} returned {:?}: value #{} had been handed to a receive future that was dropped before completing and is now lost (its send reported success); {}", opname, o, self.set.iter().next().unwrap().q[0], self.describe()));
                m.op = Some("drop.recv_future");
                m
            }
            o if o == empty_out && all_nonempty => mm("C02", "false_empty", format!("{} returned {:?} although a value is buffered; {}", opname, o, self.describe())),
            o if o == empty_out => mm("C04", "no_disconnected_after_drain", format!("{} returned {:?} although every sender is gone and the channel is drained; {}", opname, o, self.describe())),
            o => mm("C01", "wrong_result", format!("{} returned {:?}; {}", opname, o, self.describe())),
        })
    }

    pub fn recv_batch(&mut self, h: usize, max: usize, out: &Out, empty_out: &Out, opname: &str) -> Result<(), Mismatch> {
        let xs = match out {
            Out::RecvBatch(xs) => xs.clone(),
            _ => return self.recv1(h, out, empty_out, opname),
        };
        if self.rx[h] == HSt::Closed {
            return Err(mm("C04", "closed_handle_accepts", format!("{} on a receiver that was itself closed returned {:?}", opname, xs)));
        }
        if self.saw_disc[h] && !xs.is_empty() {
            return Err(mm("C04", "value_after_disconnected", format!("{} returned {:?} after this receiver had observed Disconnected", opname, xs)));
        }
        if xs.is_empty() || xs.len() > max {
            if max == 0 && xs.is_empty() {
                return Ok(());
            }
            return Err(mm("C01", "batch_accounting", format!("{}(max={}) returned {} items", opname, max, xs.len())));
        }
        let xs2 = xs.clone();
        let ok = self.refine(|_m, s| {
            if s.q.len() >= xs2.len() && s.q[..xs2.len()] == xs2[..] {
                let mut n = s.clone();
                n.q.drain(..xs2.len());
                vec![n]
            } else {
                vec![]
            }
        });
        if ok {
            for x in &xs {
                self.received.insert(*x);
            }
            self.unflushed += xs.len();
            return Ok(());
        }
        // classify by the first offending element
        let mut sorted = true;
        for s in &self.set {
            let pos: Vec<Option<usize>> = xs.iter().map(|x| s.q.iter().position(|y| y == x)).collect();
            if pos.iter().all(|p| p.is_some()) {
                sorted = false;
            }
        }
        if !sorted {
            return Err(mm("C02", "fifo_order", format!("{} returned {:?} which is not a prefix of the queue; {}", opname, xs, self.describe())));
        }
        Err(self.classify_bad_value(xs[0], opname))
    }

    // ------------------------------------------------------------- futures
    pub fn new_fut(&mut self, f: FutSt) -> usize {
        let old: Vec<MState> = self.set.iter().cloned().collect();
        self.set.clear();
        let mut idx = 0;
        for mut s in old {
            s.futs.push(f.clone());
            idx = s.futs.len() - 1;
            self.set.insert(s);
        }
        self.close_set();
        idx
    }
    pub fn drop_fut(&mut self, i: usize) {
        let mut und: Vec<Id> = vec![];
        for s in &self.set {
            match &s.futs[i] {
                FutSt::Recv { got: Some(v), .. } => und.push(*v),
                FutSt::RecvBatch { got, .. } => und.extend_from_slice(got),
                _ => {}
            }
        }
        self.undone.extend(und);
        let ok = self.refine(|_m, s| {
            let mut n = s.clone();
            match &s.futs[i] {
                FutSt::Recv { got: Some(v), .. } => n.q.insert(0, *v),
                FutSt::RecvBatch { got, .. } => {
                    let mut q = got.clone();
                    q.extend_from_slice(&n.q);
                    n.q = q;
                }
                _ => {}
            }
            n.futs[i] = FutSt::Dead;
            vec![n]
        });
        debug_assert!(ok);
    }
    pub fn poll_fut(&mut self, i: usize, out: &Out, opname: &str) -> Result<(), Mismatch> {
        if *out == Out::Pending {
            if matches!(self.set.iter().next().unwrap().futs[i], FutSt::Recv { .. } | FutSt::RecvBatch { .. }) {
                self.unflushed = 0;
            }
            return Ok(());
        }
        let kind = self.set.iter().next().unwrap().futs[i].clone();
        let any_rx = self.any_rx();
        let no_tx = !self.any_tx();
        match kind {
            FutSt::Dead => Err(mm("C06", "poll_after_ready", "harness polled a dead future".into())),
            FutSt::Send { h, v, .. } => match out {
                Out::SendOk => {
                    let ok = self.refine(|_m, s| match &s.futs[i] {
                        FutSt::Send { fired: true, .. } => {
                            let mut n = s.clone();
                            n.futs[i] = FutSt::Dead;
                            vec![n]
                        }
                        _ => vec![],
                    });
                    if ok {
                        Ok(())
                    } else if self.tx[h] == HSt::Closed {
                        self.kill_fut(i);
                        Err(mm("C04", "closed_handle_accepts", format!("{} on a closed handle completed Ok", opname)))
                    } else if !any_rx {
                        self.kill_fut(i);
                        Err(mm("C04", "send_after_receivers_gone", format!("{} completed Ok although every receiver is gone", opname)))
                    } else if self.rendezvous() {
                        self.kill_fut(i);
                        Err(mm("C03", "rendezvous_send_without_receiver", format!("{} completed Ok with no receive in progress; {}", opname, self.describe())))
                    } else {
                        let d = self.describe();
                        self.kill_fut(i);
                        Err(mm("C03", "over_capacity", format!("{} completed Ok but there was never space; {}", opname, d)))
                    }
                }
                Out::SendClosed(b) => {
                    Self::check_back(v, b, false)?;
                    if self.tx[h] != HSt::Closed && any_rx {
                        let d = self.describe();
                        self.kill_fut(i);
                        return Err(mm("C04", "spurious_closed", format!("{} completed Closed but a receiver is alive; {}", opname, d)));
                    }
                    let ok = self.refine(|_m, s| match &s.futs[i] {
                        FutSt::Send { fired: false, .. } => {
                            let mut n = s.clone();
                            n.futs[i] = FutSt::Dead;
                            vec![n]
                        }
                        _ => vec![],
                    });
                    if ok {
                        Ok(())
                    } else {
                        self.kill_fut(i);
                        Err(mm("C01", "failed_send_delivered", format!("{} completed Closed but its value #{} was delivered", opname, v)))
                    }
                }
                o => {
                    self.kill_fut(i);
                    Err(mm("C01", "wrong_result", format!("{} completed with {:?}", opname, o)))
                }
            },
            FutSt::SendBatch { h, vs, .. } => {
                let n = vs.len();
                let (sent, left, is_err) = match out {
                    Out::BatchOk(k) => (*k, vs[(*k).min(n)..].to_vec(), false),
                    Out::BatchErr { sent, unsent, .. } => (*sent, unsent.clone(), true),
                    o => {
                        self.kill_fut(i);
                        return Err(mm("C01", "wrong_result", format!("{} completed with {:?}", opname, o)));
                    }
                };
                if sent > n || left != vs[sent..].to_vec() || (!is_err && sent != n) {
                    self.kill_fut(i);
                    return Err(mm("C01", "batch_accounting", format!("{} on {:?}: sent={} unsent={:?}", opname, vs, sent, left)));
                }
                if is_err && self.tx[h] != HSt::Closed && any_rx {
                    let d = self.describe();
                    self.kill_fut(i);
                    return Err(mm("C04", "spurious_closed", format!("{} completed with a Closed error but a receiver is alive; {}", opname, d)));
                }
                let ok = self.refine(|_m, s| match &s.futs[i] {
                    FutSt::SendBatch { sent: k, .. } if *k == sent => {
                        let mut n = s.clone();
                        n.futs[i] = FutSt::Dead;
                        vec![n]
                    }
                    _ => vec![],
                });
                if ok {
                    Ok(())
                } else {
                    let d = self.describe();
                    self.kill_fut(i);
                    if self.tx[h] == HSt::Closed {
                        Err(mm("C04", "closed_handle_accepts", format!("{} on a handle that was itself closed reported sent={}; {}", opname, sent, d)))
                    } else if !any_rx {
                        Err(mm("C04", "send_after_receivers_gone", format!("{} reported sent={} although the channel is closed for it; {}", opname, sent, d)))
                    } else {
                        Err(mm("C03", "over_capacity", format!("{} reported sent={} which does not fit any possible state; {}", opname, sent, d)))
                    }
                }
            }
            FutSt::Recv { h, .. } => match out {
                Out::Recv(x) => {
                    if self.rx[h] == HSt::Closed {
                        self.kill_fut(i);
                        return Err(mm("C04", "closed_handle_accepts", format!("{} on a closed receiver returned #{}", opname, x)));
                    }
                    let x = *x;
                    let ok = self.refine(|_m, s| match &s.futs[i] {
                        FutSt::Recv { got: Some(g), .. } if *g == x => {
                            let mut n = s.clone();
                            n.futs[i] = FutSt::Dead;
                            vec![n]
                        }
                        _ => vec![],
                    });
                    if ok {
                        self.received.insert(x);
                        self.unflushed += 1;
                        Ok(())
                    } else {
                        let e = self.classify_bad_value(x, opname);
                        self.kill_fut(i);
                        Err(e)
                    }
                }
                Out::RecvDisc => {
                    if self.rx[h] == HSt::Closed {
                        self.kill_fut(i);
                        return Ok(());
                    }
                    let ok = self.refine(|_m, s| {
                        let pending_send = _m.pending_send(s);
                        match &s.futs[i] {
                            FutSt::Recv { got: None, .. } if s.q.is_empty() && no_tx && !pending_send => {
                                let mut n = s.clone();
                                n.futs[i] = FutSt::Dead;
                                vec![n]
                            }
                            _ => vec![],
                        }
                    });
                    if ok {
                        self.saw_disc[h] = true;
                        Ok(())
                    } else {
                        let d = self.describe();
                        self.kill_fut(i);
                        if no_tx {
                            Err(mm("C04", "disconnected_before_drain", format!("{} completed Disconnected while values are buffered; {}", opname, d)))
                        } else {
                            Err(mm("C04", "spurious_disconnected", format!("{} completed Disconnected while a sender is alive; {}", opname, d)))
                        }
                    }
                }
                o => {
                    self.kill_fut(i);
                    Err(mm("C01", "wrong_result", format!("{} completed with {:?}", opname, o)))
                }
            },
            FutSt::RecvBatch { h, max, .. } => match out {
                Out::RecvBatch(xs) => {
                    if self.rx[h] == HSt::Closed {
                        self.kill_fut(i);
                        return Err(mm("C04", "closed_handle_accepts", format!("{} on a closed receiver returned {:?}", opname, xs)));
                    }
                    if xs.is_empty() || xs.len() > max {
                        self.kill_fut(i);
                        return Err(mm("C01", "batch_accounting", format!("{}(max={}) returned {} items", opname, max, xs.len())));
                    }
                    let xs2 = xs.clone();
                    let ok = self.refine(|_m, s| match &s.futs[i] {
                        FutSt::RecvBatch { got, .. } if *got == xs2 => {
                            let mut n = s.clone();
                            n.futs[i] = FutSt::Dead;
                            vec![n]
                        }
                        _ => vec![],
                    });
                    if ok {
                        for x in xs {
                            self.received.insert(*x);
                        }
                        self.unflushed += xs.len();
                        Ok(())
                    } else {
                        let e = if xs.iter().all(|x| self.set.iter().any(|s| s.q.contains(x) || matches!(&s.futs[i], FutSt::RecvBatch{got,..} if got.contains(x)))) {
                            mm("C02", "fifo_order", format!("{} returned {:?} which is not a prefix of the queue; {}", opname, xs, self.describe()))
                        } else {
                            self.classify_bad_value(xs[0], opname)
                        };
                        self.kill_fut(i);
                        Err(e)
                    }
                }
                Out::RecvDisc => {
                    if self.rx[h] == HSt::Closed {
                        self.kill_fut(i);
                        return Ok(());
                    }
                    let ok = self.refine(|_m, s| {
                        let pending_send = _m.pending_send(s);
                        match &s.futs[i] {
                            FutSt::RecvBatch { got, .. } if got.is_empty() && s.q.is_empty() && no_tx && !pending_send => {
                                let mut n = s.clone();
                                n.futs[i] = FutSt::Dead;
                                vec![n]
                            }
                            _ => vec![],
                        }
                    });
                    if ok {
                        self.saw_disc[h] = true;
                        Ok(())
                    } else {
                        let d = self.describe();
                        self.kill_fut(i);
                        if no_tx {
                            Err(mm("C04", "disconnected_before_drain", format!("{} completed Disconnected while values are buffered; {}", opname, d)))
                        } else {
                            Err(mm("C04", "spurious_disconnected", format!("{} completed Disconnected while a sender is alive; {}", opname, d)))
                        }
                    }
                }
                o => {
                    self.kill_fut(i);
                    Err(mm("C01", "wrong_result", format!("{} completed with {:?}", opname, o)))
                }
            },
        }
    }
    fn kill_fut(&mut self, i: usize) {
        let old: Vec<MState> = self.set.iter().cloned().collect();
        self.set.clear();
        for mut s in old {
            s.futs[i] = FutSt::Dead;
            self.set.insert(s);
        }
    }
    pub fn fut_alive(&self, i: usize) -> bool {
        self.set.iter().next().map(|s| !matches!(s.futs.get(i), Some(FutSt::Dead) | None)).unwrap_or(false)
    }

    // ------------------------------------------------------------- observers
    /// `len()` as an observation: refines the state set
    pub fn observe_len(&mut self, len: usize, who: &str) -> Result<(), Mismatch> {
        if self.rendezvous() || self.oneshot || !self.any_rx() {
            return Ok(());
        }
        if let Some(c) = self.cap {
            if len > c {
                return Err(mm("C03", "len_exceeds_capacity", format!("{}.len() = {} > capacity {}", who, len, c)));
            }
        }
        // a value handed to a pending receive future is no longer counted; one held by a pending
        // send future may or may not be: both readings are states of the set already
        let ok = self.refine(|_m, s| if s.q.len() == len { vec![s.clone()] } else { vec![] });
        if ok {
            Ok(())
        } else if self.set.iter().all(|s| s.q.len() < len) && self.set.iter().any(|s| s.futs.iter().any(|f| matches!(f, FutSt::Send { h, .. } | FutSt::SendBatch { h, .. } if self.tx[*h] == HSt::Closed))) {
            let batch = self.set.iter().any(|s| s.futs.iter().any(|f| matches!(f, FutSt::SendBatch { h, .. } if self.tx[*h] == HSt::Closed)));
            let mut m = mm("C04", "closed_handle_accepts", format!("{}.len() = {}: a send future created on a sender handle that was itself closed has put values into the channel; {}", who, len, self.describe()));
            m.op = Some(if batch { "async.send_batch_future" } else { "async.send_future" });
            Err(m)
        } else if len > 0 && self.saw_disc.iter().zip(self.rx.iter()).any(|(d, h)| *d && *h == HSt::Open) && self.set.iter().all(|s| s.q.len() < len) {
            let mut m = mm("C04", "disconnected_before_drain", format!("a live receiver has observed Disconnected, yet {}.len() = {}: a value that was sent successfully is still buffered (only a pending receive future of another receiver could still take it); {}", who, len, self.describe()));
            m.op = Some("async.recv_future");
            Err(m)
        } else {
            Err(mm("C03", "len_mismatch", format!("{}.len() = {} but {}", who, len, self.describe())))
        }
    }
    pub fn check_flag(&self, name: &'static str, val: bool, who: &str) -> Result<(), Mismatch> {
        if self.rendezvous() || self.oneshot || !self.any_rx() {
            return Ok(());
        }
        let ok = self.set.iter().any(|s| match name {
            "is_empty" => s.q.is_empty() == val,
            "is_full" => match self.cap {
                Some(c) => (s.q.len() >= c) == val,
                None => !val,
            },
            _ => true,
        });
        if ok {
            Ok(())
        } else {
            Err(mm("C03", if name == "is_full" { "is_full_mismatch" } else { "is_empty_mismatch" }, format!("{}.{}() = {} but {}", who, name, val, self.describe())))
        }
    }
}
