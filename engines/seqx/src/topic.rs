//! C08: exhaustive single-thread histories on the topic pub/sub channel against a routing model.
use fibre::error::*;
use fibre::spmc::topic::{self, AsyncTopicReceiver, AsyncTopicSender, TopicReceiver, TopicSender};
use serde::{Deserialize, Serialize};
use std::collections::{BTreeSet, VecDeque};
use std::panic::{catch_unwind, AssertUnwindSafe};
use std::time::{Duration, Instant};
use vcommon::{Scenario, Violation};

type T = u8;
type Id = u32;

enum Tx {
    S(TopicSender<T, Id>),
    A(AsyncTopicSender<T, Id>),
}
enum Rx {
    S(TopicReceiver<T, Id>),
    A(AsyncTopicReceiver<T, Id>),
}

#[derive(Clone, Debug, Serialize, Deserialize, PartialEq, Eq)]
pub struct Cfg {
    pub cap: usize,
    pub tx_async: bool,
    pub rx_async: bool,
    pub depth: usize,
    pub slim: bool,
    /// explore only the subtree below the k-th action enabled in the initial state (one child process per subtree)
    #[serde(default)]
    pub shard: Option<usize>,
}
impl Cfg {
    pub fn name(&self) -> String {
        format!(
            "topic/cap{}/{}{}/d{}{}{}",
            self.cap,
            if self.tx_async { "A" } else { "S" },
            if self.rx_async { "A" } else { "S" },
            self.depth,
            if self.slim { "/slim" } else { "" },
            match self.shard {
                Some(k) => format!("/s{:02}", k),
                None => String::new(),
            }
        )
    }
}

#[derive(Clone, Copy, Debug, Serialize, Deserialize, PartialEq, Eq, PartialOrd, Ord)]
pub enum Act {
    Send(usize, T),
    TryRecv(usize),
    RecvTimeout0(usize),
    Sub(usize, T),
    Unsub(usize, T),
    CloneS(usize),
    CloneR(usize),
    CloseS(usize),
    CloseR(usize),
    DropS(usize),
    DropR(usize),
    ConvS(usize),
    ConvR(usize),
}
#[derive(Clone, Debug, PartialEq, Eq, Serialize)]
pub enum Out {
    Unit,
    SendOk,
    SendClosed,
    Got(T, Id),
    Empty,
    Disc,
    Timeout,
    CloseOk,
    CloseErr,
    Panic(String),
}

#[derive(Clone, Copy, PartialEq, Eq, Debug)]
enum H {
    Open,
    Closed,
    Gone,
}
struct MRx {
    st: H,
    subs: BTreeSet<T>,
    mbox: VecDeque<(T, Id)>,
    saw_disc: bool,
}
#[derive(Debug, Clone)]
pub struct Fail {
    pub rule: &'static str,
    pub op: &'static str,
    pub msg: String,
}

struct World {
    cap: usize,
    txs: Vec<Option<Tx>>,
    rxs: Vec<Option<Rx>>,
    mtx: Vec<H>,
    mrx: Vec<MRx>,
    next: Id,
    log: Vec<(Act, Out)>,
}

impl World {
    fn new(cfg: &Cfg) -> World {
        let (t, r) = if cfg.tx_async && cfg.rx_async {
            let (t, r) = topic::channel_async::<T, Id>(cfg.cap);
            (Tx::A(t), Rx::A(r))
        } else {
            let (t, r) = topic::channel::<T, Id>(cfg.cap);
            (if cfg.tx_async { Tx::A(t.to_async()) } else { Tx::S(t) }, if cfg.rx_async { Rx::A(r.to_async()) } else { Rx::S(r) })
        };
        World { cap: cfg.cap, txs: vec![Some(t)], rxs: vec![Some(r)], mtx: vec![H::Open], mrx: vec![MRx { st: H::Open, subs: BTreeSet::new(), mbox: VecDeque::new(), saw_disc: false }], next: 1, log: vec![] }
    }
    fn enabled(&self, cfg: &Cfg) -> Vec<Act> {
        let mut v = vec![];
        for (i, t) in self.txs.iter().enumerate() {
            if t.is_none() {
                continue;
            }
            v.push(Act::Send(i, 0));
            v.push(Act::Send(i, 1));
            v.push(Act::CloseS(i));
            v.push(Act::DropS(i));
            // only the sync sender is Clone
            if self.txs.iter().filter(|x| x.is_some()).count() < 2 && self.mtx[i] == H::Open && matches!(t, Some(Tx::S(_))) {
                v.push(Act::CloneS(i));
            }
            if !cfg.slim {
                v.push(Act::ConvS(i));
            }
        }
        for (i, r) in self.rxs.iter().enumerate() {
            if r.is_none() {
                continue;
            }
            v.push(Act::TryRecv(i));
            if matches!(r, Some(Rx::S(_))) && !cfg.slim {
                v.push(Act::RecvTimeout0(i));
            }
            v.push(Act::Sub(i, 0));
            v.push(Act::Sub(i, 1));
            v.push(Act::Unsub(i, 0));
            v.push(Act::CloseR(i));
            v.push(Act::DropR(i));
            if self.rxs.iter().filter(|x| x.is_some()).count() < 2 && self.mrx[i].st == H::Open {
                v.push(Act::CloneR(i));
            }
            if !cfg.slim {
                v.push(Act::ConvR(i));
            }
        }
        v
    }
    fn any_tx(&self) -> bool {
        self.mtx.iter().any(|h| *h == H::Open)
    }
    fn any_rx(&self) -> bool {
        self.mrx.iter().any(|r| r.st == H::Open)
    }
    fn apply(&mut self, a: Act) -> Result<Out, Fail> {
        let r = catch_unwind(AssertUnwindSafe(|| self.apply_inner(a)));
        match r {
            Ok(x) => x,
            Err(p) => {
                let m = p.downcast_ref::<String>().cloned().or_else(|| p.downcast_ref::<&str>().map(|s| s.to_string())).unwrap_or("panic".into());
                self.log.push((a, Out::Panic(m.clone())));
                Err(Fail { rule: "panic", op: "any", msg: format!("{:?} panicked: {}", a, m) })
            }
        }
    }
    fn apply_inner(&mut self, a: Act) -> Result<Out, Fail> {
        let (out, res): (Out, Result<(), Fail>) = match a {
            Act::Send(i, t) => {
                let id = self.next;
                self.next += 1;
                let r = match self.txs[i].as_ref().unwrap() {
                    Tx::S(s) => s.send(t, id),
                    Tx::A(s) => s.send(t, id),
                };
                let out = match r {
                    Ok(()) => Out::SendOk,
                    Err(_) => Out::SendClosed,
                };
                let res = if self.mtx[i] == H::Closed {
                    if out == Out::SendOk {
                        Err(Fail { rule: "closed_handle_accepts", op: "send", msg: "send on a sender handle that was itself closed returned Ok".into() })
                    } else {
                        Ok(())
                    }
                } else if !self.any_rx() {
                    if out == Out::SendOk {
                        Err(Fail { rule: "send_after_receivers_gone", op: "send", msg: "send returned Ok although every receiver handle is closed or dropped".into() })
                    } else {
                        Ok(())
                    }
                } else if out != Out::SendOk {
                    Err(Fail { rule: "spurious_closed", op: "send", msg: "send returned Closed although a receiver handle is alive and this sender is open (publishing never blocks or fails while receivers exist)".into() })
                } else {
                    for r in self.mrx.iter_mut() {
                        if r.st == H::Open && r.subs.contains(&t) && r.mbox.len() < self.cap {
                            r.mbox.push_back((t, id));
                        }
                    }
                    Ok(())
                };
                (out, res)
            }
            Act::TryRecv(i) | Act::RecvTimeout0(i) => {
                let timed = matches!(a, Act::RecvTimeout0(_));
                let out = match self.rxs[i].as_ref().unwrap() {
                    Rx::S(r) => {
                        if timed {
                            match r.recv_timeout(Duration::ZERO) {
                                Ok((t, v)) => Out::Got(t, v),
                                Err(RecvErrorTimeout::Timeout) => Out::Timeout,
                                Err(RecvErrorTimeout::Disconnected) => Out::Disc,
                            }
                        } else {
                            match r.try_recv() {
                                Ok((t, v)) => Out::Got(t, v),
                                Err(TryRecvError::Empty) => Out::Empty,
                                Err(TryRecvError::Disconnected) => Out::Disc,
                            }
                        }
                    }
                    Rx::A(r) => match r.try_recv() {
                        Ok((t, v)) => Out::Got(t, v),
                        Err(TryRecvError::Empty) => Out::Empty,
                        Err(TryRecvError::Disconnected) => Out::Disc,
                    },
                };
                let op: &'static str = if timed { "recv_timeout" } else { "try_recv" };
                let any_tx = self.any_tx();
                let m = &mut self.mrx[i];
                let res = if m.st == H::Closed {
                    if let Out::Got(..) = out {
                        Err(Fail { rule: "closed_handle_accepts", op, msg: format!("{} on a receiver that was itself closed returned {:?}", op, out) })
                    } else {
                        Ok(())
                    }
                } else if let Some(front) = m.mbox.front().copied() {
                    if out == Out::Got(front.0, front.1) {
                        m.mbox.pop_front();
                        if m.saw_disc {
                            Err(Fail { rule: "value_after_disconnected", op, msg: format!("{} returned {:?} after this receiver had observed Disconnected", op, out) })
                        } else {
                            Ok(())
                        }
                    } else {
                        let rule = match out {
                            Out::Got(t, _) if !m.subs.contains(&t) && !m.mbox.iter().any(|x| x.0 == t) => "unsubscribed_topic_delivered",
                            Out::Got(..) => "wrong_message",
                            Out::Disc => "disconnected_before_drain",
                            _ => "message_lost",
                        };
                        Err(Fail { rule, op, msg: format!("{} returned {:?} but the mailbox model holds {:?} (subscriptions {:?})", op, out, m.mbox, m.subs) })
                    }
                } else {
                    let expect = if !any_tx { Out::Disc } else if timed { Out::Timeout } else { Out::Empty };
                    if out == expect {
                        if out == Out::Disc {
                            m.saw_disc = true;
                        }
                        Ok(())
                    } else {
                        let rule = match out {
                            Out::Got(t, _) if !m.subs.contains(&t) => "unsubscribed_topic_delivered",
                            Out::Got(..) => "phantom_or_duplicate_message",
                            Out::Disc => "disconnected_while_sender_alive",
                            _ => "no_disconnect_after_senders_gone",
                        };
                        Err(Fail { rule, op, msg: format!("{} returned {:?}, expected {:?} (mailbox empty, open sender handles: {}, subscriptions {:?})", op, out, expect, any_tx, m.subs) })
                    }
                };
                (out, res)
            }
            Act::Sub(i, t) => {
                match self.rxs[i].as_ref().unwrap() {
                    Rx::S(r) => r.subscribe(t),
                    Rx::A(r) => r.subscribe(t),
                }
                if self.mrx[i].st == H::Open {
                    self.mrx[i].subs.insert(t);
                }
                (Out::Unit, Ok(()))
            }
            Act::Unsub(i, t) => {
                match self.rxs[i].as_ref().unwrap() {
                    Rx::S(r) => r.unsubscribe(&t),
                    Rx::A(r) => r.unsubscribe(&t),
                }
                self.mrx[i].subs.remove(&t);
                (Out::Unit, Ok(()))
            }
            Act::CloneS(i) => {
                let c = match self.txs[i].as_ref().unwrap() {
                    Tx::S(s) => Tx::S(s.clone()),
                    Tx::A(_) => unreachable!("AsyncTopicSender is not Clone"),
                };
                self.txs.push(Some(c));
                self.mtx.push(H::Open);
                (Out::Unit, Ok(()))
            }
            Act::CloneR(i) => {
                let c = match self.rxs[i].as_ref().unwrap() {
                    Rx::S(r) => Rx::S(r.clone()),
                    Rx::A(r) => Rx::A(r.clone()),
                };
                self.rxs.push(Some(c));
                let subs = self.mrx[i].subs.clone();
                // once every sender handle object is gone the channel core is freed: a clone made then is
                // born disconnected (documented: "create a dead receiver") and counts as already closed
                let dead = self.mtx.iter().all(|h| *h == H::Gone);
                self.mrx.push(MRx { st: if dead { H::Closed } else { H::Open }, subs: if dead { BTreeSet::new() } else { subs }, mbox: VecDeque::new(), saw_disc: false });
                (Out::Unit, Ok(()))
            }
            Act::CloseS(i) => {
                let r = match self.txs[i].as_ref().unwrap() {
                    Tx::S(s) => s.close(),
                    Tx::A(s) => s.close(),
                };
                let out = if r.is_ok() { Out::CloseOk } else { Out::CloseErr };
                let res = match (self.mtx[i], &out) {
                    (H::Open, Out::CloseOk) | (H::Closed, Out::CloseErr) => Ok(()),
                    (H::Open, _) => Err(Fail { rule: "close_result", op: "sender.close", msg: "first close of an open sender returned CloseError".into() }),
                    _ => Err(Fail { rule: "close_not_idempotent", op: "sender.close", msg: "second close of a sender returned Ok".into() }),
                };
                self.mtx[i] = H::Closed;
                (out, res)
            }
            Act::CloseR(i) => {
                let r = match self.rxs[i].as_ref().unwrap() {
                    Rx::S(s) => s.close(),
                    Rx::A(s) => s.close(),
                };
                let out = if r.is_ok() { Out::CloseOk } else { Out::CloseErr };
                let res = match (self.mrx[i].st, &out) {
                    (H::Open, Out::CloseOk) | (H::Closed, Out::CloseErr) => Ok(()),
                    (H::Open, _) => Err(Fail { rule: "close_result", op: "receiver.close", msg: "first close of an open receiver returned CloseError".into() }),
                    _ => Err(Fail { rule: "close_not_idempotent", op: "receiver.close", msg: "second close of a receiver returned Ok".into() }),
                };
                self.mrx[i].st = H::Closed;
                self.mrx[i].subs.clear();
                (out, res)
            }
            Act::DropS(i) => {
                self.txs[i] = None;
                self.mtx[i] = H::Gone;
                (Out::Unit, Ok(()))
            }
            Act::DropR(i) => {
                self.rxs[i] = None;
                self.mrx[i].st = H::Gone;
                (Out::Unit, Ok(()))
            }
            Act::ConvS(i) => {
                let t = self.txs[i].take().unwrap();
                self.txs[i] = Some(match t {
                    Tx::S(s) => Tx::A(s.to_async()),
                    Tx::A(s) => Tx::S(s.to_sync()),
                });
                (Out::Unit, Ok(()))
            }
            Act::ConvR(i) => {
                let t = self.rxs[i].take().unwrap();
                self.rxs[i] = Some(match t {
                    Rx::S(s) => Rx::A(s.to_async()),
                    Rx::A(s) => Rx::S(s.to_sync()),
                });
                (Out::Unit, Ok(()))
            }
        };
        self.log.push((a, out.clone()));
        res.map(|_| out)
    }
}


pub fn replay(cfg: &Cfg, hist: &[Act]) -> (Vec<(Act, Out)>, Option<Fail>) {
    let mut w = World::new(cfg);
    for a in hist {
        if let Err(f) = w.apply(*a) {
            return (w.log.clone(), Some(f));
        }
    }
    (w.log.clone(), None)
}

/// handle-protocol rules belong to C04 (its statement covers topic), routing/disconnect rules to C08
fn prop_of(rule: &str) -> &'static str {
    match rule {
        "closed_handle_accepts" | "close_result" | "close_not_idempotent" | "send_after_receivers_gone" | "spurious_closed" | "value_after_disconnected" => "C04",
        _ => "C08",
    }
}

fn witness(h: &[Act]) -> String {
    h.iter()
        .map(|a| match a {
            Act::Send(i, t) => format!("s{}!{}", i, t),
            Act::TryRecv(i) => format!("r{}?", i),
            Act::RecvTimeout0(i) => format!("r{}?t", i),
            Act::Sub(i, t) => format!("r{}+{}", i, t),
            Act::Unsub(i, t) => format!("r{}-{}", i, t),
            Act::CloneS(i) => format!("s{}c", i),
            Act::CloneR(i) => format!("r{}c", i),
            Act::CloseS(i) => format!("s{}x", i),
            Act::CloseR(i) => format!("r{}x", i),
            Act::DropS(i) => format!("s{}d", i),
            Act::DropR(i) => format!("r{}d", i),
            Act::ConvS(i) => format!("s{}~", i),
            Act::ConvR(i) => format!("r{}~", i),
        })
        .collect::<Vec<_>>()
        .join(",")
}

pub fn run_cfg(cfg: &Cfg) -> (Scenario, Vec<Violation>) {
    let t0 = Instant::now();
    let mut nodes = 0u64;
    let mut steps = 0u64;
    let mut nontrivial = 0u64;
    let mut outcomes: BTreeSet<u64> = BTreeSet::new();
    let mut samples = vec![];
    let mut fails: Vec<(Fail, Vec<Act>)> = vec![];
    fn node(cfg: &Cfg, hist: &mut Vec<Act>, nodes: &mut u64, steps: &mut u64, nontrivial: &mut u64, outcomes: &mut BTreeSet<u64>, samples: &mut Vec<serde_json::Value>, fails: &mut Vec<(Fail, Vec<Act>)>) {
        let mut w = World::new(cfg);
        let n = hist.len();
        for (k, a) in hist.iter().enumerate() {
            *steps += 1;
            if let Err(f) = w.apply(*a) {
                if k + 1 != n {
                    panic!("replay diverged at {} of {:?}: {:?}", k, hist, f);
                }
                *nodes += 1;
                let (_, again) = replay(cfg, hist);
                let f = match again {
                    Some(g) if g.rule == f.rule && g.op == f.op => f,
                    _ => Fail { rule: "UNSTABLE", op: f.op, msg: format!("did not reproduce identically: {:?}", f) },
                };
                if let Some(old) = fails.iter_mut().find(|(o, _)| o.rule == f.rule && o.op == f.op) {
                    if hist.len() < old.1.len() {
                        *old = (f, hist.clone());
                    }
                } else {
                    fails.push((f, hist.clone()));
                }
                return;
            }
        }
        *nodes += 1;
        let outs: Vec<&Out> = w.log.iter().map(|(_, o)| o).collect();
        outcomes.insert(vcommon::fnv(format!("{:?}", outs).as_bytes()));
        if w.log.iter().any(|(_, o)| matches!(o, Out::Got(..))) {
            *nontrivial += 1;
            if samples.len() < 2 && n == cfg.depth {
                samples.push(serde_json::json!({"history": format!("{:?}", w.log)}));
            }
        }
        let mut acts = if n < cfg.depth { w.enabled(cfg) } else { vec![] };
        if let (0, Some(k)) = (n, cfg.shard) {
            acts = acts.into_iter().skip(k).take(1).collect();
        }
        drop(w);
        for a in acts {
            hist.push(a);
            node(cfg, hist, nodes, steps, nontrivial, outcomes, samples, fails);
            hist.pop();
        }
    }
    let mut hist = vec![];
    node(cfg, &mut hist, &mut nodes, &mut steps, &mut nontrivial, &mut outcomes, &mut samples, &mut fails);
    let mut viol = vec![];
    for (f, h) in &fails {
        let (log, _) = replay(cfg, h);
        viol.push(Violation {
            property: prop_of(f.rule).into(),
            fingerprint: format!("seqx/topic/{}.{}/{}@{}", prop_of(f.rule), f.rule, f.op, witness(h)),
            message: format!("{} | history: {:?}", f.msg, log),
            scenario: cfg.name(),
            replay: serde_json::json!({"kind": "topic", "cfg": cfg, "history": h}),
        });
    }
    let mut bound = std::collections::BTreeMap::new();
    bound.insert("depth".to_string(), serde_json::json!(cfg.depth));
    bound.insert("topics".to_string(), serde_json::json!(2));
    bound.insert("max_handles_per_side".to_string(), serde_json::json!(2));
    bound.insert("mailbox_capacity".to_string(), serde_json::json!(cfg.cap));
    (
        Scenario {
            name: cfg.name(),
            properties: vec!["C08".into(), "C04".into()],
            executions: nodes,
            states: nodes,
            transitions: steps,
            distinct_outcomes: outcomes.len() as u64,
            nontrivial,
            nontrivial_rule: "history in which at least one message was received".into(),
            exhaustive: true,
            caps: vec![],
            bound,
            samples,
            wall_s: t0.elapsed().as_secs_f64(),
        },
        viol,
    )
}

pub fn root_actions(cfg: &Cfg) -> usize {
    World::new(cfg).enabled(cfg).len()
}

pub fn configs(tier: &str) -> Vec<Cfg> {
    let quick = tier == "quick";
    let mut base = vec![];
    for cap in [1usize, 2] {
        for (ta, ra) in [(false, false), (true, true)] {
            base.push(Cfg { cap, tx_async: ta, rx_async: ra, depth: if quick { 5 } else { 6 }, slim: quick, shard: None });
        }
    }
    base.push(Cfg { cap: 1, tx_async: false, rx_async: true, depth: if quick { 5 } else { 6 }, slim: quick, shard: None });
    base.push(Cfg { cap: 1, tx_async: true, rx_async: false, depth: if quick { 5 } else { 6 }, slim: quick, shard: None });
    if !quick {
        base.push(Cfg { cap: 1, tx_async: false, rx_async: false, depth: 7, slim: true, shard: None });
    }
    // one child process per subtree below each action enabled in the initial state
    let mut v = vec![];
    for c in base {
        for k in 0..root_actions(&c) {
            v.push(Cfg { shard: Some(k), ..c.clone() });
        }
    }
    v
}
