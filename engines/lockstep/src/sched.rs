//! A CHESS-style controlled scheduler for real OS threads. Exactly one registered thread runs at
//! a time; scheduling points are the hybrid-lock acquire hooks (H3), park/unpark/spawn brackets in
//! the cache, and explicit `point()` calls in harness code. The scheduler tracks which hybrid
//! locks are held, so a thread is only scheduled when its pending acquisition can be granted:
//! real acquisitions never block and a thread may be preempted while holding a lock.
use std::cell::Cell;
use std::collections::HashMap;
use std::sync::{Arc, Condvar, Mutex};
use std::thread::ThreadId;

#[derive(Clone, Debug, PartialEq)]
pub enum Pend {
    Start,
    Acquire { addr: usize, shared: bool },
    Point,
    Unparked,
}
#[derive(Clone, Debug, PartialEq)]
enum St {
    Unborn,
    Ready(Pend),
    Running,
    Parked,
    Finished,
}
#[derive(Default)]
struct LockSt {
    writer: Option<usize>,
    readers: Vec<usize>,
}
#[derive(Clone, Debug)]
pub struct Point {
    pub enabled: Vec<usize>,
    pub chosen: usize,
    /// the previously running thread was still enabled (so choosing index != 0 is a preemption)
    pub cur_enabled: bool,
}
struct Inner {
    st: Vec<St>,
    token: Vec<bool>,
    os_ids: HashMap<ThreadId, usize>,
    current: Option<usize>,
    last_running: Option<usize>,
    locks: HashMap<usize, LockSt>,
    prefix: Vec<usize>,
    trace: Vec<Point>,
    announced: usize,
    started: bool,
    pub deadlock: Option<String>,
    pub error: Option<String>,
    aborting: bool,
}
pub struct Sched {
    inner: Mutex<Inner>,
    cv: Condvar,
}
pub struct SchedAbort;

static GLOBAL: Mutex<Option<Arc<Sched>>> = Mutex::new(None);
thread_local! { static MY: Cell<Option<usize>> = Cell::new(None); }

fn global() -> Option<Arc<Sched>> {
    GLOBAL.lock().unwrap().clone()
}

impl Inner {
    fn grantable(&self, p: &Pend) -> bool {
        match p {
            Pend::Acquire { addr, shared } => match self.locks.get(addr) {
                None => true,
                Some(l) => {
                    if *shared {
                        l.writer.is_none()
                    } else {
                        l.writer.is_none() && l.readers.is_empty()
                    }
                }
            },
            _ => true,
        }
    }
    /// choose who runs next; called by the thread that stops running (yield / park / finish)
    fn pick_next(&mut self) {
        if self.aborting || !self.started {
            return;
        }
        if self.announced > 0 {
            // a spawned thread has not checked in yet: it will call pick_next itself
            self.current = None;
            return;
        }
        let mut enabled: Vec<usize> = vec![];
        let cur = self.last_running;
        let is_en = |i: usize, s: &Inner| matches!(&s.st[i], St::Ready(p) if s.grantable(p));
        let mut cur_enabled = false;
        if let Some(c) = cur {
            if is_en(c, self) {
                enabled.push(c);
                cur_enabled = true;
            }
        }
        for i in 0..self.st.len() {
            if Some(i) != cur && is_en(i, self) {
                enabled.push(i);
            }
        }
        if enabled.is_empty() {
            self.current = None;
            if self.st.iter().all(|s| *s == St::Finished) {
                return;
            }
            let stuck: Vec<String> = self.st.iter().enumerate().filter(|(_, s)| **s != St::Finished).map(|(i, s)| format!("T{}:{:?}", i, s)).collect();
            self.deadlock = Some(format!("no thread can run: {}", stuck.join(", ")));
            self.aborting = true;
            return;
        }
        let k = self.trace.len();
        let idx = if k < self.prefix.len() { self.prefix[k] } else { 0 };
        if idx >= enabled.len() {
            self.error = Some(format!("replay divergence at point {}: choice {} but only {} enabled", k, idx, enabled.len()));
            self.aborting = true;
            self.current = None;
            return;
        }
        self.trace.push(Point { enabled: enabled.clone(), chosen: idx, cur_enabled });
        self.current = Some(enabled[idx]);
    }
    fn grant(&mut self, me: usize) {
        if let St::Ready(Pend::Acquire { addr, shared }) = self.st[me].clone() {
            let l = self.locks.entry(addr).or_default();
            if shared {
                l.readers.push(me);
            } else {
                l.writer = Some(me);
            }
        }
        self.st[me] = St::Running;
        self.last_running = Some(me);
    }
}

fn abort_now() -> ! {
    std::panic::resume_unwind(Box::new(SchedAbort))
}

impl Sched {
    pub fn new(n: usize, prefix: Vec<usize>) -> Arc<Sched> {
        Arc::new(Sched {
            inner: Mutex::new(Inner {
                st: vec![St::Unborn; n],
                token: vec![false; n],
                os_ids: HashMap::new(),
                current: None,
                last_running: None,
                locks: HashMap::new(),
                prefix,
                trace: vec![],
                announced: 0,
                started: false,
                deadlock: None,
                error: None,
                aborting: false,
            }),
            cv: Condvar::new(),
        })
    }
    fn wait_turn(&self, me: usize, mut g: std::sync::MutexGuard<'_, Inner>) {
        loop {
            if g.aborting {
                drop(g);
                if std::thread::panicking() {
                    return;
                }
                abort_now();
            }
            if g.current == Some(me) {
                break;
            }
            g = self.cv.wait(g).unwrap();
        }
        g.grant(me);
    }
    fn yield_(&self, me: usize, p: Pend) {
        let mut g = self.inner.lock().unwrap();
        if g.aborting {
            drop(g);
            if std::thread::panicking() {
                return;
            }
            abort_now();
        }
        g.st[me] = St::Ready(p);
        g.pick_next();
        self.cv.notify_all();
        self.wait_turn(me, g);
    }
}

// ------------------------------------------------------------------ entry points used by harness threads
pub fn install(s: Option<Arc<Sched>>) {
    *GLOBAL.lock().unwrap() = s;
}
/// a harness thread checks in with its fixed id and waits for its first turn
pub fn register(id: usize) {
    let s = global().expect("scheduler installed");
    MY.with(|m| m.set(Some(id)));
    let mut g = s.inner.lock().unwrap();
    g.os_ids.insert(std::thread::current().id(), id);
    g.st[id] = St::Ready(Pend::Start);
    s.cv.notify_all();
    s.wait_turn(id, g);
}
pub fn finish() {
    let Some(s) = global() else { return };
    let Some(me) = MY.with(|m| m.get()) else { return };
    MY.with(|m| m.set(None));
    let mut g = s.inner.lock().unwrap();
    // a finishing thread cannot hold a lock any more
    for l in g.locks.values_mut() {
        if l.writer == Some(me) {
            l.writer = None;
        }
        l.readers.retain(|r| *r != me);
    }
    g.st[me] = St::Finished;
    g.pick_next();
    s.cv.notify_all();
}
/// explicit scheduling point in harness code (loader body, between operations)
pub fn point() {
    if let (Some(s), Some(me)) = (global(), MY.with(|m| m.get())) {
        s.yield_(me, Pend::Point);
    }
}
/// main thread: wait until all n initial threads are ready, then start; returns when every thread
/// finished or the run was aborted (deadlock / divergence); `false` on wall-clock timeout
pub fn drive(s: &Arc<Sched>, n: usize, timeout: std::time::Duration) -> bool {
    let t0 = std::time::Instant::now();
    let mut g = s.inner.lock().unwrap();
    while !(0..n).all(|i| matches!(g.st[i], St::Ready(Pend::Start))) {
        let (ng, _) = s.cv.wait_timeout(g, std::time::Duration::from_millis(50)).unwrap();
        g = ng;
        if t0.elapsed() > timeout {
            return false;
        }
    }
    g.started = true;
    g.pick_next();
    s.cv.notify_all();
    loop {
        if g.st.iter().all(|x| *x == St::Finished) {
            return true;
        }
        if g.aborting && g.st.iter().all(|x| !matches!(x, St::Running)) {
            // threads unwind on their own; give them a moment
            drop(g);
            std::thread::sleep(std::time::Duration::from_millis(2));
            return true;
        }
        let (ng, _) = s.cv.wait_timeout(g, std::time::Duration::from_millis(20)).unwrap();
        g = ng;
        if t0.elapsed() > timeout {
            g.aborting = true;
            g.error = Some("wall-clock timeout".into());
            s.cv.notify_all();
            return false;
        }
    }
}
pub fn results(s: &Arc<Sched>) -> (Vec<Point>, Option<String>, Option<String>) {
    let g = s.inner.lock().unwrap();
    (g.trace.clone(), g.deadlock.clone(), g.error.clone())
}

// ------------------------------------------------------------------ hooks called from fibre / fibre_cache
pub fn lock_hook(event: u8, addr: usize, mode: u8) {
    let Some(me) = MY.with(|m| m.get()) else { return };
    let Some(s) = global() else { return };
    match event {
        0 => s.yield_(me, Pend::Acquire { addr, shared: mode == 1 }),
        1 => s.yield_(me, Pend::Point),
        2 => {
            let mut g = s.inner.lock().unwrap();
            let l = g.locks.entry(addr).or_default();
            if mode == 1 {
                l.readers.push(me);
            } else {
                l.writer = Some(me);
            }
        }
        _ => {
            let mut g = s.inner.lock().unwrap();
            if let Some(l) = g.locks.get_mut(&addr) {
                if mode == 1 {
                    if let Some(p) = l.readers.iter().position(|r| *r == me) {
                        l.readers.remove(p);
                    }
                } else if l.writer == Some(me) {
                    l.writer = None;
                }
            }
        }
    }
}
pub fn park_hook() {
    let (Some(s), Some(me)) = (global(), MY.with(|m| m.get())) else {
        std::thread::park();
        return;
    };
    let mut g = s.inner.lock().unwrap();
    if g.aborting {
        drop(g);
        if std::thread::panicking() {
            return;
        }
        abort_now();
    }
    if g.token[me] {
        g.token[me] = false;
        return;
    }
    g.st[me] = St::Parked;
    g.pick_next();
    s.cv.notify_all();
    s.wait_turn(me, g);
}
pub fn unpark_hook(t: ThreadId) {
    let Some(s) = global() else { return };
    let mut g = s.inner.lock().unwrap();
    let Some(id) = g.os_ids.get(&t).copied() else { return };
    if g.st[id] == St::Parked {
        g.st[id] = St::Ready(Pend::Unparked);
    } else {
        g.token[id] = true;
    }
}
pub fn spawn_announce_hook() -> usize {
    let Some(s) = global() else { return 0 };
    if MY.with(|m| m.get()).is_none() {
        return usize::MAX;
    }
    let mut g = s.inner.lock().unwrap();
    g.st.push(St::Unborn);
    g.token.push(false);
    g.announced += 1;
    g.st.len() - 1
}
pub fn child_enter_hook(id: usize) {
    if id == usize::MAX {
        return;
    }
    let Some(s) = global() else { return };
    MY.with(|m| m.set(Some(id)));
    let mut g = s.inner.lock().unwrap();
    g.os_ids.insert(std::thread::current().id(), id);
    g.st[id] = St::Ready(Pend::Start);
    g.announced -= 1;
    if g.current.is_none() && !g.st.iter().any(|x| *x == St::Running) {
        g.pick_next();
    }
    s.cv.notify_all();
    s.wait_turn(id, g);
}
pub fn child_exit_hook() {
    finish();
}
