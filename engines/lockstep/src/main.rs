//! lockstep (engine E3): exhaustive critical-section interleavings of real cache threads under a
//! controlled scheduler, with iterative preemption bounding. Serves C11, C13, C15, C16.
mod sched;

use fibre_cache::verif as hook;
use fibre_cache::{AsyncCache, Cache, CacheBuilder, EvictionListener, EvictionReason, TaskSpawner};
use std::future::Future;
use std::pin::Pin;
use std::task::{Context, Poll, Wake, Waker};
use serde::{Deserialize, Serialize};
use std::collections::{BTreeMap, BTreeSet};
use std::hash::{BuildHasher, Hasher};
use std::panic::{catch_unwind, AssertUnwindSafe};
use std::sync::atomic::{AtomicU64, AtomicUsize, Ordering};
use std::sync::{Arc, Mutex};
use std::time::{Duration, Instant};
use vcommon::{Report, Scenario, Violation};

#[derive(Clone, Default)]
pub struct IdBuild;
pub struct IdHasher(u64);
impl Hasher for IdHasher {
    fn finish(&self) -> u64 {
        self.0
    }
    fn write(&mut self, bytes: &[u8]) {
        for b in bytes {
            self.0 = (self.0 << 8) | *b as u64;
        }
    }
    fn write_u32(&mut self, i: u32) {
        self.0 = i as u64;
    }
}
impl BuildHasher for IdBuild {
    type Hasher = IdHasher;
    fn build_hasher(&self) -> IdHasher {
        IdHasher(0)
    }
}
type K = u32;
type V = u64;
type C = Cache<K, V, IdBuild>;
type AC = AsyncCache<K, V, IdBuild>;

// ------------------------------------------------------------------ tasks under the scheduler
/// One task per OS thread: a Pending poll parks the thread *in the scheduler* (a scheduling point
/// at which the thread is not runnable), the waker makes it runnable again. The hybrid-lock futures
/// never return Pending here (hook H3 holds the thread back until the lock is grantable), so the
/// only genuine suspension is a task awaiting a load.
struct SchedWaker(std::thread::ThreadId);
impl Wake for SchedWaker {
    fn wake(self: Arc<Self>) {
        sched::unpark_hook(self.0);
    }
}
fn sched_block_on<F: Future>(f: F) -> F::Output {
    let mut f = std::pin::pin!(f);
    let w = Waker::from(Arc::new(SchedWaker(std::thread::current().id())));
    let mut cx = Context::from_waker(&w);
    loop {
        if let Poll::Ready(v) = f.as_mut().poll(&mut cx) {
            return v;
        }
        sched::park_hook();
    }
}
/// The executor handed to the cache for async loaders: every spawned task is a scheduled thread.
struct SchedSpawner;
impl TaskSpawner for SchedSpawner {
    fn spawn(&self, future: Pin<Box<dyn Future<Output = ()> + Send>>) {
        let token = sched::spawn_announce_hook();
        std::thread::spawn(move || {
            sched::child_enter_hook(token);
            let r = catch_unwind(AssertUnwindSafe(|| sched_block_on(future)));
            sched::child_exit_hook();
            if let Err(p) = r {
                std::panic::resume_unwind(p);
            }
        });
    }
}

// ------------------------------------------------------------------ per-run context
#[derive(Clone, Debug, PartialEq, Eq, Serialize)]
pub enum Op {
    Insert(K, V, u64),
    Remove(K),
    Invalidate(K),
    Fetch(K),
    Peek(K),
    OrInsert(K, V),
    Compute(K, V),
    Clear,
    FetchWith(K),
    Janitor(usize),
    Maint,
}
#[derive(Clone, Debug, Serialize)]
pub struct Ev {
    pub thread: usize,
    pub op: Op,
    pub call: u64,
    pub ret: u64,
    pub result: Option<V>,
}
struct Recorder(Arc<Mutex<Vec<(K, V, EvictionReason)>>>);
impl EvictionListener<K, V> for Recorder {
    fn on_evict(&self, key: K, value: Arc<V>, reason: EvictionReason) {
        self.0.lock().unwrap().push((key, *value, reason));
    }
}
pub struct Ctx {
    cache: C,
    acache: AC,
    notes: Arc<Mutex<Vec<(K, V, EvictionReason)>>>,
    seq: AtomicU64,
    log: Mutex<Vec<Ev>>,
    loader_calls: Arc<Mutex<Vec<K>>>,
    next_loaded: Arc<AtomicU64>,
    capacity: Option<u64>,
    costs: Mutex<BTreeMap<V, u64>>,
}
impl Ctx {
    fn run_op(&self, thread: usize, op: Op, asy: bool) -> Option<V> {
        let call = self.seq.fetch_add(1, Ordering::SeqCst);
        let result = if asy { self.run_async(&op) } else { self.run_sync(&op) };
        let ret = self.seq.fetch_add(1, Ordering::SeqCst);
        self.log.lock().unwrap().push(Ev { thread, op, call, ret, result });
        result
    }
    fn run_async(&self, op: &Op) -> Option<V> {
        let c = &self.acache;
        match op {
            Op::Insert(k, v, cost) => {
                self.costs.lock().unwrap().insert(*v, *cost);
                sched_block_on(c.insert(*k, *v, *cost));
                None
            }
            Op::Remove(k) => sched_block_on(c.remove(k)).map(|v| *v),
            Op::Invalidate(k) => {
                sched_block_on(c.invalidate(k));
                None
            }
            Op::Fetch(k) => sched_block_on(c.fetch(k)).map(|v| *v),
            Op::Peek(k) => sched_block_on(c.peek(k)).map(|v| *v),
            Op::OrInsert(k, v) => {
                self.costs.lock().unwrap().insert(*v, 1);
                Some(*sched_block_on(c.entry(*k)).or_insert(*v, 1))
            }
            Op::Compute(k, nv) => {
                let mut old = None;
                let done = sched_block_on(c.compute(k, |v| {
                    old = Some(*v);
                    *v = *nv;
                }));
                if done {
                    old
                } else {
                    None
                }
            }
            Op::Clear => {
                sched_block_on(c.clear());
                None
            }
            Op::FetchWith(k) => Some(*sched_block_on(c.fetch_with(k))),
            Op::Janitor(shard) => {
                hook::janitor_pass(&self.cache, *shard, hook::JanitorWork::Periodic);
                None
            }
            Op::Maint => {
                sched_block_on(c.run_maintenance());
                None
            }
        }
    }
    fn run_sync(&self, op: &Op) -> Option<V> {
        let result = match op {
            Op::Insert(k, v, c) => {
                self.costs.lock().unwrap().insert(*v, *c);
                self.cache.insert(*k, *v, *c);
                None
            }
            Op::Remove(k) => self.cache.remove(k).map(|v| *v),
            Op::Invalidate(k) => {
                self.cache.invalidate(k);
                None
            }
            Op::Fetch(k) => self.cache.fetch(k).map(|v| *v),
            Op::Peek(k) => self.cache.peek(k).map(|v| *v),
            Op::OrInsert(k, v) => {
                self.costs.lock().unwrap().insert(*v, 1);
                Some(*self.cache.entry(*k).or_insert(*v, 1))
            }
            Op::Compute(k, nv) => {
                let mut old = None;
                let done = self.cache.compute(k, |v| {
                    old = Some(*v);
                    *v = *nv;
                });
                if done {
                    old
                } else {
                    None
                }
            }
            Op::Clear => {
                self.cache.clear();
                None
            }
            Op::FetchWith(k) => Some(*self.cache.fetch_with(k)),
            Op::Janitor(shard) => {
                hook::janitor_pass(&self.cache, *shard, hook::JanitorWork::Periodic);
                None
            }
            Op::Maint => {
                self.cache.run_maintenance();
                None
            }
        };
        result
    }
}

#[derive(Clone, Debug, Serialize, Deserialize, PartialEq, Eq)]
pub struct Scen {
    pub name: String,
    pub props: Vec<String>,
    pub capacity: Option<u64>,
    pub shards: usize,
    pub policy: String,
    pub ttl_s: Option<u64>,
    /// time-to-idle in virtual seconds
    #[serde(default)]
    pub tti_s: Option<u64>,
    pub grace_s: Option<u64>,
    pub loader: bool,
    /// operations executed sequentially before the threads start
    pub setup: Vec<SOp>,
    pub threads: Vec<Vec<SOp>>,
    /// advance the virtual clock by this many seconds after setup
    pub advance_after_setup_s: u64,
    pub oracle: String,
    /// which threads go through the AsyncCache handle (missing = sync)
    #[serde(default)]
    pub async_threads: Vec<bool>,
    /// configure an async loader (run by `SchedSpawner`) instead of the sync loader thread
    #[serde(default)]
    pub async_loader: bool,
}
/// serialisable operation (values are assigned by position)
#[derive(Clone, Debug, Serialize, Deserialize, PartialEq, Eq)]
pub enum SOp {
    Insert(K, u64),
    Remove(K),
    Invalidate(K),
    Fetch(K),
    Peek(K),
    OrInsert(K),
    Compute(K),
    Clear,
    FetchWith(K),
    Janitor(usize),
    Maint,
}

fn build_ctx(sc: &Scen) -> Arc<Ctx> {
    hook::set_background_threads(false);
    hook::set_clock_nanos(1_000_000_000);
    hook::set_maintenance_coin(Some(false));
    let notes = Arc::new(Mutex::new(Vec::new()));
    let loader_calls = Arc::new(Mutex::new(Vec::new()));
    let next_loaded = Arc::new(AtomicU64::new(1000));
    let mut b: CacheBuilder<K, V, IdBuild> = CacheBuilder::<K, V, IdBuild>::new().hasher(IdBuild).shards(sc.shards).maintenance_on_introspection(false);
    b = match sc.capacity {
        Some(c) => b.capacity(c),
        None => b.unbounded(),
    };
    if let Some(t) = sc.ttl_s {
        b = b.time_to_live(Duration::from_secs(t));
    }
    if let Some(t) = sc.tti_s {
        b = b.time_to_idle(Duration::from_secs(t));
    }
    if let Some(g) = sc.grace_s {
        b = b.stale_while_revalidate(Duration::from_secs(g));
    }
    b = b.eviction_listener(Recorder(notes.clone()));
    match sc.policy.as_str() {
        "lru" => b = b.cache_policy_factory(|| Box::new(fibre_cache::policy::lru::LruPolicy::new())),
        "fifo" => b = b.cache_policy_factory(|| Box::new(fibre_cache::policy::fifo::Fifo::new())),
        _ => {}
    }
    if sc.loader && sc.async_loader {
        let lc = loader_calls.clone();
        let nl = next_loaded.clone();
        b = b.spawner(Arc::new(SchedSpawner)).async_loader(move |k: K| {
            let lc = lc.clone();
            let nl = nl.clone();
            async move {
                sched::point();
                lc.lock().unwrap().push(k);
                let v = nl.fetch_add(1, Ordering::SeqCst);
                sched::point();
                (v, 1)
            }
        });
    } else if sc.loader {
        let lc = loader_calls.clone();
        let nl = next_loaded.clone();
        b = b.loader(move |k: K| {
            // the loader body is harness code: it contains scheduling points
            sched::point();
            lc.lock().unwrap().push(k);
            let v = nl.fetch_add(1, Ordering::SeqCst);
            sched::point();
            (v, 1)
        });
    }
    let cache = b.build().expect("build");
    let acache = cache.to_async();
    Arc::new(Ctx { cache, acache, notes, seq: AtomicU64::new(0), log: Mutex::new(vec![]), loader_calls, next_loaded, capacity: sc.capacity, costs: Mutex::new(BTreeMap::new()) })
}

fn concretise(ops: &[SOp], thread: usize, counter: &mut u64) -> Vec<Op> {
    ops.iter()
        .map(|o| {
            let mut id = || {
                *counter += 1;
                (thread as u64 + 1) * 100 + *counter
            };
            match o {
                SOp::Insert(k, c) => Op::Insert(*k, id(), *c),
                SOp::Remove(k) => Op::Remove(*k),
                SOp::Invalidate(k) => Op::Invalidate(*k),
                SOp::Fetch(k) => Op::Fetch(*k),
                SOp::Peek(k) => Op::Peek(*k),
                SOp::OrInsert(k) => Op::OrInsert(*k, id()),
                SOp::Compute(k) => Op::Compute(*k, id()),
                SOp::Clear => Op::Clear,
                SOp::FetchWith(k) => Op::FetchWith(*k),
                SOp::Janitor(s) => Op::Janitor(*s),
                SOp::Maint => Op::Maint,
            }
        })
        .collect()
}

pub struct RunOut {
    trace: Vec<sched::Point>,
    deadlock: Option<String>,
    error: Option<String>,
    log: Vec<Ev>,
    panics: Vec<String>,
    fails: Vec<Fail>,
}
#[derive(Clone, Debug)]
pub struct Fail {
    prop: &'static str,
    rule: &'static str,
    msg: String,
}

fn run_schedule(sc: &Scen, prefix: &[usize]) -> RunOut {
    let ctx = build_ctx(sc);
    // sequential setup (no scheduler installed: hooks are no-ops for unregistered threads)
    let mut counter = 0u64;
    for op in concretise(&sc.setup, 9, &mut counter) {
        ctx.run_op(99, op, false);
    }
    if sc.advance_after_setup_s > 0 {
        hook::advance_clock_nanos(sc.advance_after_setup_s * 1_000_000_000);
    }
    hook::pump_listener(&ctx.cache);
    let n = sc.threads.len();
    let s = sched::Sched::new(n, prefix.to_vec());
    sched::install(Some(s.clone()));
    let panics = Arc::new(Mutex::new(Vec::new()));
    let mut handles = vec![];
    for (i, ops) in sc.threads.iter().enumerate() {
        let mut c = 0u64;
        let ops = concretise(ops, i, &mut c);
        let ctx = ctx.clone();
        let panics = panics.clone();
        let asy = sc.async_threads.get(i).copied().unwrap_or(false);
        handles.push(std::thread::spawn(move || {
            sched::register(i);
            let r = catch_unwind(AssertUnwindSafe(|| {
                for op in ops {
                    ctx.run_op(i, op, asy);
                    sched::point();
                }
            }));
            if let Err(p) = r {
                if p.downcast_ref::<sched::SchedAbort>().is_none() {
                    let m = p.downcast_ref::<String>().cloned().or_else(|| p.downcast_ref::<&str>().map(|s| s.to_string())).unwrap_or("panic".into());
                    panics.lock().unwrap().push(format!("T{}: {}", i, m));
                }
            }
            sched::finish();
        }));
    }
    let ok = sched::drive(&s, n, Duration::from_secs(20));
    let (trace, deadlock, mut error) = sched::results(&s);
    if !ok && error.is_none() {
        error = Some("scheduler timeout".into());
    }
    if deadlock.is_none() && error.is_none() {
        for h in handles {
            let _ = h.join();
        }
    }
    sched::install(None);
    let log = ctx.log.lock().unwrap().clone();
    let panics = panics.lock().unwrap().clone();
    let mut fails = vec![];
    if deadlock.is_none() && error.is_none() && panics.is_empty() {
        fails = check(sc, &ctx, &log);
    }
    if deadlock.is_some() || error.is_some() {
        // threads may still be unwinding / parked inside the cache: leak the context
        std::mem::forget(ctx);
    }
    RunOut { trace, deadlock, error, log, panics, fails }
}

// ------------------------------------------------------------------ oracles at quiescence
fn check(sc: &Scen, ctx: &Ctx, log: &[Ev]) -> Vec<Fail> {
    let mut out = vec![];
    hook::pump_listener(&ctx.cache);
    let dump = hook::dump(&ctx.cache);
    let costs = ctx.costs.lock().unwrap().clone();
    // C13: gauge == resident cost at quiescence
    let sum: u64 = dump.iter().map(|d| d.2).sum();
    let gauge = hook::current_cost_raw(&ctx.cache);
    if sc.oracle.contains("cost") && gauge != sum {
        out.push(Fail { prop: "C13", rule: if gauge > sum { "current_cost_mismatch.gauge_too_high" } else { "current_cost_mismatch.gauge_too_low" }, msg: format!("at quiescence current_cost reports {} but the resident entries cost {} ({:?})", gauge, sum, dump.iter().map(|d| (d.0, *d.1, d.2)).collect::<Vec<_>>()) });
    }
    if sc.oracle.contains("capacity") {
        // one forced full maintenance pass, then the bound
        ctx.cache.run_maintenance();
        ctx.cache.run_maintenance();
        hook::pump_listener(&ctx.cache);
        let d2 = hook::dump(&ctx.cache);
        let s2: u64 = d2.iter().map(|d| d.2).sum();
        let g2 = hook::current_cost_raw(&ctx.cache);
        if let Some(cap) = ctx.capacity {
            if s2 > cap {
                out.push(Fail { prop: "C13", rule: "over_capacity_after_maintenance", msg: format!("after quiescence + maintenance the resident entries cost {} > capacity {} (gauge {})", s2, cap, g2) });
            }
        }
        if g2 != s2 && out.is_empty() {
            out.push(Fail { prop: "C13", rule: if g2 > s2 { "current_cost_mismatch.gauge_too_high" } else { "current_cost_mismatch.gauge_too_low" }, msg: format!("after quiescence + maintenance current_cost reports {} but the resident entries cost {}", g2, s2) });
        }
    }
    // C16: notifications truthful and unique
    if sc.oracle.contains("listener") {
        let notes = ctx.notes.lock().unwrap().clone();
        let resident: BTreeSet<V> = hook::dump(&ctx.cache).iter().map(|d| *d.1).collect();
        let mut seen = BTreeSet::new();
        for (k, id, reason) in &notes {
            if !seen.insert(*id) {
                out.push(Fail { prop: "C16", rule: "duplicate_notification", msg: format!("value #{} of key {} was notified twice ({:?}); all notifications {:?}", id, k, reason, notes) });
                break;
            }
            if resident.contains(id) {
                out.push(Fail { prop: "C16", rule: "notified_but_still_resident", msg: format!("({}, #{}, {:?}) notified but still resident", k, id, reason) });
                break;
            }
            if !costs.contains_key(id) && *id < 1000 {
                out.push(Fail { prop: "C16", rule: "phantom_notification", msg: format!("({}, #{}, {:?}) was never written", k, id, reason) });
                break;
            }
        }
        // every user removal that returned a value must be notified as Invalidated
        for e in log {
            if let (Op::Remove(k), Some(v)) = (&e.op, e.result) {
                if !notes.iter().any(|(nk, nv, r)| nk == k && *nv == v && *r == EvictionReason::Invalidated) {
                    out.push(Fail { prop: "C16", rule: "removal_not_notified", msg: format!("remove({}) returned #{} but the listener was not told Invalidated; notifications {:?}", k, v, notes) });
                    break;
                }
            }
        }
        // programs without overwrites / clear: a value that was written and is no longer resident was removed by
        // remove/invalidate, expiry or eviction, so it must have been notified (exactly once, checked above)
        if sc.oracle.contains("complete") {
            for (id, _) in costs.iter() {
                if !resident.contains(id) && !notes.iter().any(|(_, nv, _)| nv == id) {
                    // or_insert losers are never stored
                    let stored = !log.iter().any(|e| matches!(&e.op, Op::OrInsert(_, v) if v == id) && e.result != Some(*id));
                    if stored {
                        out.push(Fail { prop: "C16", rule: "removal_not_notified", msg: format!("value #{} was written and is gone but the listener was never told; notifications {:?}", id, notes) });
                        break;
                    }
                }
            }
        }
        // reasons: a value a user remove() returned is Invalidated; in a program without user removals nothing is
        for (k, id, reason) in &notes {
            let user = log.iter().any(|e| matches!((&e.op, e.result), (Op::Remove(rk), Some(v)) if rk == k && v == *id)) || log.iter().any(|e| matches!(&e.op, Op::Invalidate(rk) if rk == k));
            if *reason == EvictionReason::Invalidated && !user {
                out.push(Fail { prop: "C16", rule: "wrong_reason", msg: format!("({}, #{}) notified as Invalidated but no remove/invalidate of that key took it; notifications {:?}", k, id, notes) });
                break;
            }
        }
    }
    // C15: single flight
    if sc.oracle.contains("loader") {
        let calls = ctx.loader_calls.lock().unwrap().clone();
        let mut per_key: BTreeMap<K, usize> = BTreeMap::new();
        for k in &calls {
            *per_key.entry(*k).or_default() += 1;
        }
        let expected_gens: usize = if sc.oracle.contains("loader2") { 2 } else { 1 };
        for (k, n) in &per_key {
            if *n > expected_gens {
                out.push(Fail { prop: "C15", rule: "loader_ran_more_than_once", msg: format!("the loader ran {} times for key {} (one miss generation expected{}); results {:?}", n, k, if expected_gens == 2 { " per generation, two generations" } else { "" }, log.iter().filter(|e| matches!(e.op, Op::FetchWith(_))).map(|e| (e.thread, e.result)).collect::<Vec<_>>()) });
            }
        }
        let fw: Vec<&Ev> = log.iter().filter(|e| matches!(e.op, Op::FetchWith(kk) if true && { let _ = kk; true })).collect();
        let mut by_key: BTreeMap<K, BTreeSet<V>> = BTreeMap::new();
        for e in &fw {
            if let (Op::FetchWith(k), Some(v)) = (&e.op, e.result) {
                by_key.entry(*k).or_default().insert(v);
            }
        }
        if !sc.oracle.contains("loader2") && !sc.oracle.contains("stale") {
            for (k, vals) in &by_key {
                if vals.len() > 1 && per_key.get(k).copied().unwrap_or(0) <= 1 {
                    out.push(Fail { prop: "C15", rule: "callers_got_different_values", msg: format!("fetch_with({}) callers returned {:?} although the loader ran once", k, vals) });
                }
            }
        }
        // the loaded value is resident with its cost
        if !sc.oracle.contains("noresident") {
            for (k, vals) in &by_key {
                let res: Vec<V> = dump.iter().filter(|d| d.0 == *k).map(|d| *d.1).collect();
                if let Some(last) = vals.iter().max() {
                    if res.is_empty() && ctx.capacity.is_none() {
                        out.push(Fail { prop: "C15", rule: "loaded_value_not_resident", msg: format!("fetch_with({}) returned {:?} (latest #{}) but the key is not resident in an unbounded cache", k, vals, last) });
                    }
                }
            }
        }
    }
    // C12: a live entry of an unbounded cache is not lost. For every key: if the operation that returned last among the
    // writes / removals of that key is an insert (all of them written at the current virtual time, i.e. unexpired), its
    // value must be resident at quiescence
    if sc.oracle.contains("live") && ctx.capacity.is_none() {
        let mut last: BTreeMap<K, &Ev> = BTreeMap::new();
        for e in log.iter().filter(|e| e.thread != 99) {
            let k = match &e.op {
                Op::Insert(k, _, _) | Op::Remove(k) | Op::Invalidate(k) => Some(*k),
                _ => None,
            };
            if let Some(k) = k {
                if last.get(&k).map_or(true, |o| o.ret < e.ret) {
                    last.insert(k, e);
                }
            }
        }
        for (k, e) in last {
            if let Op::Insert(_, v, _) = &e.op {
                // no other write/removal of the key may overlap it (then the order is not determined)
                let overlapped = log.iter().any(|o| !std::ptr::eq(o, e) && o.thread != 99 && matches!(&o.op, Op::Insert(kk, _, _) | Op::Remove(kk) | Op::Invalidate(kk) if *kk == k) && o.ret > e.call);
                if !overlapped && !dump.iter().any(|d| d.0 == k && *d.1 == *v) {
                    // the value is gone although nobody removed it and it cannot have expired: if the listener was not
                    // told about it either, a removal happened silently (or was reported for another value)
                    if sc.oracle.contains("listener") && !ctx.notes.lock().unwrap().iter().any(|(nk, nv, _)| *nk == k && nv == v) {
                        out.push(Fail { prop: "C16", rule: "removal_not_notified", msg: format!("value #{} of key {} was removed by the cache (it is not resident, no user operation removed it) but the listener was never told about it; notifications {:?}", v, k, ctx.notes.lock().unwrap().clone()) });
                    }
                    out.push(Fail { prop: "C12", rule: "live_entry_missing", msg: format!("insert({}, #{}) completed last and the entry cannot have expired (written at the current virtual time), yet it is not resident at quiescence in an unbounded cache; resident {:?}; notifications {:?}", k, v, dump.iter().map(|d| (d.0, *d.1)).collect::<Vec<_>>(), ctx.notes.lock().unwrap().clone()) });
                }
            }
        }
    }
    // C11: linearizability of the recorded history against the per-key register
    if sc.oracle.contains("linear") {
        if let Some(f) = linearizable(sc, log) {
            out.push(f);
        }
    }
    out
}

/// brute-force linearisation: find an order of the operations, consistent with real-time precedence
/// (a.ret < b.call ⇒ a before b), under which every result agrees with a sequential map
fn linearizable(sc: &Scen, log: &[Ev]) -> Option<Fail> {
    let evs: Vec<&Ev> = log.iter().filter(|e| e.thread != 99).collect();
    let n = evs.len();
    if n > 8 {
        return None;
    }
    // initial state = after setup
    let mut init: BTreeMap<K, V> = BTreeMap::new();
    for e in log.iter().filter(|e| e.thread == 99) {
        apply_seq(&mut init, e, true);
    }
    fn apply_seq(m: &mut BTreeMap<K, V>, e: &Ev, trust: bool) -> bool {
        match &e.op {
            Op::Insert(k, v, _) => {
                m.insert(*k, *v);
                true
            }
            Op::Remove(k) => {
                let cur = m.remove(k);
                trust || cur == e.result
            }
            Op::Invalidate(k) => {
                m.remove(k);
                true
            }
            Op::Fetch(k) | Op::Peek(k) => trust || m.get(k).copied() == e.result,
            Op::OrInsert(k, v) => {
                let cur = *m.entry(*k).or_insert(*v);
                trust || Some(cur) == e.result
            }
            Op::Compute(k, nv) => match m.get_mut(k) {
                Some(slot) => {
                    let old = *slot;
                    *slot = *nv;
                    trust || e.result == Some(old)
                }
                None => trust || e.result.is_none(),
            },
            Op::Clear => {
                m.clear();
                true
            }
            // fetch_with: a hit returns the current value; a miss loads a fresh value (the harness loader hands
            // out ids >= 1000, each once) and makes it the current one
            Op::FetchWith(k) => match m.get(k).copied() {
                Some(cur) => trust || e.result == Some(cur),
                None => {
                    if let Some(v) = e.result {
                        m.insert(*k, v);
                    }
                    trust || e.result.map_or(false, |v| v >= 1000)
                }
            },
            _ => true,
        }
    }
    let mut order: Vec<usize> = vec![];
    let mut used = vec![false; n];
    fn rec(evs: &[&Ev], used: &mut Vec<bool>, order: &mut Vec<usize>, m: &BTreeMap<K, V>) -> bool {
        if order.len() == evs.len() {
            return true;
        }
        for i in 0..evs.len() {
            if used[i] {
                continue;
            }
            // all operations that returned before i was called must already be placed
            if (0..evs.len()).any(|j| !used[j] && j != i && evs[j].ret < evs[i].call) {
                continue;
            }
            let mut m2 = m.clone();
            if !apply_seq(&mut m2, evs[i], false) {
                continue;
            }
            used[i] = true;
            order.push(i);
            if rec(evs, used, order, &m2) {
                return true;
            }
            order.pop();
            used[i] = false;
        }
        false
    }
    if rec(&evs, &mut used, &mut order, &init) {
        None
    } else {
        let _ = sc;
        Some(Fail { prop: "C11", rule: "not_linearizable", msg: format!("no sequential order of the recorded operations explains their results: {:?}", evs.iter().map(|e| (e.thread, &e.op, e.call, e.ret, e.result)).collect::<Vec<_>>()) })
    }
}

// ------------------------------------------------------------------ scenarios
fn scenarios(tier: &str) -> Vec<Scen> {
    let quick = tier == "quick";
    let base = Scen { name: String::new(), props: vec![], capacity: None, shards: 1, policy: "default".into(), ttl_s: None, tti_s: None, grace_s: None, loader: false, setup: vec![], threads: vec![], advance_after_setup_s: 0, oracle: String::new(), async_threads: vec![], async_loader: false };
    let p = |v: &[&str]| v.iter().map(|s| s.to_string()).collect::<Vec<_>>();
    let mut v = vec![
        // ---- C11: linearizability of per-key operations
        Scen { name: "c11/insert-vs-remove-vs-fetch".into(), props: p(&["C11"]), threads: vec![vec![SOp::Insert(0, 1)], vec![SOp::Remove(0)], vec![SOp::Fetch(0), SOp::Fetch(0)]], setup: vec![SOp::Insert(0, 1)], oracle: "linear cost listener".into(), ..base.clone() },
        Scen { name: "c11/two-inserts-vs-fetch".into(), props: p(&["C11"]), threads: vec![vec![SOp::Insert(0, 1)], vec![SOp::Insert(0, 1)], vec![SOp::Fetch(0), SOp::Fetch(0)]], oracle: "linear cost".into(), ..base.clone() },
        Scen { name: "c11/compute-vs-compute".into(), props: p(&["C11"]), setup: vec![SOp::Insert(0, 1)], threads: vec![vec![SOp::Compute(0)], vec![SOp::Compute(0)], vec![SOp::Fetch(0)]], oracle: "linear".into(), ..base.clone() },
        Scen { name: "c11/or_insert-vs-or_insert".into(), props: p(&["C11"]), threads: vec![vec![SOp::OrInsert(0)], vec![SOp::OrInsert(0)], vec![SOp::Fetch(0)]], oracle: "linear cost".into(), ..base.clone() },
        Scen { name: "c11/clear-vs-insert-vs-fetch".into(), props: p(&["C11", "C13"]), shards: 2, setup: vec![SOp::Insert(0, 1), SOp::Insert(1, 1)], threads: vec![vec![SOp::Clear], vec![SOp::Insert(1, 1)], vec![SOp::Fetch(1)]], oracle: "linear cost".into(), ..base.clone() },
        // ---- C13 / C16: user operations racing eviction
        Scen { name: "c13/remove-vs-janitor-eviction".into(), props: p(&["C13", "C16"]), capacity: Some(1), policy: "lru".into(), setup: vec![SOp::Insert(0, 1), SOp::Maint, SOp::Insert(1, 1)], threads: vec![vec![SOp::Remove(0)], vec![SOp::Janitor(0)]], oracle: "cost capacity listener".into(), ..base.clone() },
        Scen { name: "c13/clear-vs-insert-vs-janitor".into(), props: p(&["C13", "C16"]), capacity: Some(2), policy: "lru".into(), setup: vec![SOp::Insert(0, 1), SOp::Insert(1, 1)], threads: vec![vec![SOp::Clear], vec![SOp::Insert(2, 1)], vec![SOp::Janitor(0)]], oracle: "cost capacity listener".into(), ..base.clone() },
        Scen { name: "c13/overwrite-vs-janitor".into(), props: p(&["C13", "C16"]), capacity: Some(2), policy: "lru".into(), setup: vec![SOp::Insert(0, 1), SOp::Insert(1, 1), SOp::Maint], threads: vec![vec![SOp::Insert(0, 2)], vec![SOp::Janitor(0)]], oracle: "cost capacity listener".into(), ..base.clone() },
        Scen { name: "c13/two-inserts-over-capacity".into(), props: p(&["C13", "C16"]), capacity: Some(1), policy: "lru".into(), threads: vec![vec![SOp::Insert(0, 1)], vec![SOp::Insert(1, 1)], vec![SOp::Janitor(0)]], oracle: "cost capacity listener".into(), ..base.clone() },
        Scen { name: "c16/remove-vs-remove".into(), props: p(&["C16", "C13"]), setup: vec![SOp::Insert(0, 1)], threads: vec![vec![SOp::Remove(0)], vec![SOp::Remove(0)]], oracle: "cost listener linear".into(), ..base.clone() },
        // ---- C15: loader single flight
        Scen { name: "c15/two-callers-one-key".into(), props: p(&["C15"]), loader: true, threads: vec![vec![SOp::FetchWith(0)], vec![SOp::FetchWith(0)]], oracle: "loader cost".into(), ..base.clone() },
        Scen { name: "c15/two-keys-one-stripe".into(), props: p(&["C15"]), loader: true, threads: vec![vec![SOp::FetchWith(0)], vec![SOp::FetchWith(1)]], oracle: "loader cost".into(), ..base.clone() },
        Scen { name: "c15/caller-after-invalidate".into(), props: p(&["C15"]), loader: true, setup: vec![SOp::FetchWith(0), SOp::Remove(0)], threads: vec![vec![SOp::FetchWith(0)], vec![SOp::FetchWith(0)]], oracle: "loader loader2 cost".into(), ..base.clone() },
    ];
    let all = |n: usize| vec![true; n];
    v.extend(vec![
        // ---- the same races through the AsyncCache handle (handles/futures.rs), and mixed handles
        Scen { name: "c11/async-insert-vs-remove-vs-fetch".into(), props: p(&["C11"]), threads: vec![vec![SOp::Insert(0, 1)], vec![SOp::Remove(0)], vec![SOp::Fetch(0), SOp::Fetch(0)]], setup: vec![SOp::Insert(0, 1)], oracle: "linear cost listener".into(), async_threads: all(3), ..base.clone() },
        Scen { name: "c11/mixed-compute-vs-compute".into(), props: p(&["C11"]), setup: vec![SOp::Insert(0, 1)], threads: vec![vec![SOp::Compute(0)], vec![SOp::Compute(0)], vec![SOp::Fetch(0)]], oracle: "linear".into(), async_threads: vec![false, true, true], ..base.clone() },
        Scen { name: "c11/async-or_insert-vs-or_insert".into(), props: p(&["C11"]), threads: vec![vec![SOp::OrInsert(0)], vec![SOp::OrInsert(0)], vec![SOp::Fetch(0)]], oracle: "linear cost".into(), async_threads: vec![true, true, false], ..base.clone() },
        Scen { name: "c11/insert-vs-invalidate-vs-peek".into(), props: p(&["C11", "C16"]), setup: vec![SOp::Insert(0, 1)], threads: vec![vec![SOp::Insert(0, 1)], vec![SOp::Invalidate(0)], vec![SOp::Peek(0), SOp::Peek(0)]], oracle: "linear cost listener".into(), async_threads: vec![false, true, false], ..base.clone() },
        Scen { name: "c11/or_insert-vs-remove-vs-fetch".into(), props: p(&["C11", "C13"]), setup: vec![SOp::Insert(0, 1)], threads: vec![vec![SOp::OrInsert(0)], vec![SOp::Remove(0)], vec![SOp::Fetch(0)]], oracle: "linear cost listener".into(), ..base.clone() },
        Scen { name: "c13/async-remove-vs-janitor-eviction".into(), props: p(&["C13", "C16"]), capacity: Some(1), policy: "lru".into(), setup: vec![SOp::Insert(0, 1), SOp::Maint, SOp::Insert(1, 1)], threads: vec![vec![SOp::Remove(0)], vec![SOp::Janitor(0)]], oracle: "cost capacity listener".into(), async_threads: vec![true, false], ..base.clone() },
        Scen { name: "c13/async-maint-vs-insert".into(), props: p(&["C13", "C16"]), capacity: Some(1), policy: "lru".into(), setup: vec![SOp::Insert(0, 1), SOp::Maint], threads: vec![vec![SOp::Insert(1, 1)], vec![SOp::Maint]], oracle: "cost capacity listener".into(), async_threads: vec![true, true], ..base.clone() },
        // ---- expiry cleanup racing user removal (virtual clock advanced past the TTL after setup)
        Scen { name: "c16/expiry-cleanup-vs-remove".into(), props: p(&["C16", "C13"]), ttl_s: Some(10), setup: vec![SOp::Insert(0, 1), SOp::Insert(1, 1)], advance_after_setup_s: 11, threads: vec![vec![SOp::Remove(0)], vec![SOp::Janitor(0)]], oracle: "cost listener complete".into(), ..base.clone() },
        Scen { name: "c16/expiry-cleanup-vs-overwrite".into(), props: p(&["C16", "C13", "C11"]), ttl_s: Some(10), setup: vec![SOp::Insert(0, 1)], advance_after_setup_s: 11, threads: vec![vec![SOp::Insert(0, 1)], vec![SOp::Janitor(0)], vec![SOp::Fetch(0)]], oracle: "cost listener".into(), ..base.clone() },
        // ---- idle-expiry cleanup (sampling pass) racing an overwrite: the fresh value is live and must survive
        Scen { name: "c12/tti-cleanup-vs-overwrite".into(), props: p(&["C12", "C16", "C13"]), tti_s: Some(10), setup: vec![SOp::Insert(0, 1)], advance_after_setup_s: 11, threads: vec![vec![SOp::Insert(0, 1)], vec![SOp::Janitor(0)]], oracle: "cost listener live".into(), ..base.clone() },
        Scen { name: "c12/async-tti-cleanup-vs-overwrite".into(), props: p(&["C12", "C16", "C13"]), tti_s: Some(10), setup: vec![SOp::Insert(0, 1)], advance_after_setup_s: 11, threads: vec![vec![SOp::Insert(0, 1)], vec![SOp::Janitor(0)]], oracle: "cost listener live".into(), async_threads: vec![true, false], ..base.clone() },
        Scen { name: "c12/ttl-cleanup-vs-overwrite".into(), props: p(&["C12", "C16", "C13"]), ttl_s: Some(10), setup: vec![SOp::Insert(0, 1)], advance_after_setup_s: 11, threads: vec![vec![SOp::Insert(0, 1)], vec![SOp::Janitor(0)]], oracle: "cost listener live".into(), ..base.clone() },
        // ---- single flight with async callers, mixed callers and an async loader
        Scen { name: "c15/async-two-callers-one-key".into(), props: p(&["C15"]), loader: true, threads: vec![vec![SOp::FetchWith(0)], vec![SOp::FetchWith(0)]], oracle: "loader cost".into(), async_threads: all(2), ..base.clone() },
        Scen { name: "c15/mixed-callers-one-key".into(), props: p(&["C15"]), loader: true, threads: vec![vec![SOp::FetchWith(0)], vec![SOp::FetchWith(0)]], oracle: "loader cost".into(), async_threads: vec![false, true], ..base.clone() },
        Scen { name: "c15/async-loader-two-callers".into(), props: p(&["C15"]), loader: true, async_loader: true, threads: vec![vec![SOp::FetchWith(0)], vec![SOp::FetchWith(0)]], oracle: "loader cost".into(), async_threads: all(2), ..base.clone() },
    ]);
    v.extend(vec![
        // ---- a loaded value obeys the register too: once fetch_with has returned it, a completed invalidate / remove
        //      of that key is final (the loader must not publish the value into the map after handing it out)
        Scen { name: "c11/fetch_with-then-invalidate-then-peek".into(), props: p(&["C11", "C15"]), loader: true, threads: vec![vec![SOp::FetchWith(0), SOp::Invalidate(0), SOp::Peek(0)]], oracle: "linear cost".into(), ..base.clone() },
        Scen { name: "c11/async-loader-fetch_with-then-invalidate-then-peek".into(), props: p(&["C11", "C15"]), loader: true, async_loader: true, threads: vec![vec![SOp::FetchWith(0), SOp::Invalidate(0), SOp::Peek(0)]], oracle: "linear cost".into(), async_threads: all(1), ..base.clone() },
        Scen { name: "c11/async-loader-fetch_with-vs-remove-then-fetch".into(), props: p(&["C11", "C15"]), loader: true, async_loader: true, threads: vec![vec![SOp::FetchWith(0)], vec![SOp::Remove(0), SOp::Fetch(0)]], oracle: "linear cost".into(), async_threads: all(2), ..base.clone() },
        // ---- stale-while-revalidate: two stale hits while the refresh is in flight, then the key is removed and
        //      missed: the caller joins the refresh (or starts a load) and must come back
        Scen { name: "c15/stale-hits-during-refresh-then-remove-then-miss".into(), props: p(&["C15"]), loader: true, ttl_s: Some(10), grace_s: Some(10), setup: vec![SOp::FetchWith(0)], advance_after_setup_s: 12, threads: vec![vec![SOp::FetchWith(0), SOp::FetchWith(0), SOp::Remove(0), SOp::FetchWith(0)]], oracle: "stale".into(), ..base.clone() },
        Scen { name: "c15/async-stale-hits-during-refresh-then-remove-then-miss".into(), props: p(&["C15"]), loader: true, ttl_s: Some(10), grace_s: Some(10), setup: vec![SOp::FetchWith(0)], advance_after_setup_s: 12, threads: vec![vec![SOp::FetchWith(0), SOp::FetchWith(0), SOp::Remove(0), SOp::FetchWith(0)]], oracle: "stale".into(), async_threads: all(1), ..base.clone() },
    ]);
    if !quick {
        v.push(Scen { name: "c15/async-three-callers-one-key".into(), props: p(&["C15"]), loader: true, threads: vec![vec![SOp::FetchWith(0)], vec![SOp::FetchWith(0)], vec![SOp::FetchWith(0)]], oracle: "loader cost".into(), async_threads: vec![true, false, true], ..base.clone() });
        v.push(Scen { name: "c15/async-loader-caller-after-invalidate".into(), props: p(&["C15"]), loader: true, async_loader: true, setup: vec![], threads: vec![vec![SOp::FetchWith(0), SOp::Remove(0), SOp::FetchWith(0)], vec![SOp::FetchWith(0)]], oracle: "loader loader2 cost noresident".into(), async_threads: all(2), ..base.clone() });
        v.push(Scen { name: "c15/three-callers-one-key".into(), props: p(&["C15"]), loader: true, threads: vec![vec![SOp::FetchWith(0)], vec![SOp::FetchWith(0)], vec![SOp::FetchWith(0)]], oracle: "loader cost".into(), ..base.clone() });
        v.push(Scen { name: "c15/stale-refresh-vs-miss".into(), props: p(&["C15"]), loader: true, ttl_s: Some(10), grace_s: Some(10), setup: vec![SOp::FetchWith(0)], advance_after_setup_s: 12, threads: vec![vec![SOp::FetchWith(0)], vec![SOp::FetchWith(0)]], oracle: "loader loader2 stale cost".into(), ..base.clone() });
        v.push(Scen { name: "c15/callers-two-shards".into(), props: p(&["C15"]), loader: true, shards: 2, threads: vec![vec![SOp::FetchWith(0), SOp::FetchWith(1)], vec![SOp::FetchWith(1), SOp::FetchWith(0)]], oracle: "loader cost".into(), ..base.clone() });
        v.push(Scen { name: "c11/insert-remove-insert".into(), props: p(&["C11", "C13"]), threads: vec![vec![SOp::Insert(0, 1), SOp::Remove(0)], vec![SOp::Insert(0, 2)], vec![SOp::Fetch(0)]], oracle: "linear cost listener".into(), ..base.clone() });
    }
    if let Ok(f) = std::env::var("LOCKSTEP_ONLY") {
        v.retain(|s| s.name.contains(&f));
    }
    v
}

// ------------------------------------------------------------------ exploration with iterative preemption bounding
fn preemptions(trace: &[sched::Point]) -> usize {
    trace.iter().filter(|p| p.cur_enabled && p.chosen != 0).count()
}

fn explore(sc: &Scen, bound: usize, max_runs: u64, deadline: Instant) -> (Scenario, Vec<Violation>) {
    let t0 = Instant::now();
    let mut stack: Vec<Vec<usize>> = vec![vec![]];
    let mut runs = 0u64;
    let mut points = 0u64;
    let mut outcomes: BTreeSet<u64> = BTreeSet::new();
    let mut nontrivial = 0u64;
    let mut samples = vec![];
    let mut caps = vec![];
    let mut best: BTreeMap<String, (Fail, Vec<usize>, Vec<Ev>)> = BTreeMap::new();
    while let Some(prefix) = stack.pop() {
        if runs >= max_runs || Instant::now() > deadline {
            caps.push(format!("stopped after {} schedules (cap {} / time); {} prefixes unexplored", runs, max_runs, stack.len() + 1));
            break;
        }
        let out = run_schedule(sc, &prefix);
        runs += 1;
        points += out.trace.len() as u64;
        if let Some(e) = &out.error {
            caps.push(format!("machinery error on schedule {:?}: {}", prefix, e));
            break;
        }
        let choices: Vec<usize> = out.trace.iter().map(|p| p.chosen).collect();
        let mut fails = out.fails.clone();
        if let Some(d) = &out.deadlock {
            let prop: &'static str = if sc.props.iter().any(|p| p == "C15") { "C15" } else { "C11" };
            fails.push(Fail { prop, rule: "deadlock", msg: format!("{}; log {:?}", d, out.log.iter().map(|e| (e.thread, &e.op, e.result)).collect::<Vec<_>>()) });
        }
        for p in &out.panics {
            fails.push(Fail { prop: "C11", rule: "panic", msg: p.clone() });
        }
        for f in fails {
            let class = format!("lockstep/{}/{}.{}", sc.name, f.prop, f.rule);
            let keep = match best.get(&class) {
                Some((_, c, _)) => choices.len() < c.len() || (choices.len() == c.len() && choices < *c),
                None => true,
            };
            if keep {
                best.insert(class, (f, choices.clone(), out.log.clone()));
            }
        }
        let h = vcommon::fnv(format!("{:?}", out.log.iter().map(|e| (e.thread, &e.op, e.result)).collect::<Vec<_>>()).as_bytes());
        outcomes.insert(h);
        // overlapping operations?
        let overl = out.log.iter().any(|a| out.log.iter().any(|b| a.thread != b.thread && a.thread != 99 && b.thread != 99 && a.call < b.call && b.call < a.ret));
        if overl {
            nontrivial += 1;
            if samples.len() < 2 {
                samples.push(serde_json::json!({"schedule": choices, "log": format!("{:?}", out.log.iter().map(|e| (e.thread, &e.op, e.call, e.ret, e.result)).collect::<Vec<_>>())}));
            }
        }
        // children: deviate at every point at or after the prefix
        for i in (prefix.len()..out.trace.len()).rev() {
            let p = &out.trace[i];
            let before = preemptions(&out.trace[..i]);
            for alt in (1..p.enabled.len()).rev() {
                let cost = before + if p.cur_enabled { 1 } else { 0 };
                if cost > bound {
                    continue;
                }
                let mut np: Vec<usize> = choices[..i].to_vec();
                np.push(alt);
                stack.push(np);
            }
        }
    }
    let mut viol = vec![];
    for (class, (f, choices, log)) in best {
        // replay twice: identical verdicts required
        let a = run_schedule(sc, &choices);
        let b = run_schedule(sc, &choices);
        let same = |o: &RunOut| o.fails.iter().any(|x| x.rule == f.rule) || (f.rule == "deadlock" && o.deadlock.is_some()) || (f.rule == "panic" && !o.panics.is_empty());
        // the witness is the minimal failing schedule only when the whole space was explored; after a cap it is
        // just the smallest one seen so far, which depends on how far the run got: name the class only
        let fp = if !(same(&a) && same(&b)) {
            format!("{}#UNSTABLE", class)
        } else if !caps.is_empty() {
            format!("{}@capped", class)
        } else {
            format!("{}@{}", class, choices.iter().map(|c| c.to_string()).collect::<Vec<_>>().join(""))
        };
        viol.push(Violation {
            property: f.prop.to_string(),
            fingerprint: fp,
            message: format!("{} | schedule {:?} | log {:?}", f.msg, choices, log.iter().map(|e| (e.thread, &e.op, e.call, e.ret, e.result)).collect::<Vec<_>>()),
            scenario: sc.name.clone(),
            replay: serde_json::json!({"scenario": sc, "schedule": choices, "rule": f.rule}),
        });
    }
    let mut bnd = BTreeMap::new();
    bnd.insert("preemption_bound".to_string(), serde_json::json!(bound));
    bnd.insert("threads".to_string(), serde_json::json!(sc.threads.len()));
    bnd.insert("program".to_string(), serde_json::json!(format!("setup {:?}; threads {:?}", sc.setup, sc.threads)));
    let s = Scenario {
        name: format!("{}/pb{}", sc.name, bound),
        properties: sc.props.clone(),
        executions: runs,
        states: points,
        transitions: points,
        distinct_outcomes: outcomes.len() as u64,
        nontrivial,
        nontrivial_rule: "schedule in which operations of two threads overlap (one is called between call and return of the other)".into(),
        exhaustive: caps.is_empty(),
        caps,
        bound: bnd,
        samples,
        wall_s: t0.elapsed().as_secs_f64(),
    };
    (s, viol)
}

static HOOKS: hook::SchedHooks = hook::SchedHooks { park: sched::park_hook, unpark: sched::unpark_hook, spawn_announce: sched::spawn_announce_hook, child_enter: sched::child_enter_hook, child_exit: sched::child_exit_hook };

fn install_hooks() {
    fibre::sync::verif_hook::set_lock_hook(Some(sched::lock_hook));
    hook::set_sched_hooks(Some(&HOOKS));
}

fn main() {
    let args: Vec<String> = std::env::args().collect();
    std::panic::set_hook(Box::new(|_| {}));
    let _ = AtomicUsize::new(0);
    match args.get(1).map(|s| s.as_str()) {
        Some("run") => {
            let mut tier = "quick".to_string();
            let mut out = "report.json".to_string();
            let mut jobs = 16usize;
            let mut props: Vec<String> = vec![];
            let mut i = 2;
            while i < args.len() {
                match args[i].as_str() {
                    "--tier" => { tier = args[i + 1].clone(); i += 1; }
                    "--out" => { out = args[i + 1].clone(); i += 1; }
                    "--jobs" => { jobs = args[i + 1].parse().unwrap(); i += 1; }
                    "--props" => { props = args[i + 1].split(',').map(|s| s.to_string()).collect(); i += 1; }
                    _ => {}
                }
                i += 1;
            }
            // only the scenarios that serve the requested properties
            let scs: Vec<Scen> = scenarios(&tier).into_iter().filter(|s| props.is_empty() || s.props.iter().any(|p| props.contains(p))).collect();
            let queue = Arc::new(Mutex::new(scs.into_iter().rev().collect::<Vec<_>>()));
            let results: Arc<Mutex<Vec<(Scenario, Vec<Violation>)>>> = Arc::new(Mutex::new(vec![]));
            let exe = std::env::current_exe().unwrap();
            let tmp = {
                let mut d = exe.clone();
                let mut found = None;
                while d.pop() {
                    if d.file_name().map(|f| f == "target").unwrap_or(false) {
                        found = Some(d.join("tmp-lockstep"));
                        break;
                    }
                }
                found.unwrap_or_else(|| std::path::PathBuf::from("target/tmp-lockstep"))
            };
            std::fs::create_dir_all(&tmp).unwrap();
            let mut hs = vec![];
            for w in 0..jobs {
                let q = queue.clone();
                let res = results.clone();
                let exe = exe.clone();
                let tmp = tmp.clone();
                let tier = tier.clone();
                hs.push(std::thread::spawn(move || {
                    let mut n = 0;
                    loop {
                        let sc = { q.lock().unwrap().pop() };
                        let Some(sc) = sc else { break };
                        n += 1;
                        let cp = tmp.join(format!("s{}-{}-{}.json", std::process::id(), w, n));
                        let op = tmp.join(format!("o{}-{}-{}.json", std::process::id(), w, n));
                        std::fs::write(&cp, serde_json::to_string(&sc).unwrap()).unwrap();
                        let st = std::process::Command::new(&exe).args(["run-one", cp.to_str().unwrap(), op.to_str().unwrap(), &tier]).stderr(std::process::Stdio::piped()).output().unwrap();
                        let r = std::fs::read_to_string(&op).ok().and_then(|t| serde_json::from_str::<serde_json::Value>(&t).ok());
                        let _ = std::fs::remove_file(&cp);
                        let _ = std::fs::remove_file(&op);
                        match r {
                            Some(v) => {
                                let s: Scenario = serde_json::from_value(v["scenario"].clone()).unwrap();
                                let vs: Vec<Violation> = serde_json::from_value(v["violations"].clone()).unwrap();
                                if std::env::var("LOCKSTEP_VERBOSE").is_ok() {
                                    eprintln!("{} runs={} viol={} exhaustive={} {:.1}s", s.name, s.executions, vs.len(), s.exhaustive, s.wall_s);
                                }
                                res.lock().unwrap().push((s, vs));
                            }
                            None => {
                                let err = String::from_utf8_lossy(&st.stderr).to_string();
                                res.lock().unwrap().push((Scenario { name: sc.name.clone(), properties: sc.props.clone(), exhaustive: false, caps: vec![format!("child died ({:?}): {}", st.status, err.lines().last().unwrap_or(""))], ..Default::default() }, vec![]));
                            }
                        }
                    }
                }));
            }
            for h in hs {
                h.join().unwrap();
            }
            let mut rep = Report::new("lockstep", &tier);
            let mut rs = std::mem::take(&mut *results.lock().unwrap());
            rs.sort_by(|a, b| a.0.name.cmp(&b.0.name));
            let mut died = false;
            for (s, vs) in rs {
                if s.executions == 0 {
                    died = true;
                    eprintln!("scenario {} did not run: {:?}", s.name, s.caps);
                }
                rep.scenarios.push(s);
                for v in vs {
                    rep.push_violation(v);
                }
            }
            rep.violations.sort_by(|a, b| a.fingerprint.cmp(&b.fingerprint));
            rep.write(&out);
            std::process::exit(if died { 3 } else { 0 });
        }
        Some("run-one") => {
            install_hooks();
            let sc: Scen = serde_json::from_str(&std::fs::read_to_string(&args[2]).unwrap()).unwrap();
            let quick = args.get(4).map(|s| s == "quick").unwrap_or(true);
            let bound = if quick { 2 } else { 3 };
            let (s, v) = explore(&sc, bound, if quick { 40_000 } else { 2_000_000 }, Instant::now() + Duration::from_secs(if quick { 150 } else { 1800 }));
            std::fs::write(&args[3], serde_json::to_string(&serde_json::json!({"scenario": s, "violations": v})).unwrap()).unwrap();
            std::process::exit(0);
        }
        Some("replay") => {
            install_hooks();
            let v: serde_json::Value = serde_json::from_str(&std::fs::read_to_string(&args[2]).unwrap()).unwrap();
            let r = if v.get("replay").is_some() { &v["replay"] } else { &v };
            let sc: Scen = serde_json::from_value(r["scenario"].clone()).unwrap();
            let schedule: Vec<usize> = serde_json::from_value(r["schedule"].clone()).unwrap();
            let rule = r["rule"].as_str().unwrap_or("").to_string();
            println!("replaying schedule {:?} of {}", schedule, sc.name);
            let o = run_schedule(&sc, &schedule);
            for e in &o.log {
                println!("  T{} {:?} [{}..{}] -> {:?}", e.thread, e.op, e.call, e.ret, e.result);
            }
            println!("deadlock: {:?}; panics: {:?}; fails: {:?}", o.deadlock, o.panics, o.fails);
            let hit = o.fails.iter().any(|f| f.rule == rule) || (rule == "deadlock" && o.deadlock.is_some()) || (rule == "panic" && !o.panics.is_empty());
            std::process::exit(if hit { 1 } else { 0 });
        }
        _ => {
            eprintln!("usage: lockstep run --tier quick|thorough --out FILE | lockstep replay FILE");
            std::process::exit(2)
        }
    }
}
