//! `topicx`: exhaustive schedules (iterative preemption bounding) of 2–3 real threads on the topic
//! pub/sub channel under the controlled scheduler of `lockstep` (same `sched.rs`). Scheduling points
//! are the cfg-only `verif_hook::point()` calls of hook H8 inside publish / subscribe / unsubscribe /
//! close / clone (between their steps on shared structures) plus one point between two operations
//! of a harness thread. Every schedule is re-executed on a fresh channel; the recorded call/return
//! history (plus a sequential epilogue that drops the sender and drains every receiver) is checked
//! for linearizability against the routing model of the property (C08) by brute force.
//!
//!   topicx run --tier quick|thorough --out report.json [--props C08] [--jobs N]
//!   topicx replay <replay.json>
#[path = "../../lockstep/src/sched.rs"]
#[allow(dead_code)]
mod sched;

use fibre::error::*;
use fibre::spmc::topic::{self, AsyncTopicReceiver, AsyncTopicSender, TopicReceiver, TopicSender};
use serde::{Deserialize, Serialize};
use std::collections::{BTreeMap, BTreeSet, HashSet, VecDeque};
use std::panic::{catch_unwind, AssertUnwindSafe};
use std::sync::atomic::{AtomicU32, AtomicU64, Ordering};
use std::sync::{Arc, Mutex};
use std::time::{Duration, Instant};
use vcommon::{Report, Scenario, Violation};

type Tp = u8;
type Id = u32;

#[derive(Clone, Debug, Serialize, Deserialize, PartialEq, Eq, Hash)]
enum TOp {
    Send(Tp),
    Sub(usize, Tp),
    Unsub(usize, Tp),
    TryRecv(usize),
    CloseTx,
    DropTx,
    CloseRx(usize),
    DropRx(usize),
    /// rxs[to] = rxs[from].clone()
    CloneRx(usize, usize),
}
#[derive(Clone, Debug, Serialize, Deserialize, PartialEq, Eq, Hash)]
enum TOut {
    Unit,
    SendOk,
    SendClosed,
    Got(Tp, Id),
    Empty,
    Disc,
    CloseOk,
    CloseErr,
}
#[derive(Clone, Debug, Serialize, Deserialize)]
struct Ev {
    thread: usize,
    op: TOp,
    /// id carried by a Send
    id: Id,
    call: u64,
    ret: u64,
    out: TOut,
}

#[derive(Clone, Debug, Serialize, Deserialize)]
struct Scen {
    name: String,
    cap: usize,
    asyn: bool,
    /// sequential prologue on the main thread (no scheduler)
    setup: Vec<TOp>,
    threads: Vec<Vec<TOp>>,
    props: Vec<String>,
}

// ------------------------------------------------------------------ the real channel
enum Tx {
    S(TopicSender<Tp, Id>),
    A(AsyncTopicSender<Tp, Id>),
}
enum Rx {
    S(TopicReceiver<Tp, Id>),
    A(AsyncTopicReceiver<Tp, Id>),
}
const MAX_RX: usize = 3;
struct World {
    tx: Mutex<Option<Arc<Tx>>>,
    rxs: Vec<Mutex<Option<Arc<Rx>>>>,
    next: AtomicU32,
    clock: AtomicU64,
    log: Mutex<Vec<Ev>>,
}
impl World {
    fn new(sc: &Scen) -> World {
        let (t, r) = if sc.asyn {
            let (t, r) = topic::channel_async::<Tp, Id>(sc.cap);
            (Tx::A(t), Rx::A(r))
        } else {
            let (t, r) = topic::channel::<Tp, Id>(sc.cap);
            (Tx::S(t), Rx::S(r))
        };
        let mut rxs: Vec<Mutex<Option<Arc<Rx>>>> = (0..MAX_RX).map(|_| Mutex::new(None)).collect();
        rxs[0] = Mutex::new(Some(Arc::new(r)));
        World { tx: Mutex::new(Some(Arc::new(t))), rxs, next: AtomicU32::new(1), clock: AtomicU64::new(0), log: Mutex::new(vec![]) }
    }
    fn rx(&self, i: usize) -> Option<Arc<Rx>> {
        self.rxs[i].lock().unwrap().clone()
    }
    fn run_op(&self, thread: usize, op: &TOp) {
        let call = self.clock.fetch_add(1, Ordering::SeqCst);
        let mut id = 0;
        let out = match op {
            TOp::Send(t) => {
                id = self.next.fetch_add(1, Ordering::SeqCst);
                let tx = self.tx.lock().unwrap().clone().expect("sender");
                let r = match &*tx {
                    Tx::S(s) => s.send(*t, id),
                    Tx::A(s) => s.send(*t, id),
                };
                if r.is_ok() {
                    TOut::SendOk
                } else {
                    TOut::SendClosed
                }
            }
            TOp::Sub(r, t) => {
                match &*self.rx(*r).expect("receiver") {
                    Rx::S(x) => x.subscribe(*t),
                    Rx::A(x) => x.subscribe(*t),
                }
                TOut::Unit
            }
            TOp::Unsub(r, t) => {
                match &*self.rx(*r).expect("receiver") {
                    Rx::S(x) => x.unsubscribe(t),
                    Rx::A(x) => x.unsubscribe(t),
                }
                TOut::Unit
            }
            TOp::TryRecv(r) => {
                let res = match &*self.rx(*r).expect("receiver") {
                    Rx::S(x) => x.try_recv(),
                    Rx::A(x) => x.try_recv(),
                };
                match res {
                    Ok((t, v)) => TOut::Got(t, v),
                    Err(TryRecvError::Empty) => TOut::Empty,
                    Err(TryRecvError::Disconnected) => TOut::Disc,
                }
            }
            TOp::CloseTx => {
                let tx = self.tx.lock().unwrap().clone().expect("sender");
                let r = match &*tx {
                    Tx::S(s) => s.close(),
                    Tx::A(s) => s.close(),
                };
                if r.is_ok() {
                    TOut::CloseOk
                } else {
                    TOut::CloseErr
                }
            }
            TOp::DropTx => {
                let tx = self.tx.lock().unwrap().take();
                drop(tx);
                TOut::Unit
            }
            TOp::CloseRx(r) => {
                let res = match &*self.rx(*r).expect("receiver") {
                    Rx::S(x) => x.close(),
                    Rx::A(x) => x.close(),
                };
                if res.is_ok() {
                    TOut::CloseOk
                } else {
                    TOut::CloseErr
                }
            }
            TOp::DropRx(r) => {
                let x = self.rxs[*r].lock().unwrap().take();
                drop(x);
                TOut::Unit
            }
            TOp::CloneRx(from, to) => {
                let src = self.rx(*from).expect("receiver");
                let c = match &*src {
                    Rx::S(x) => Rx::S(x.clone()),
                    Rx::A(x) => Rx::A(x.clone()),
                };
                drop(src);
                *self.rxs[*to].lock().unwrap() = Some(Arc::new(c));
                TOut::Unit
            }
        };
        let ret = self.clock.fetch_add(1, Ordering::SeqCst);
        self.log.lock().unwrap().push(Ev { thread, op: op.clone(), id, call, ret, out });
    }
}

// ------------------------------------------------------------------ the routing model (sequential specification)
#[derive(Clone, Copy, PartialEq, Eq, Debug, Hash)]
enum H {
    Absent,
    Open,
    Closed,
    Gone,
}
#[derive(Clone, PartialEq, Eq, Hash, Debug)]
struct MRx {
    st: H,
    subs: BTreeSet<Tp>,
    mbox: VecDeque<(Tp, Id)>,
}
#[derive(Clone, PartialEq, Eq, Hash, Debug)]
struct Model {
    cap: usize,
    tx: H,
    rx: Vec<MRx>,
}
impl Model {
    fn new(cap: usize) -> Model {
        let mut rx: Vec<MRx> = (0..MAX_RX).map(|_| MRx { st: H::Absent, subs: BTreeSet::new(), mbox: VecDeque::new() }).collect();
        rx[0].st = H::Open;
        Model { cap, tx: H::Open, rx }
    }
    /// the result the specification prescribes for `op` in this state (and the state change)
    fn apply(&mut self, op: &TOp, id: Id) -> TOut {
        match op {
            TOp::Send(t) => {
                if self.tx != H::Open || !self.rx.iter().any(|r| r.st == H::Open) {
                    return TOut::SendClosed;
                }
                for r in self.rx.iter_mut() {
                    if r.st == H::Open && r.subs.contains(t) && r.mbox.len() < self.cap {
                        r.mbox.push_back((*t, id));
                    }
                }
                TOut::SendOk
            }
            TOp::Sub(r, t) => {
                if self.rx[*r].st == H::Open {
                    self.rx[*r].subs.insert(*t);
                }
                TOut::Unit
            }
            TOp::Unsub(r, t) => {
                self.rx[*r].subs.remove(t);
                TOut::Unit
            }
            TOp::TryRecv(r) => {
                let tx_open = self.tx == H::Open;
                let m = &mut self.rx[*r];
                match m.mbox.pop_front() {
                    Some((t, v)) => TOut::Got(t, v),
                    None if !tx_open => TOut::Disc,
                    None => TOut::Empty,
                }
            }
            TOp::CloseTx => {
                if self.tx == H::Open {
                    self.tx = H::Closed;
                    TOut::CloseOk
                } else {
                    TOut::CloseErr
                }
            }
            TOp::DropTx => {
                self.tx = H::Gone;
                TOut::Unit
            }
            TOp::CloseRx(r) => {
                if self.rx[*r].st == H::Open {
                    self.rx[*r].st = H::Closed;
                    self.rx[*r].subs.clear();
                    TOut::CloseOk
                } else {
                    TOut::CloseErr
                }
            }
            TOp::DropRx(r) => {
                self.rx[*r].st = H::Gone;
                self.rx[*r].subs.clear();
                TOut::Unit
            }
            TOp::CloneRx(from, to) => {
                let dead = self.tx == H::Gone;
                let subs = if dead || self.rx[*from].st != H::Open { BTreeSet::new() } else { self.rx[*from].subs.clone() };
                self.rx[*to] = MRx { st: if dead { H::Closed } else { H::Open }, subs, mbox: VecDeque::new() };
                TOut::Unit
            }
        }
    }
}

/// Wing & Gong style search: is there a total order of the operations that respects real-time
/// precedence (a before b if a returned before b was called) in which every operation returns
/// what the model prescribes?
fn linearizable(cap: usize, log: &[Ev]) -> bool {
    let n = log.len();
    assert!(n < 64);
    fn go(done: u64, m: &Model, log: &[Ev], seen: &mut HashSet<(u64, Model)>) -> bool {
        let n = log.len();
        if done == (1u64 << n) - 1 {
            return true;
        }
        if !seen.insert((done, m.clone())) {
            return false;
        }
        // the earliest return among pending operations bounds which operations may go next
        let min_ret = (0..n).filter(|i| done & (1 << i) == 0).map(|i| log[i].ret).min().unwrap();
        for i in 0..n {
            if done & (1 << i) != 0 || log[i].call > min_ret {
                continue;
            }
            let mut m2 = m.clone();
            if m2.apply(&log[i].op, log[i].id) == log[i].out && go(done | (1 << i), &m2, log, seen) {
                return true;
            }
        }
        false
    }
    let mut seen = HashSet::new();
    go(0, &Model::new(cap), log, &mut seen)
}

/// first operation (in return order) at which every linearization of the prefix up to and including it fails
fn first_bad_prefix(cap: usize, log: &[Ev]) -> usize {
    let mut by_ret: Vec<usize> = (0..log.len()).collect();
    by_ret.sort_by_key(|&i| log[i].ret);
    for k in 1..=by_ret.len() {
        // operations that returned among the first k, plus nothing else: a pending operation may or may not have
        // taken effect, so a prefix check uses only completed operations whose call precedes the k-th return
        let cut = log[by_ret[k - 1]].ret;
        let sub: Vec<Ev> = log.iter().filter(|e| e.ret <= cut).cloned().collect();
        if !linearizable(cap, &sub) {
            return by_ret[k - 1];
        }
    }
    log.len().saturating_sub(1)
}

// ------------------------------------------------------------------ one schedule
struct RunOut {
    trace: Vec<sched::Point>,
    deadlock: Option<String>,
    error: Option<String>,
    log: Vec<Ev>,
    panics: Vec<String>,
    fails: Vec<Fail>,
}
#[derive(Clone, Debug)]
struct Fail {
    prop: &'static str,
    rule: String,
    msg: String,
}

fn run_schedule(sc: &Scen, prefix: &[usize]) -> RunOut {
    let w = Arc::new(World::new(sc));
    for op in &sc.setup {
        w.run_op(99, op);
    }
    let n = sc.threads.len();
    let s = sched::Sched::new(n, prefix.to_vec());
    sched::install(Some(s.clone()));
    let panics = Arc::new(Mutex::new(Vec::new()));
    let mut handles = vec![];
    for (i, ops) in sc.threads.iter().enumerate() {
        let ops = ops.clone();
        let w = w.clone();
        let panics = panics.clone();
        handles.push(std::thread::spawn(move || {
            sched::register(i);
            let r = catch_unwind(AssertUnwindSafe(|| {
                for op in &ops {
                    w.run_op(i, op);
                    sched::point();
                }
            }));
            if let Err(p) = r {
                if p.downcast_ref::<sched::SchedAbort>().is_none() {
                    let m = p.downcast_ref::<String>().cloned().or_else(|| p.downcast_ref::<&str>().map(|s| s.to_string())).unwrap_or("panic".into());
                    panics.lock().unwrap().push(format!("T{}: {}", i, m));
                }
            }
            sched::finish();
        }));
    }
    let ok = sched::drive(&s, n, Duration::from_secs(20));
    let (trace, deadlock, mut error) = sched::results(&s);
    if !ok && error.is_none() {
        error = Some("scheduler timeout".into());
    }
    if deadlock.is_none() && error.is_none() {
        for h in handles {
            let _ = h.join();
        }
    }
    sched::install(None);
    let panics = panics.lock().unwrap().clone();
    let mut fails = vec![];
    if deadlock.is_none() && error.is_none() && panics.is_empty() {
        // sequential epilogue: the sender goes away, every receiver that is still open drains until it
        // sees something other than a message
        if w.tx.lock().unwrap().is_some() {
            w.run_op(99, &TOp::DropTx);
        }
        // which receivers are open according to the history so far (closed ones are not read: that a closed
        // receiver still hands out its mailbox is seqx's finding, not a schedule matter)
        let mut open = vec![false; MAX_RX];
        open[0] = true;
        {
            let log = w.log.lock().unwrap();
            let mut evs: Vec<&Ev> = log.iter().collect();
            evs.sort_by_key(|e| e.ret);
            for e in evs {
                match e.op {
                    TOp::CloneRx(_, to) => open[to] = true,
                    TOp::CloseRx(r) | TOp::DropRx(r) => open[r] = false,
                    _ => {}
                }
            }
        }
        for r in 0..MAX_RX {
            if open[r] && w.rx(r).is_some() {
                for _ in 0..sc.cap + 3 {
                    w.run_op(99, &TOp::TryRecv(r));
                    let last = w.log.lock().unwrap().last().unwrap().out.clone();
                    if !matches!(last, TOut::Got(..)) {
                        break;
                    }
                }
            }
        }
        let log = w.log.lock().unwrap().clone();
        if !linearizable(sc.cap, &log) {
            let bad = first_bad_prefix(sc.cap, &log);
            let e = &log[bad];
            let rule = match (&e.op, &e.out) {
                (TOp::TryRecv(_), TOut::Got(..)) => "routing.unexpected_message",
                (TOp::TryRecv(_), TOut::Empty) => "routing.message_missing_or_no_disconnect",
                (TOp::TryRecv(_), TOut::Disc) => "routing.disconnected_early",
                (TOp::Send(_), _) => "routing.send_result",
                _ => "routing.not_linearizable",
            };
            fails.push(Fail {
                prop: "C08",
                rule: rule.to_string(),
                msg: format!("no linearization of the history agrees with the routing model; first operation that cannot be explained: T{} {:?} -> {:?}", e.thread, e.op, e.out),
            });
        }
    }
    let log = w.log.lock().unwrap().clone();
    if deadlock.is_some() || error.is_some() {
        std::mem::forget(w);
    }
    RunOut { trace, deadlock, error, log, panics, fails }
}

// ------------------------------------------------------------------ scenarios
fn scenarios(tier: &str) -> Vec<Scen> {
    use TOp::*;
    let quick = tier == "quick";
    let mut v = vec![];
    let mut add = |name: &str, cap: usize, setup: Vec<TOp>, threads: Vec<Vec<TOp>>| {
        for asyn in [false, true] {
            v.push(Scen { name: format!("topic/{}/cap{}/{}", name, cap, if asyn { "async" } else { "sync" }), cap, asyn, setup: setup.clone(), threads: threads.clone(), props: vec!["C08".into()] });
        }
    };
    for cap in [1usize, 2] {
        // publishing races the first subscription: delivered messages form a suffix, nothing of another topic
        add("send2_vs_subscribe", cap, vec![], vec![vec![Send(0), Send(0)], vec![Sub(0, 0), TryRecv(0)]]);
        // publishing races unsubscribe + re-subscribe
        add("send2_vs_unsub_resub", cap, vec![Sub(0, 0)], vec![vec![Send(0), Send(0)], vec![Unsub(0, 0), Sub(0, 0)]]);
        // two topics, subscription switches from one to the other
        add("send_two_topics_vs_switch", cap, vec![Sub(0, 0)], vec![vec![Send(0), Send(1)], vec![Sub(0, 1), Unsub(0, 0)]]);
        // the subscriber reads while the publisher publishes (mailbox full => only the newest may be omitted)
        add("send3_vs_reader", cap, vec![Sub(0, 0)], vec![vec![Send(0), Send(0), Send(0)], vec![TryRecv(0), TryRecv(0)]]);
        // one of two receivers closes / is dropped while the publisher publishes: the other one gets everything
        add("send2_vs_rxclose", cap, vec![Sub(0, 0), CloneRx(0, 1)], vec![vec![Send(0), Send(0)], vec![CloseRx(0)]]);
        add("send2_vs_rxdrop", cap, vec![Sub(0, 0), CloneRx(0, 1)], vec![vec![Send(0), Send(0)], vec![DropRx(0)]]);
        // a receiver is cloned while the publisher publishes: the clone sees a suffix
        add("send2_vs_clone", cap, vec![Sub(0, 0)], vec![vec![Send(0), Send(0)], vec![CloneRx(0, 1)]]);
        // the only sender goes away while the subscriber reads: Disconnected only after the mailbox is drained
        add("send_droptx_vs_reader", cap, vec![Sub(0, 0)], vec![vec![Send(0), DropTx], vec![TryRecv(0), TryRecv(0)]]);
        add("send_closetx_vs_reader", cap, vec![Sub(0, 0)], vec![vec![Send(0), CloseTx], vec![TryRecv(0), TryRecv(0)]]);
        // the last receiver goes away while the publisher publishes: Closed only once it is gone
        add("send2_vs_last_rxdrop", cap, vec![Sub(0, 0)], vec![vec![Send(0), Send(0)], vec![DropRx(0)]]);
    }
    // three threads
    let caps3: &[usize] = if quick { &[1] } else { &[1, 2] };
    for &cap in caps3 {
        add("send2_vs_unsub_vs_sub_other", cap, vec![Sub(0, 0), CloneRx(0, 1), Unsub(1, 0)], vec![vec![Send(0), Send(0)], vec![Unsub(0, 0), Sub(0, 1)], vec![Sub(1, 0)]]);
        // two receivers subscribe the same, so far unknown, topic at the same time; one of them then publishes
        add("two_receivers_subscribe_new_topic_then_send", cap, vec![CloneRx(0, 1)], vec![vec![Sub(0, 0), Send(0)], vec![Sub(1, 0)]]);
        // the same receiver subscribed from two threads, one of which then publishes
        add("double_subscribe_then_send", cap, vec![], vec![vec![Sub(0, 0)], vec![Sub(0, 0), Send(0)]]);
        // (a receiver that holds no subscription when the sender goes away never learns of it: that is seqx's
        //  sequential finding `s0x,r0?`; the scenarios here keep every receiver subscribed to something at the end)
    }
    v
}

fn preemptions(trace: &[sched::Point]) -> usize {
    trace.iter().filter(|p| p.cur_enabled && p.chosen != 0).count()
}

fn explore(sc: &Scen, bound: usize, max_runs: u64, deadline: Instant) -> (Scenario, Vec<Violation>) {
    let t0 = Instant::now();
    let mut stack: Vec<Vec<usize>> = vec![vec![]];
    let mut runs = 0u64;
    let mut points = 0u64;
    let mut outcomes: BTreeSet<u64> = BTreeSet::new();
    let mut nontrivial = 0u64;
    let mut samples = vec![];
    let mut caps = vec![];
    let mut best: BTreeMap<String, (Fail, Vec<usize>, Vec<Ev>)> = BTreeMap::new();
    while let Some(prefix) = stack.pop() {
        if runs >= max_runs || Instant::now() > deadline {
            caps.push(format!("stopped after {} schedules (cap {} / time); {} prefixes unexplored", runs, max_runs, stack.len() + 1));
            break;
        }
        let out = run_schedule(sc, &prefix);
        runs += 1;
        points += out.trace.len() as u64;
        if let Some(e) = &out.error {
            caps.push(format!("machinery error on schedule {:?}: {}", prefix, e));
            break;
        }
        let choices: Vec<usize> = out.trace.iter().map(|p| p.chosen).collect();
        let mut fails = out.fails.clone();
        if let Some(d) = &out.deadlock {
            fails.push(Fail { prop: "C08", rule: "deadlock".into(), msg: format!("{} (publishing, subscribing and closing never block)", d) });
        }
        for p in &out.panics {
            fails.push(Fail { prop: "C08", rule: "panic".into(), msg: p.clone() });
        }
        for f in fails {
            let class = format!("topicx/{}/{}.{}", sc.name, f.prop, f.rule);
            let keep = match best.get(&class) {
                Some((_, c, _)) => choices.len() < c.len() || (choices.len() == c.len() && choices < *c),
                None => true,
            };
            if keep {
                best.insert(class, (f, choices.clone(), out.log.clone()));
            }
        }
        let h = vcommon::fnv(format!("{:?}", out.log.iter().map(|e| (e.thread, &e.op, &e.out)).collect::<Vec<_>>()).as_bytes());
        outcomes.insert(h);
        let overl = out.log.iter().any(|a| out.log.iter().any(|b| a.thread != b.thread && a.thread != 99 && b.thread != 99 && a.call < b.call && b.call < a.ret));
        if overl {
            nontrivial += 1;
            if samples.len() < 2 {
                samples.push(serde_json::json!({"schedule": choices, "log": format!("{:?}", out.log.iter().map(|e| (e.thread, &e.op, e.call, e.ret, &e.out)).collect::<Vec<_>>())}));
            }
        }
        for i in (prefix.len()..out.trace.len()).rev() {
            let p = &out.trace[i];
            let before = preemptions(&out.trace[..i]);
            for alt in (1..p.enabled.len()).rev() {
                let cost = before + if p.cur_enabled { 1 } else { 0 };
                if cost > bound {
                    continue;
                }
                let mut np: Vec<usize> = choices[..i].to_vec();
                np.push(alt);
                stack.push(np);
            }
        }
    }
    let mut viol = vec![];
    for (class, (f, choices, log)) in best {
        let a = run_schedule(sc, &choices);
        let b = run_schedule(sc, &choices);
        let same = |o: &RunOut| o.fails.iter().any(|x| x.rule == f.rule) || (f.rule == "deadlock" && o.deadlock.is_some()) || (f.rule == "panic" && !o.panics.is_empty());
        let fp = if !(same(&a) && same(&b)) {
            format!("{}#UNSTABLE", class)
        } else if !caps.is_empty() {
            format!("{}@capped", class)
        } else {
            format!("{}@{}", class, choices.iter().map(|c| c.to_string()).collect::<Vec<_>>().join(""))
        };
        viol.push(Violation {
            property: f.prop.to_string(),
            fingerprint: fp,
            message: format!("{} | schedule {:?} | log {:?}", f.msg, choices, log.iter().map(|e| (e.thread, &e.op, e.call, e.ret, &e.out)).collect::<Vec<_>>()),
            scenario: sc.name.clone(),
            replay: serde_json::json!({"scenario": sc, "schedule": choices, "rule": f.rule}),
        });
    }
    let mut bnd = BTreeMap::new();
    bnd.insert("preemption_bound".to_string(), serde_json::json!(bound));
    bnd.insert("threads".to_string(), serde_json::json!(sc.threads.len()));
    bnd.insert("mailbox_capacity".to_string(), serde_json::json!(sc.cap));
    bnd.insert("program".to_string(), serde_json::json!(format!("setup {:?}; threads {:?}; epilogue: drop sender, drain every open receiver", sc.setup, sc.threads)));
    let s = Scenario {
        name: format!("{}/pb{}", sc.name, bound),
        properties: sc.props.clone(),
        executions: runs,
        states: points,
        transitions: points,
        distinct_outcomes: outcomes.len() as u64,
        nontrivial,
        nontrivial_rule: "schedule in which operations of two threads overlap (one is called between call and return of the other)".into(),
        exhaustive: caps.is_empty(),
        caps,
        bound: bnd,
        samples,
        wall_s: t0.elapsed().as_secs_f64(),
    };
    (s, viol)
}

fn install_hooks() {
    fibre::sync::verif_hook::set_lock_hook(Some(sched::lock_hook));
}

fn tmp_dir() -> std::path::PathBuf {
    let exe = std::env::current_exe().unwrap();
    let mut d = exe.clone();
    while d.pop() {
        if d.file_name().map(|f| f == "target").unwrap_or(false) {
            return d.join("tmp-topicx");
        }
    }
    std::path::PathBuf::from("target/tmp-topicx")
}

fn main() {
    let args: Vec<String> = std::env::args().collect();
    std::panic::set_hook(Box::new(|_| {}));
    match args.get(1).map(|s| s.as_str()) {
        Some("run") => {
            let mut tier = "quick".to_string();
            let mut out = "report.json".to_string();
            let mut jobs = 16usize;
            let mut props: Vec<String> = vec![];
            let mut i = 2;
            while i < args.len() {
                match args[i].as_str() {
                    "--tier" => { tier = args[i + 1].clone(); i += 1; }
                    "--out" => { out = args[i + 1].clone(); i += 1; }
                    "--jobs" => { jobs = args[i + 1].parse().unwrap(); i += 1; }
                    "--props" => { props = args[i + 1].split(',').map(|s| s.to_string()).collect(); i += 1; }
                    _ => {}
                }
                i += 1;
            }
            let scs: Vec<Scen> = scenarios(&tier).into_iter().filter(|s| props.is_empty() || s.props.iter().any(|p| props.contains(p))).collect();
            let queue = Arc::new(Mutex::new(scs.into_iter().rev().collect::<Vec<_>>()));
            let results: Arc<Mutex<Vec<(Scenario, Vec<Violation>)>>> = Arc::new(Mutex::new(vec![]));
            let exe = std::env::current_exe().unwrap();
            let tmp = tmp_dir();
            std::fs::create_dir_all(&tmp).unwrap();
            let mut hs = vec![];
            for w in 0..jobs {
                let q = queue.clone();
                let res = results.clone();
                let exe = exe.clone();
                let tmp = tmp.clone();
                let tier = tier.clone();
                hs.push(std::thread::spawn(move || {
                    let mut n = 0;
                    loop {
                        let sc = { q.lock().unwrap().pop() };
                        let Some(sc) = sc else { break };
                        n += 1;
                        let cp = tmp.join(format!("s{}-{}-{}.json", std::process::id(), w, n));
                        let op = tmp.join(format!("o{}-{}-{}.json", std::process::id(), w, n));
                        std::fs::write(&cp, serde_json::to_string(&sc).unwrap()).unwrap();
                        let st = std::process::Command::new(&exe).args(["run-one", cp.to_str().unwrap(), op.to_str().unwrap(), &tier]).stderr(std::process::Stdio::piped()).output().unwrap();
                        let r = std::fs::read_to_string(&op).ok().and_then(|t| serde_json::from_str::<serde_json::Value>(&t).ok());
                        let _ = std::fs::remove_file(&cp);
                        let _ = std::fs::remove_file(&op);
                        match r {
                            Some(v) => {
                                let s: Scenario = serde_json::from_value(v["scenario"].clone()).unwrap();
                                let vs: Vec<Violation> = serde_json::from_value(v["violations"].clone()).unwrap();
                                if std::env::var("TOPICX_VERBOSE").is_ok() {
                                    eprintln!("{} runs={} outcomes={} viol={} exhaustive={} {:.1}s", s.name, s.executions, s.distinct_outcomes, vs.len(), s.exhaustive, s.wall_s);
                                }
                                res.lock().unwrap().push((s, vs));
                            }
                            None => {
                                let err = String::from_utf8_lossy(&st.stderr).to_string();
                                res.lock().unwrap().push((Scenario { name: sc.name.clone(), properties: sc.props.clone(), exhaustive: false, caps: vec![format!("child died ({:?}): {}", st.status, err.lines().last().unwrap_or(""))], ..Default::default() }, vec![]));
                            }
                        }
                    }
                }));
            }
            for h in hs {
                h.join().unwrap();
            }
            let mut rep = Report::new("topicx", &tier);
            let mut rs = std::mem::take(&mut *results.lock().unwrap());
            rs.sort_by(|a, b| a.0.name.cmp(&b.0.name));
            let mut died = false;
            for (s, vs) in rs {
                if s.executions == 0 {
                    died = true;
                    eprintln!("scenario {} did not run: {:?}", s.name, s.caps);
                }
                rep.scenarios.push(s);
                for v in vs {
                    rep.push_violation(v);
                }
            }
            rep.violations.sort_by(|a, b| a.fingerprint.cmp(&b.fingerprint));
            rep.write(&out);
            std::process::exit(if died { 3 } else { 0 });
        }
        Some("run-one") => {
            install_hooks();
            let sc: Scen = serde_json::from_str(&std::fs::read_to_string(&args[2]).unwrap()).unwrap();
            let quick = args.get(4).map(|s| s == "quick").unwrap_or(true);
            // three harness threads: one preemption less (the spaces grow by an order of magnitude per thread)
            let three = sc.threads.len() >= 3;
            let bound = match (quick, three) {
                (true, false) => 2,
                (true, true) => 1,
                (false, false) => 3,
                (false, true) => 2,
            };
            let (s, v) = explore(&sc, bound, if quick { 60_000 } else { 3_000_000 }, Instant::now() + Duration::from_secs(if quick { 150 } else { 1800 }));
            std::fs::write(&args[3], serde_json::to_string(&serde_json::json!({"scenario": s, "violations": v})).unwrap()).unwrap();
            std::process::exit(0);
        }
        Some("replay") => {
            install_hooks();
            let v: serde_json::Value = serde_json::from_str(&std::fs::read_to_string(&args[2]).unwrap()).unwrap();
            let r = if v.get("replay").is_some() { &v["replay"] } else { &v };
            let sc: Scen = serde_json::from_value(r["scenario"].clone()).unwrap();
            let schedule: Vec<usize> = serde_json::from_value(r["schedule"].clone()).unwrap();
            let rule = r["rule"].as_str().unwrap_or("").to_string();
            println!("replaying schedule {:?} of {}", schedule, sc.name);
            let o = run_schedule(&sc, &schedule);
            for e in &o.log {
                println!("  T{} {:?} [{}..{}] -> {:?}", e.thread, e.op, e.call, e.ret, e.out);
            }
            println!("deadlock: {:?}; panics: {:?}; fails: {:?}", o.deadlock, o.panics, o.fails);
            let hit = o.fails.iter().any(|f| f.rule == rule) || (rule == "deadlock" && o.deadlock.is_some()) || (rule == "panic" && !o.panics.is_empty());
            std::process::exit(if hit { 1 } else { 0 });
        }
        _ => {
            eprintln!("usage: topicx run --tier quick|thorough --out FILE [--props C08] | topicx replay FILE");
            std::process::exit(2)
        }
    }
}
