//! cachex: exhaustive single-thread operation / clock-step / maintenance histories on the real
//! fibre_cache (hooks H1 virtual clock, H2 no background threads) against a register-per-key
//! reference model. Serves C11, C12, C13, C16, C17.
use fibre_cache::policy::CachePolicy;
use fibre_cache::verif as hook;
use fibre_cache::{AsyncCache, AsyncEntry, Cache, CacheBuilder, Entry, EvictionListener, EvictionReason};
use futures_util::Stream;
use std::future::Future;
use std::pin::Pin;
use std::task::{Context, Poll, Wake, Waker};
use serde::{Deserialize, Serialize};
use std::collections::{BTreeMap, BTreeSet};
use std::hash::{BuildHasher, Hasher};
use std::panic::{catch_unwind, AssertUnwindSafe};
use std::sync::{Arc, Mutex};
use std::time::{Duration, Instant};
use vcommon::{Report, Scenario, Violation};

const SEC: u64 = 1_000_000_000;
const T0: u64 = 1_000_000_000;

// ---------------------------------------------------------------- deterministic hasher: hash(k) = k
#[derive(Clone, Default)]
pub struct IdBuild;
pub struct IdHasher(u64);
impl Hasher for IdHasher {
    fn finish(&self) -> u64 {
        self.0
    }
    fn write(&mut self, bytes: &[u8]) {
        for b in bytes {
            self.0 = (self.0 << 8) | *b as u64;
        }
    }
    fn write_u32(&mut self, i: u32) {
        self.0 = i as u64;
    }
}
impl BuildHasher for IdBuild {
    type Hasher = IdHasher;
    fn build_hasher(&self) -> IdHasher {
        IdHasher(0)
    }
}

type K = u32;
type V = u64;
type C = Cache<K, V, IdBuild>;
type AC = AsyncCache<K, V, IdBuild>;

// ---------------------------------------------------------------- minimal executor for the async handle
struct ThreadWaker(std::thread::Thread);
impl Wake for ThreadWaker {
    fn wake(self: Arc<Self>) {
        self.0.unpark();
    }
}
/// Drives one future on the calling thread. On a single thread the hybrid-lock futures of the cache
/// never wait; the only genuinely pending case is a load that a loader thread completes.
fn block_on<F: Future>(f: F) -> F::Output {
    let mut f = std::pin::pin!(f);
    let w = Waker::from(Arc::new(ThreadWaker(std::thread::current())));
    let mut cx = Context::from_waker(&w);
    let t0 = Instant::now();
    loop {
        if let Poll::Ready(v) = f.as_mut().poll(&mut cx) {
            return v;
        }
        if t0.elapsed() > Duration::from_secs(20) {
            panic!("async operation still pending after 20 s on an otherwise idle cache");
        }
        std::thread::park_timeout(Duration::from_millis(50));
    }
}
fn collect_stream<S: Stream + Unpin>(mut s: S) -> Vec<S::Item> {
    let mut out = vec![];
    loop {
        let item = block_on(std::future::poll_fn(|cx| Pin::new(&mut s).poll_next(cx)));
        match item {
            Some(x) => out.push(x),
            None => return out,
        }
    }
}

#[derive(Clone, Debug, Serialize, Deserialize, PartialEq, Eq)]
pub struct Cfg {
    pub family: String,
    pub policy: String,
    pub capacity: Option<u64>,
    pub shards: usize,
    pub ttl_s: Option<u64>,
    pub tti_s: Option<u64>,
    pub introspection_maintenance: bool,
    pub depth: usize,
    /// stale-while-revalidate grace (seconds); implies a loader
    #[serde(default)]
    pub grace_s: Option<u64>,
    #[serde(default)]
    pub loader: bool,
    /// drive the cache through the AsyncCache handle (every operation awaited by `block_on`)
    #[serde(default)]
    pub async_handle: bool,
    /// warm start: these steps are executed (with all oracles on) before the exploration begins and do not count
    /// towards the depth — "start from non-initial states"
    #[serde(default)]
    pub prefix: Vec<Act>,
    #[serde(default)]
    pub prefix_name: String,
}
impl Cfg {
    fn name(&self) -> String {
        format!(
            "cache/{}/{}/cap{}/sh{}/ttl{}/tti{}{}{}/d{}{}",
            self.family,
            self.policy,
            self.capacity.map(|c| c.to_string()).unwrap_or("inf".into()),
            self.shards,
            self.ttl_s.map(|c| c.to_string()).unwrap_or("-".into()),
            self.tti_s.map(|c| c.to_string()).unwrap_or("-".into()),
            if self.introspection_maintenance { "/im" } else { "" },
            self.grace_s.map(|g| format!("/grace{}", g)).unwrap_or_default() + if self.async_handle { "/async" } else { "" },
            self.depth,
            if self.prefix.is_empty() { String::new() } else { format!("/from-{}", self.prefix_name) }
        )
    }
}

#[derive(Clone, Copy, Debug, Serialize, Deserialize, PartialEq, Eq, PartialOrd, Ord)]
pub enum Act {
    Insert(K, u64),
    InsertTtl(K, u64, u64),
    Remove(K),
    Invalidate(K),
    Clear,
    Get(K),
    Fetch(K),
    Peek(K),
    EntryGet(K),
    EntryOrInsert(K, u64),
    Compute(K),
    /// `compute` (the waiting form; on one thread it never waits)
    ComputeLoop(K),
    /// entry(k): Vacant -> insert(id, cost); Occupied -> get
    EntryInsert(K, u64),
    /// multiget over keys 0..n
    MultiGet(u32),
    /// multi_insert of keys 0..n, unit cost
    MultiInsert(u32),
    /// multi_remove of keys 0..n
    MultiRemove(u32),
    /// multi_invalidate of keys 0..n
    MultiInvalidate(u32),
    FetchWith(K),
    Iter(usize),
    IterSnapshot,
    SnapshotRestore,
    Maint,
    /// opportunistic maintenance coin for the following inserts
    Coin(bool),
    /// advance the virtual clock by this many nanoseconds
    Adv(u64),
}

#[derive(Clone, Debug, PartialEq, Eq, Serialize)]
pub enum Out {
    Unit,
    Val(Option<V>),
    Bool(bool),
    Items(Vec<(K, V)>),
    Panic(String),
}

struct Recorder(Arc<Mutex<Vec<(K, V, EvictionReason)>>>);
impl EvictionListener<K, V> for Recorder {
    fn on_evict(&self, key: K, value: Arc<V>, reason: EvictionReason) {
        self.0.lock().unwrap().push((key, *value, reason));
    }
}

#[derive(Clone, Debug)]
struct MEntry {
    id: V,
    cost: u64,
    expires_at: Option<u64>,
    /// last refreshing access: definitely at `la_min`, possibly as late as `la_max`
    la_min: u64,
    la_max: u64,
}

#[derive(Debug, Clone)]
pub struct Fail {
    pub prop: &'static str,
    pub rule: &'static str,
    pub op: String,
    pub msg: String,
}

struct World {
    cfg: Cfg,
    loads: Arc<Mutex<Vec<(K, V)>>>,
    cache: C,
    acache: AC,
    notes: Arc<Mutex<Vec<(K, V, EvictionReason)>>>,
    now: u64,
    /// latest value written per key that has not been removed / cleared by the user
    latest: BTreeMap<K, MEntry>,
    /// every id ever written: id -> (key, cost)
    ids: BTreeMap<V, (K, u64)>,
    /// ids that must never be returned again (overwritten, removed, cleared, notified)
    dead: BTreeSet<V>,
    notified: BTreeSet<V>,
    next_id: V,
    log: Vec<(Act, Out)>,
    stats_rolls: u64,
}

static NEXT_LOADED: std::sync::atomic::AtomicU64 = std::sync::atomic::AtomicU64::new(1_000_000);

fn build_cache(cfg: &Cfg, notes: &Arc<Mutex<Vec<(K, V, EvictionReason)>>>, snapshot: Option<fibre_cache::snapshot::CacheSnapshot<K, V>>) -> C {
    build_cache_l(cfg, notes, snapshot, &Arc::new(Mutex::new(Vec::new())))
}
fn build_cache_l(cfg: &Cfg, notes: &Arc<Mutex<Vec<(K, V, EvictionReason)>>>, snapshot: Option<fibre_cache::snapshot::CacheSnapshot<K, V>>, loads: &Arc<Mutex<Vec<(K, V)>>>) -> C {
    let mut b: CacheBuilder<K, V, IdBuild> = CacheBuilder::<K, V, IdBuild>::new().hasher(IdBuild).shards(cfg.shards).maintenance_on_introspection(cfg.introspection_maintenance);
    b = match cfg.capacity {
        Some(c) => b.capacity(c),
        None => b.unbounded(),
    };
    if let Some(t) = cfg.ttl_s {
        b = b.time_to_live(Duration::from_secs(t));
    }
    if let Some(t) = cfg.tti_s {
        b = b.time_to_idle(Duration::from_secs(t));
    }
    b = b.eviction_listener(Recorder(notes.clone()));
    if let Some(g) = cfg.grace_s {
        b = b.stale_while_revalidate(Duration::from_secs(g));
    }
    if cfg.loader || cfg.grace_s.is_some() {
        let loads = loads.clone();
        b = b.loader(move |k: K| {
            let v = NEXT_LOADED.fetch_add(1, std::sync::atomic::Ordering::SeqCst);
            loads.lock().unwrap().push((k, v));
            (v, 1)
        });
    }
    let cap = cfg.capacity.unwrap_or(u64::MAX);
    let shards = cfg.shards as u64;
    let per_shard = if cap == u64::MAX { u64::MAX } else { (cap + shards - 1) / shards };
    let pol = cfg.policy.clone();
    if pol != "default" {
        b = b.cache_policy_factory(move || -> Box<dyn CachePolicy<K, V>> {
            match pol.as_str() {
                "lru" => Box::new(fibre_cache::policy::lru::LruPolicy::new()),
                "fifo" => Box::new(fibre_cache::policy::fifo::Fifo::new()),
                "sieve" => Box::new(fibre_cache::policy::sieve::SievePolicy::new()),
                "clock" => Box::new(fibre_cache::policy::clock::ClockPolicy::new()),
                "slru" => Box::new(fibre_cache::policy::slru::SlruPolicy::new(per_shard)),
                "arc" => Box::new(fibre_cache::policy::arc::ArcPolicy::new(per_shard.min(1 << 20) as usize)),
                "tinylfu" => Box::new(fibre_cache::policy::tinylfu::TinyLfuPolicy::new(per_shard)),
                "random" => Box::new(fibre_cache::policy::random::RandomPolicy::new()),
                other => panic!("unknown policy {}", other),
            }
        });
    }
    match snapshot {
        Some(s) => b.build_from_snapshot(s).expect("build_from_snapshot"),
        None => b.build().expect("build"),
    }
}

fn fail(prop: &'static str, rule: &'static str, op: &str, msg: String) -> Fail {
    Fail { prop, rule, op: op.to_string(), msg }
}

impl World {
    fn new(cfg: &Cfg) -> World {
        hook::set_background_threads(false);
        hook::set_clock_nanos(T0);
        hook::set_maintenance_coin(Some(false));
        let notes = Arc::new(Mutex::new(Vec::new()));
        let loads = Arc::new(Mutex::new(Vec::new()));
        NEXT_LOADED.store(1_000_000, std::sync::atomic::Ordering::SeqCst);
        let cache = build_cache_l(cfg, &notes, None, &loads);
        let acache = cache.to_async();
        World { cfg: cfg.clone(), loads, cache, acache, notes, now: T0, latest: BTreeMap::new(), ids: BTreeMap::new(), dead: BTreeSet::new(), notified: BTreeSet::new(), next_id: 1, log: vec![], stats_rolls: 0 }
    }
    fn ttl(&self) -> Option<u64> {
        self.cfg.ttl_s.map(|s| s * SEC)
    }
    fn tti(&self) -> Option<u64> {
        self.cfg.tti_s.map(|s| s * SEC)
    }
    /// model: is the latest entry of k certainly expired / certainly live now?
    fn certainly_expired(&self, e: &MEntry) -> bool {
        if let Some(x) = e.expires_at {
            if self.now >= x {
                return true;
            }
        }
        if let Some(t) = self.tti() {
            if self.now >= e.la_max + t {
                return true;
            }
        }
        false
    }
    fn certainly_live(&self, e: &MEntry) -> bool {
        if let Some(x) = e.expires_at {
            if self.now >= x {
                return false;
            }
        }
        if let Some(t) = self.tti() {
            if self.now >= e.la_min + t {
                return false;
            }
        }
        true
    }
    fn opname(a: &Act) -> &'static str {
        match a {
            Act::Insert(..) => "insert",
            Act::InsertTtl(..) => "insert_with_ttl",
            Act::Remove(_) => "remove",
            Act::Invalidate(_) => "invalidate",
            Act::Clear => "clear",
            Act::Get(_) => "get",
            Act::Fetch(_) => "fetch",
            Act::Peek(_) => "peek",
            Act::EntryGet(_) => "entry.occupied.get",
            Act::EntryOrInsert(..) => "entry.or_insert",
            Act::Compute(_) => "compute",
            Act::ComputeLoop(_) => "compute_loop",
            Act::EntryInsert(..) => "entry.insert",
            Act::MultiGet(_) => "multiget",
            Act::MultiInsert(_) => "multi_insert",
            Act::MultiRemove(_) => "multi_remove",
            Act::MultiInvalidate(_) => "multi_invalidate",
            Act::FetchWith(_) => "fetch_with",
            Act::Iter(_) => "iter",
            Act::IterSnapshot => "iter_snapshot",
            Act::SnapshotRestore => "to_snapshot+build_from_snapshot",
            Act::Maint => "run_maintenance",
            Act::Coin(_) => "coin",
            Act::Adv(_) => "advance_clock",
        }
    }

    /// check a read result of key k
    fn check_read(&mut self, k: K, got: Option<V>, op: &str, refreshes: Option<bool>) -> Result<(), Fail> {
        self.check_read_x(k, got, op, refreshes, true)
    }
    fn check_read_x(&mut self, k: K, got: Option<V>, op: &str, refreshes: Option<bool>, expiry_applies: bool) -> Result<(), Fail> {
        let ent = self.latest.get(&k).cloned();
        match got {
            Some(id) => {
                let Some((ik, _)) = self.ids.get(&id).cloned() else {
                    return Err(fail("C11", "phantom_value", op, format!("{}({}) returned value #{} that was never written", op, k, id)));
                };
                if ik != k {
                    return Err(fail("C11", "other_keys_value", op, format!("{}({}) returned #{} which belongs to key {}", op, k, id, ik)));
                }
                if self.notified.contains(&id) {
                    return Err(fail("C16", "notified_value_still_served", op, format!("{}({}) returned #{} although the eviction listener was already told it was removed", op, k, id)));
                }
                match &ent {
                    Some(e) if e.id == id => {
                        if expiry_applies && self.certainly_expired(e) {
                            return Err(fail("C12", "expired_entry_served", op, format!("{}({}) returned #{} at t={}ns although it expired (expires_at={:?}, last refreshing access ≤ {}, tti={:?})", op, k, id, self.now, e.expires_at, e.la_max, self.tti())));
                        }
                    }
                    _ => {
                        let why = if self.dead.contains(&id) { "overwritten / removed / cleared value (resurrection)" } else { "stale value" };
                        return Err(fail("C11", "stale_or_removed_value", op, format!("{}({}) returned #{}: {}; latest live value is {:?}", op, k, id, why, ent.as_ref().map(|e| e.id))));
                    }
                }
                // TTI refresh bookkeeping
                if let Some(e) = self.latest.get_mut(&k) {
                    match refreshes {
                        Some(true) => {
                            e.la_min = self.now;
                            e.la_max = self.now;
                        }
                        Some(false) => {}
                        None => e.la_max = self.now,
                    }
                }
                Ok(())
            }
            None => {
                // a bounded cache may forget; an unbounded one must still hold every live entry
                if self.cfg.capacity.is_none() && expiry_applies {
                    if let Some(e) = &ent {
                        if self.certainly_live(e) {
                            return Err(fail("C12", "live_entry_missing", op, format!("{}({}) returned None at t={}ns but #{} is live (expires_at={:?}, last access ≥ {}) and the cache is unbounded", op, k, self.now, e.id, e.expires_at, e.la_min)));
                        }
                    }
                }
                Ok(())
            }
        }
    }

    fn write(&mut self, k: K, cost: u64, ttl: Option<u64>) -> V {
        let id = self.next_id;
        self.next_id += 1;
        self.ids.insert(id, (k, cost));
        if let Some(old) = self.latest.get(&k) {
            self.dead.insert(old.id);
        }
        let expires_at = ttl.or(self.ttl()).map(|t| self.now + t);
        self.latest.insert(k, MEntry { id, cost, expires_at, la_min: self.now, la_max: self.now });
        id
    }

    fn apply(&mut self, a: Act) -> Result<Out, Fail> {
        let before: BTreeMap<V, (K, u64, u64, u64)> = hook::dump(&self.cache).into_iter().map(|(k, v, c, x, la)| (*v, (k, c, x, la))).collect();
        let op = Self::opname(&a);
        let res = catch_unwind(AssertUnwindSafe(|| self.apply_inner(a)));
        let out = match res {
            Ok(Ok(o)) => o,
            Ok(Err(f)) => {
                self.log.push((a, Out::Unit));
                return Err(f);
            }
            Err(p) => {
                let msg = p.downcast_ref::<String>().cloned().or_else(|| p.downcast_ref::<&str>().map(|s| s.to_string())).unwrap_or("panic".into());
                self.log.push((a, Out::Panic(msg.clone())));
                return Err(fail("C11", "panic", op, format!("{} panicked: {}", op, msg)));
            }
        };
        self.log.push((a, out.clone()));
        self.after_step(a, &out, before)?;
        Ok(out)
    }

    fn apply_inner(&mut self, a: Act) -> Result<Out, Fail> {
        let op = Self::opname(&a);
        match a {
            Act::Insert(k, c) => {
                let id = self.write(k, c, None);
                if self.cfg.async_handle {
                    block_on(self.acache.insert(k, id, c));
                } else {
                    self.cache.insert(k, id, c);
                }
                Ok(Out::Unit)
            }
            Act::InsertTtl(k, c, ttl) => {
                let id = self.write(k, c, Some(ttl));
                if self.cfg.async_handle {
                    block_on(self.acache.insert_with_ttl(k, id, c, Duration::from_nanos(ttl)));
                } else {
                    self.cache.insert_with_ttl(k, id, c, Duration::from_nanos(ttl));
                }
                Ok(Out::Unit)
            }
            Act::Remove(k) => {
                let got = if self.cfg.async_handle { block_on(self.acache.remove(&k)).map(|v| *v) } else { self.cache.remove(&k).map(|v| *v) };
                // remove returns the stored value (identity rules of a read; it is not one of the
                // read APIs the expiry property speaks about), then the key is gone
                self.check_read_x(k, got, op, Some(false), false)?;
                if let Some(e) = self.latest.remove(&k) {
                    self.dead.insert(e.id);
                }
                Ok(Out::Val(got))
            }
            Act::Invalidate(k) => {
                let b = if self.cfg.async_handle { block_on(self.acache.invalidate(&k)) } else { self.cache.invalidate(&k) };
                if let Some(e) = self.latest.remove(&k) {
                    self.dead.insert(e.id);
                }
                Ok(Out::Bool(b))
            }
            Act::Clear => {
                if self.cfg.async_handle {
                    block_on(self.acache.clear());
                } else {
                    self.cache.clear();
                }
                for (_, e) in std::mem::take(&mut self.latest) {
                    self.dead.insert(e.id);
                }
                Ok(Out::Unit)
            }
            Act::Get(k) => {
                let got = if self.cfg.async_handle { block_on(self.acache.get(&k, |v| *v)) } else { self.cache.get(&k, |v| *v) };
                self.check_read(k, got, op, Some(true))?;
                Ok(Out::Val(got))
            }
            Act::Fetch(k) => {
                let got = if self.cfg.async_handle { block_on(self.acache.fetch(&k)).map(|v| *v) } else { self.cache.fetch(&k).map(|v| *v) };
                self.check_read(k, got, op, Some(true))?;
                Ok(Out::Val(got))
            }
            Act::Peek(k) => {
                let got = if self.cfg.async_handle { block_on(self.acache.peek(&k)).map(|v| *v) } else { self.cache.peek(&k).map(|v| *v) };
                self.check_read(k, got, op, Some(false))?;
                Ok(Out::Val(got))
            }
            Act::EntryGet(k) => {
                let got = if self.cfg.async_handle {
                    match block_on(self.acache.entry(k)) {
                        AsyncEntry::Occupied(o) => Some(*o.get()),
                        AsyncEntry::Vacant(_) => None,
                    }
                } else {
                    match self.cache.entry(k) {
                        Entry::Occupied(o) => Some(*o.get()),
                        Entry::Vacant(_) => None,
                    }
                };
                self.check_read(k, got, op, None)?;
                Ok(Out::Val(got))
            }
            Act::EntryOrInsert(k, c) => {
                let id = self.next_id;
                self.next_id += 1;
                self.ids.insert(id, (k, c));
                let got = if self.cfg.async_handle { *block_on(self.acache.entry(k)).or_insert(id, c) } else { *self.cache.entry(k).or_insert(id, c) };
                if got == id {
                    // inserted: the key must have been vacant from the model's point of view, or the old entry is gone
                    if let Some(old) = self.latest.get(&k) {
                        if self.cfg.capacity.is_none() && self.certainly_live(old) {
                            return Err(fail("C11", "or_insert_overwrote_live_entry", op, format!("entry({}).or_insert inserted #{} although #{} is live", k, id, old.id)));
                        }
                        self.dead.insert(old.id);
                    }
                    let expires_at = self.ttl().map(|t| self.now + t);
                    self.latest.insert(k, MEntry { id, cost: c, expires_at, la_min: self.now, la_max: self.now });
                    Ok(Out::Val(Some(got)))
                } else {
                    self.dead.insert(id);
                    self.check_read(k, Some(got), op, None)?;
                    Ok(Out::Val(Some(got)))
                }
            }
            Act::Compute(k) => {
                // compute replaces the value in place: the entry keeps its key; we write a fresh id
                let id = self.next_id;
                self.next_id += 1;
                let mut seen: Option<V> = None;
                let done = if self.cfg.async_handle {
                    block_on(self.acache.try_compute(&k, |v| {
                        seen = Some(*v);
                        *v = id;
                    }))
                } else {
                    self.cache.try_compute(&k, |v| {
                        seen = Some(*v);
                        *v = id;
                    })
                };
                match done {
                    Some(true) => {
                        let old = seen.unwrap();
                        // compute is a read-modify-write, not one of the read APIs the expiry property lists (like remove)
                        self.check_read_x(k, Some(old), op, None, false)?;
                        let cost = self.ids.get(&old).map(|x| x.1).unwrap_or(1);
                        self.ids.insert(id, (k, cost));
                        self.dead.insert(old);
                        if let Some(e) = self.latest.get_mut(&k) {
                            e.id = id;
                        }
                        Ok(Out::Bool(true))
                    }
                    Some(false) => Ok(Out::Bool(false)),
                    None => {
                        self.check_read(k, None, op, None)?;
                        Ok(Out::Val(None))
                    }
                }
            }
            Act::ComputeLoop(k) => {
                let id = self.next_id;
                self.next_id += 1;
                let mut seen: Option<V> = None;
                let done = if self.cfg.async_handle {
                    block_on(self.acache.compute(&k, |v| {
                        seen = Some(*v);
                        *v = id;
                    }))
                } else {
                    self.cache.compute(&k, |v| {
                        seen = Some(*v);
                        *v = id;
                    })
                };
                if done {
                    let old = seen.unwrap();
                    self.check_read_x(k, Some(old), op, None, false)?;
                    let cost = self.ids.get(&old).map(|x| x.1).unwrap_or(1);
                    self.ids.insert(id, (k, cost));
                    self.dead.insert(old);
                    if let Some(e) = self.latest.get_mut(&k) {
                        e.id = id;
                    }
                    Ok(Out::Bool(true))
                } else {
                    self.check_read_x(k, None, op, None, false)?;
                    Ok(Out::Bool(false))
                }
            }
            Act::EntryInsert(k, c) => {
                let id = self.next_id;
                self.next_id += 1;
                self.ids.insert(id, (k, c));
                // Some(old) = occupied (value read), None = vacant (id inserted)
                let got: Option<V> = if self.cfg.async_handle {
                    match block_on(self.acache.entry(k)) {
                        AsyncEntry::Occupied(o) => Some(*o.get()),
                        AsyncEntry::Vacant(v) => {
                            v.insert(id, c);
                            None
                        }
                    }
                } else {
                    match self.cache.entry(k) {
                        Entry::Occupied(o) => Some(*o.get()),
                        Entry::Vacant(v) => {
                            v.insert(id, c);
                            None
                        }
                    }
                };
                match got {
                    None => {
                        if let Some(old) = self.latest.get(&k) {
                            if self.cfg.capacity.is_none() && self.certainly_live(old) {
                                return Err(fail("C11", "entry_vacant_for_live_entry", op, format!("entry({}) was Vacant although #{} is live and the cache is unbounded", k, old.id)));
                            }
                            self.dead.insert(old.id);
                        }
                        let expires_at = self.ttl().map(|t| self.now + t);
                        self.latest.insert(k, MEntry { id, cost: c, expires_at, la_min: self.now, la_max: self.now });
                        Ok(Out::Val(None))
                    }
                    Some(g) => {
                        self.dead.insert(id);
                        self.check_read(k, Some(g), op, None)?;
                        Ok(Out::Val(Some(g)))
                    }
                }
            }
            Act::MultiGet(n) => {
                let keys: Vec<K> = (0..n).collect();
                let mut items: Vec<(K, V)> = if self.cfg.async_handle {
                    block_on(self.acache.multiget(keys.clone())).iter().map(|(k, v)| (*k, **v)).collect()
                } else {
                    self.cache.multiget(keys.clone()).iter().map(|(k, v)| (*k, **v)).collect()
                };
                items.sort();
                for (k, _) in &items {
                    if !keys.contains(k) {
                        return Err(fail("C11", "other_keys_value", op, format!("multiget({:?}) returned key {} which was not asked for", keys, k)));
                    }
                }
                for k in keys {
                    let g = items.iter().find(|x| x.0 == k).map(|x| x.1);
                    self.check_read(k, g, op, None)?;
                }
                Ok(Out::Items(items))
            }
            Act::MultiInsert(n) => {
                let mut batch = vec![];
                for k in 0..n {
                    let id = self.write(k, 1, None);
                    batch.push((k, id, 1u64));
                }
                if self.cfg.async_handle {
                    block_on(self.acache.multi_insert(batch));
                } else {
                    self.cache.multi_insert(batch);
                }
                Ok(Out::Unit)
            }
            Act::MultiRemove(n) => {
                let keys: Vec<K> = (0..n).collect();
                let got: Vec<(K, Arc<V>)> = if self.cfg.async_handle { block_on(self.acache.multi_remove::<_, K>(keys.clone())) } else { self.cache.multi_remove::<_, K>(keys.clone()) };
                let mut items: Vec<(K, V)> = got.iter().map(|(k, v)| (*k, **v)).collect();
                items.sort();
                for w in items.windows(2) {
                    if w[0].0 == w[1].0 {
                        return Err(fail("C11", "removed_twice", op, format!("multi_remove returned key {} twice: {:?}", w[0].0, items)));
                    }
                }
                for k in keys {
                    let g = items.iter().find(|x| x.0 == k).map(|x| x.1);
                    self.check_read_x(k, g, op, Some(false), false)?;
                    if let Some(e) = self.latest.remove(&k) {
                        self.dead.insert(e.id);
                    }
                }
                Ok(Out::Items(items))
            }
            Act::MultiInvalidate(n) => {
                let keys: Vec<K> = (0..n).collect();
                if self.cfg.async_handle {
                    block_on(self.acache.multi_invalidate::<_, K>(keys.clone()));
                } else {
                    self.cache.multi_invalidate::<_, K>(keys.clone());
                }
                for k in keys {
                    if let Some(e) = self.latest.remove(&k) {
                        self.dead.insert(e.id);
                    }
                }
                Ok(Out::Unit)
            }
            Act::FetchWith(k) => {
                let before = self.loads.lock().unwrap().len();
                let got = if self.cfg.async_handle { *block_on(self.acache.fetch_with(&k)) } else { *self.cache.fetch_with(&k) };
                let grace = self.cfg.grace_s.map(|g| g * SEC);
                let ent = self.latest.get(&k).cloned();
                let loaded_now: Vec<(K, V)> = self.loads.lock().unwrap()[before..].to_vec();
                if let Some((lk, lv)) = loaded_now.iter().find(|(_, v)| *v == got) {
                    // miss path: the loader ran for this call and its value was returned
                    if *lk != k {
                        return Err(fail("C11", "other_keys_value", op, format!("fetch_with({}) returned the value loaded for key {}", k, lk)));
                    }
                    if let Some(e) = &ent {
                        if self.cfg.capacity.is_none() && self.certainly_live(e) {
                            return Err(fail("C12", "live_entry_missing", op, format!("fetch_with({}) ran the loader at t={}ns although #{} is live and the cache is unbounded", k, self.now, e.id)));
                        }
                        self.dead.insert(e.id);
                    }
                    self.ids.insert(*lv, (k, 1));
                    let expires_at = self.ttl().map(|t| self.now + t);
                    self.latest.insert(k, MEntry { id: *lv, cost: 1, expires_at, la_min: self.now, la_max: self.now });
                    return Ok(Out::Val(Some(got)));
                }
                // hit path: fresh, or stale inside the grace window
                let Some(e) = ent else {
                    return Err(fail("C11", "stale_or_removed_value", op, format!("fetch_with({}) returned #{} but the key has no live value and the loader did not run for this call", k, got)));
                };
                if e.id != got {
                    return self.check_read(k, Some(got), op, Some(true)).map(|_| Out::Val(Some(got)));
                }
                let ttl_expired = e.expires_at.map(|x| self.now >= x).unwrap_or(false);
                let tti_expired = self.tti().map(|t| self.now >= e.la_max + t).unwrap_or(false);
                if tti_expired {
                    return Err(fail("C12", "expired_entry_served", op, format!("fetch_with({}) returned #{} at t={}ns although it is idle-expired (last refreshing access ≤ {})", k, got, self.now, e.la_max)));
                }
                if !ttl_expired {
                    self.check_read(k, Some(got), op, Some(true))?;
                    return Ok(Out::Val(Some(got)));
                }
                let x = e.expires_at.unwrap();
                match grace {
                    Some(g) if self.now < x + g => {
                        // stale hit: a refresh must have been triggered; wait for it (background thread)
                        let t0 = Instant::now();
                        let refreshed = loop {
                            let l = self.loads.lock().unwrap()[before..].iter().find(|(lk, _)| *lk == k).cloned();
                            if let Some((_, lv)) = l {
                                if hook::dump(&self.cache).iter().any(|d| d.0 == k && *d.1 == lv) {
                                    break Some(lv);
                                }
                            }
                            if t0.elapsed() > Duration::from_millis(1500) {
                                break None;
                            }
                            std::thread::sleep(Duration::from_micros(200));
                        };
                        match refreshed {
                            Some(lv) => {
                                // let the loader thread finish its bookkeeping (pending marker, completion)
                                std::thread::sleep(Duration::from_micros(300));
                                self.dead.insert(e.id);
                                self.ids.insert(lv, (k, 1));
                                let expires_at = self.ttl().map(|t| self.now + t);
                                self.latest.insert(k, MEntry { id: lv, cost: 1, expires_at, la_min: self.now, la_max: self.now });
                                Ok(Out::Val(Some(got)))
                            }
                            None => Err(fail("C12", "stale_hit_without_refresh", op, format!("fetch_with({}) served the stale #{} inside the grace window but no refresh replaced it within 1.5 s", k, got))),
                        }
                    }
                    _ => Err(fail("C12", "expired_entry_served", op, format!("fetch_with({}) returned #{} at t={}ns although it expired at {}ns (grace {:?})", k, got, self.now, x, grace))),
                }
            }
            Act::Iter(batch) => {
                let items: Vec<(K, V)> = if self.cfg.async_handle {
                    collect_stream(self.acache.iter_stream_with_batch_size(batch)).into_iter().map(|(k, v)| (k, *v)).collect()
                } else {
                    self.cache.iter_with_batch_size(batch).map(|(k, v)| (k, *v)).collect()
                };
                self.check_enumeration(&items, op)?;
                self.may_refresh(&items);
                Ok(Out::Items(items))
            }
            Act::IterSnapshot => {
                let items: Vec<(K, V)> = if self.cfg.async_handle {
                    let mut it = self.acache.iter_snapshot_async();
                    let mut out = vec![];
                    while let Some((k, v)) = block_on(it.next()) {
                        out.push((k, *v));
                    }
                    out
                } else {
                    self.cache.iter_snapshot().map(|(k, v)| (k, *v)).collect()
                };
                self.check_enumeration(&items, op)?;
                self.may_refresh(&items);
                Ok(Out::Items(items))
            }
            Act::SnapshotRestore => {
                let snap = self.cache.to_snapshot();
                // PersistentEntry's fields are private: read them through the serialized form
                let sv = serde_json::to_value(&snap).map_err(|e| fail("C17", "snapshot_serialize", op, format!("{}", e)))?;
                let items: Vec<(K, V)> = sv["entries"].as_array().map(|a| a.iter().map(|e| (e["key"].as_u64().unwrap_or(0) as K, e["value"].as_u64().unwrap_or(0))).collect()).unwrap_or_default();
                self.check_enumeration(&items, "to_snapshot")?;
                // serialization round trip
                let bytes = bincode::serialize(&snap).map_err(|e| fail("C17", "snapshot_serialize", op, format!("{}", e)))?;
                let snap2: fibre_cache::snapshot::CacheSnapshot<K, V> = bincode::deserialize(&bytes).map_err(|e| fail("C17", "snapshot_deserialize", op, format!("{}", e)))?;
                let old_dump: BTreeMap<K, (V, u64, u64)> = hook::dump(&self.cache).into_iter().map(|(k, v, c, x, _)| (k, (*v, c, x))).collect();
                let restored = build_cache_l(&self.cfg, &self.notes, Some(snap2), &self.loads);
                let new_dump: BTreeMap<K, (V, u64, u64)> = hook::dump(&restored).into_iter().map(|(k, v, c, x, _)| (k, (*v, c, x))).collect();
                for (k, v) in &items {
                    let Some((nv, nc, nx)) = new_dump.get(k) else {
                        return Err(fail("C17", "restore_lost_entry", op, format!("restored cache lacks key {} (#{})", k, v)));
                    };
                    let (ov, oc, ox) = old_dump[k];
                    if *nv != ov || *nc != oc {
                        return Err(fail("C17", "restore_changed_entry", op, format!("key {}: restored (#{}, cost {}) vs original (#{}, cost {})", k, nv, nc, ov, oc)));
                    }
                    if (ox == 0) != (*nx == 0) || *nx > ox {
                        return Err(fail("C17", "restore_lifetime_longer", op, format!("key {}: restored expires_at {} vs original {}", k, nx, ox)));
                    }
                }
                if new_dump.len() != items.len() {
                    return Err(fail("C17", "restore_extra_entry", op, format!("restored cache has {} entries, snapshot had {}", new_dump.len(), items.len())));
                }
                // idle lifetime: the snapshot does not carry the age of the last access; a restored entry whose idle clock
                // starts later than the original's has a longer remaining idle lifetime than the original had
                if let Some(tti) = self.tti() {
                    let old_la: BTreeMap<K, u64> = hook::dump(&self.cache).into_iter().map(|(k, _, _, _, la)| (k, la)).collect();
                    for (k, _, _, _, la) in hook::dump(&restored) {
                        if let Some(ola) = old_la.get(&k) {
                            if la > *ola {
                                return Err(fail("C17", "restore_idle_lifetime_longer", op, format!("key {}: the restored entry's idle timeout ({} ns) counts from {} ns, the original's from {} ns: its remaining idle lifetime grew by {} ns", k, tti, la, ola, la - ola)));
                            }
                        }
                    }
                }
                let cc = hook::current_cost_raw(&restored);
                let sum: u64 = new_dump.values().map(|x| x.1).sum();
                if cc != sum {
                    return Err(fail("C13", "current_cost_mismatch", op, format!("restored cache: current_cost {} vs resident cost {}", cc, sum)));
                }
                self.acache = restored.to_async();
                self.cache = restored;
                self.stats_rolls += 1;
                Ok(Out::Unit)
            }
            Act::Maint => {
                // run to a fixpoint (at most 3 passes)
                let mut last = hook::dump(&self.cache).len();
                for _ in 0..3 {
                    if self.cfg.async_handle {
                        block_on(self.acache.run_maintenance());
                    } else {
                        self.cache.run_maintenance();
                    }
                    let n = hook::dump(&self.cache).len();
                    if n == last {
                        break;
                    }
                    last = n;
                }
                Ok(Out::Unit)
            }
            Act::Coin(b) => {
                hook::set_maintenance_coin(Some(b));
                Ok(Out::Unit)
            }
            Act::Adv(d) => {
                self.now += d;
                hook::set_clock_nanos(self.now);
                Ok(Out::Unit)
            }
        }
    }

    /// whether enumeration refreshes the idle timer is unspecified: it may
    fn may_refresh(&mut self, items: &[(K, V)]) {
        let now = self.now;
        for (k, _) in items {
            if let Some(e) = self.latest.get_mut(k) {
                e.la_max = now;
            }
        }
    }

    /// C17: an enumeration at quiescence yields exactly the stored, unexpired entries, each once
    fn check_enumeration(&self, items: &[(K, V)], op: &str) -> Result<(), Fail> {
        let tti = self.tti();
        let mut expect: BTreeMap<K, V> = BTreeMap::new();
        for (k, v, _c, x, la) in hook::dump(&self.cache) {
            let expired = (x > 0 && self.now >= x) || tti.map(|t| self.now >= la + t).unwrap_or(false);
            if !expired {
                expect.insert(k, *v);
            }
        }
        let mut seen: BTreeMap<K, V> = BTreeMap::new();
        for (k, v) in items {
            if seen.insert(*k, *v).is_some() {
                return Err(fail("C17", "enumerated_twice", op, format!("{} yielded key {} more than once: {:?}", op, k, items)));
            }
        }
        for (k, v) in &seen {
            match expect.get(k) {
                Some(e) if e == v => {}
                Some(e) => return Err(fail("C17", "enumerated_wrong_value", op, format!("{} yielded ({},#{}) but the stored value is #{}", op, k, v, e))),
                None => {
                    let stored = hook::dump(&self.cache).into_iter().any(|(dk, ..)| dk == *k);
                    if stored {
                        return Err(fail("C12", "expired_entry_served", op, format!("{} yielded ({},#{}) which is expired at t={}ns", op, k, v, self.now)));
                    }
                    return Err(fail("C17", "enumerated_absent_entry", op, format!("{} yielded ({},#{}) which is not stored", op, k, v)));
                }
            }
        }
        for (k, v) in &expect {
            if !seen.contains_key(k) {
                return Err(fail("C17", "live_entry_not_enumerated", op, format!("{} omitted the live entry ({},#{}); it yielded {:?}", op, k, v, items)));
            }
        }
        Ok(())
    }

    /// oracles evaluated after every step: notifications (C16), premature collection (C12),
    /// and after maintenance the cost accounting (C13)
    fn after_step(&mut self, a: Act, out: &Out, before: BTreeMap<V, (K, u64, u64, u64)>) -> Result<(), Fail> {
        let op = Self::opname(&a);
        hook::pump_listener(&self.cache);
        let notes: Vec<(K, V, EvictionReason)> = std::mem::take(&mut *self.notes.lock().unwrap());
        let after: BTreeMap<V, (K, u64, u64, u64)> = hook::dump(&self.cache).into_iter().map(|(k, v, c, x, la)| (*v, (k, c, x, la))).collect();
        if matches!(a, Act::SnapshotRestore) {
            return Ok(());
        }
        let tti = self.tti();
        let mut told: BTreeSet<V> = BTreeSet::new();
        for (k, id, reason) in &notes {
            let Some((ik, _)) = self.ids.get(id) else {
                return Err(fail("C16", "phantom_notification", op, format!("listener told ({}, #{}, {:?}) but #{} was never written", k, id, reason, id)));
            };
            if ik != k {
                return Err(fail("C16", "notification_wrong_key", op, format!("listener told ({}, #{}, {:?}) but #{} belongs to key {}", k, id, reason, id, ik)));
            }
            if !self.notified.insert(*id) || !told.insert(*id) {
                return Err(fail("C16", "duplicate_notification", op, format!("#{} of key {} was notified twice (now {:?})", id, k, reason)));
            }
            if after.contains_key(id) {
                return Err(fail("C16", "notified_but_still_resident", op, format!("listener told ({}, #{}, {:?}) but #{} is still stored", k, id, reason, id)));
            }
            if !before.contains_key(id) && !matches!(a, Act::Insert(..) | Act::InsertTtl(..) | Act::EntryOrInsert(..) | Act::EntryInsert(..) | Act::MultiInsert(..)) {
                return Err(fail("C16", "notification_without_removal", op, format!("listener told ({}, #{}, {:?}) but #{} was not resident before this step", k, id, reason, id)));
            }
            // reason must match the cause
            let user_removed = matches!((a, out), (Act::Remove(rk), Out::Val(Some(rid))) if rk == *k && rid == id)
                || matches!(a, Act::Invalidate(rk) if rk == *k)
                || matches!((a, out), (Act::MultiRemove(n), Out::Items(items)) if *k < n && items.iter().any(|x| x.0 == *k && x.1 == *id))
                || matches!(a, Act::MultiInvalidate(n) if *k < n);
            match reason {
                EvictionReason::Invalidated if !user_removed => {
                    return Err(fail("C16", "wrong_reason", op, format!("({}, #{}) notified as Invalidated but this step ({:?}) did not remove it", k, id, a)));
                }
                EvictionReason::Expired | EvictionReason::Capacity if user_removed => {
                    return Err(fail("C16", "wrong_reason", op, format!("({}, #{}) removed by {:?} but notified as {:?}", k, id, a, reason)));
                }
                EvictionReason::Expired => {
                    if let Some((_, _, x, la)) = before.get(id) {
                        let expired = (*x > 0 && self.now >= *x) || tti.map(|t| self.now >= *la + t).unwrap_or(false);
                        if !expired {
                            return Err(fail("C12", "collected_before_expiry", op, format!("({}, #{}) was collected as Expired at t={}ns but its expires_at is {}ns (last access {}): an unexpired entry was thrown away", k, id, self.now, x, la)));
                        }
                    }
                }
                _ => {}
            }
            self.dead.insert(*id);
            if self.latest.get(k).map(|e| e.id == *id).unwrap_or(false) {
                // the cache forgot the latest value of k (eviction / expiry): the key is now absent
                self.latest.remove(k);
            }
        }
        // completeness: what vanished without the user overwriting / removing / clearing it must be notified
        for (id, (k, _c, _x, _la)) in &before {
            if after.contains_key(id) || told.contains(id) {
                continue;
            }
            let by_user = match a {
                Act::Insert(ik, _) | Act::InsertTtl(ik, _, _) => ik == *k,
                Act::Remove(rk) | Act::Invalidate(rk) => rk == *k,
                Act::Clear => true,
                Act::Compute(ck) | Act::ComputeLoop(ck) => ck == *k,
                Act::FetchWith(fk) => fk == *k,
                Act::EntryOrInsert(ek, _) | Act::EntryInsert(ek, _) => ek == *k,
                Act::MultiInsert(n) | Act::MultiRemove(n) | Act::MultiInvalidate(n) => *k < n,
                _ => false,
            };
            if matches!(a, Act::Remove(_) | Act::Invalidate(_) | Act::MultiRemove(_) | Act::MultiInvalidate(_)) && by_user {
                return Err(fail("C16", "removal_not_notified", op, format!("{:?} removed #{} but the listener was not told", a, id)));
            }
            if !by_user {
                return Err(fail("C16", "removal_not_notified", op, format!("#{} of key {} disappeared during {:?} (eviction / expiry) but the listener was not told", id, k, a)));
            }
        }
        // C13: a sequential history is quiescent after every step: the gauge must equal the resident cost
        {
            let sum: u64 = after.values().map(|x| x.1).sum();
            let cc = hook::current_cost_raw(&self.cache);
            if cc != sum {
                let sum_before: u64 = before.values().map(|x| x.1).sum();
                let dir = if cc > sum { "gauge_too_high" } else { "gauge_too_low" };
                let rule: &'static str = if cc > sum { "current_cost_mismatch.gauge_too_high" } else { "current_cost_mismatch.gauge_too_low" };
                let _ = dir;
                return Err(fail("C13", rule, op, format!("after {:?} current_cost reports {} but the resident entries cost {} (before the step they cost {}; resident now {:?})", a, cc, sum, sum_before, after.iter().map(|(id, x)| (x.0, *id, x.1)).collect::<Vec<_>>())));
            }
        }
        if matches!(a, Act::Maint) {
            let sum: u64 = after.values().map(|x| x.1).sum();
            let pubcc = self.cache.metrics().current_cost;
            if pubcc != sum {
                return Err(fail("C13", "metrics_current_cost_mismatch", op, format!("after maintenance metrics().current_cost reports {} but the resident entries cost {}", pubcc, sum)));
            }
            if let Some(cap) = self.cfg.capacity {
                if sum > cap && self.stats_rolls > 0 {
                    return Err(fail("C17", "restored_cache_exceeds_capacity", "build_from_snapshot", format!("a cache rebuilt from a snapshot does not honour its capacity: after maintenance the resident entries cost {} > capacity {} ({:?})", sum, cap, after.iter().map(|(id, x)| (x.0, *id, x.1)).collect::<Vec<_>>())));
                }
                if sum > cap {
                    return Err(fail("C13", "over_capacity_after_maintenance", op, format!("after maintenance the resident entries cost {} > capacity {} ({:?})", sum, cap, after.iter().map(|(id, x)| (x.0, *id, x.1)).collect::<Vec<_>>())));
                }
            }
        }
        Ok(())
    }
}

fn alphabet(cfg: &Cfg) -> Vec<Act> {
    let cap = cfg.capacity.unwrap_or(2);
    match cfg.family.as_str() {
        "cost" => vec![Act::Insert(0, 1), Act::Insert(1, 1), Act::Insert(2, 1), Act::Insert(0, 2), Act::Insert(1, cap + 1), Act::Remove(0), Act::Remove(1), Act::Clear, Act::Maint, Act::Fetch(0), Act::Coin(true)],
        "cost2" => vec![Act::Insert(0, 1), Act::Insert(1, 1), Act::Insert(2, 1), Act::Insert(3, 1), Act::Remove(0), Act::Clear, Act::Maint, Act::EntryOrInsert(1, 1), Act::SnapshotRestore, Act::Get(1)],
        "ttl" => vec![Act::Insert(0, 1), Act::InsertTtl(0, 1, 5 * SEC), Act::Insert(1, 1), Act::Fetch(0), Act::Get(0), Act::Peek(0), Act::EntryGet(0), Act::Iter(1), Act::Maint, Act::Adv(4 * SEC), Act::Adv(SEC - 1), Act::Adv(1), Act::Adv(5 * SEC)],
        "ttlshort" => vec![Act::Insert(0, 1), Act::InsertTtl(1, 1, SEC), Act::Fetch(0), Act::Peek(1), Act::Maint, Act::Adv(SEC), Act::Adv(SEC - 1), Act::Adv(1), Act::Remove(0)],
        "swr" => vec![Act::Insert(0, 1), Act::FetchWith(0), Act::Fetch(0), Act::Remove(0), Act::Maint, Act::Adv(9 * SEC), Act::Adv(SEC - 1), Act::Adv(1), Act::Adv(5 * SEC)],
        "tti" => vec![Act::Insert(0, 1), Act::Insert(1, 1), Act::Fetch(0), Act::Get(0), Act::Peek(0), Act::EntryGet(0), Act::IterSnapshot, Act::SnapshotRestore, Act::Maint, Act::Adv(5 * SEC), Act::Adv(5 * SEC - 1), Act::Adv(1)],
        "read" => vec![Act::Insert(0, 1), Act::Insert(1, 1), Act::Remove(0), Act::Invalidate(1), Act::Clear, Act::Get(0), Act::Fetch(1), Act::Peek(0), Act::EntryGet(0), Act::EntryOrInsert(0, 1), Act::Compute(0), Act::Iter(2), Act::Maint],
        "iter" => vec![Act::Insert(0, 1), Act::Insert(1, 1), Act::Insert(2, 1), Act::Insert(3, 1), Act::Insert(4, 1), Act::Remove(1), Act::Iter(1), Act::Iter(2), Act::Iter(3), Act::IterSnapshot, Act::SnapshotRestore, Act::Adv(6 * SEC), Act::InsertTtl(2, 1, 5 * SEC)],
        "bulk" => vec![Act::MultiInsert(2), Act::MultiInsert(3), Act::Insert(1, 2), Act::MultiGet(3), Act::MultiRemove(2), Act::MultiInvalidate(3), Act::Remove(2), Act::Maint, Act::Peek(1), Act::Adv(10 * SEC)],
        "entry" => vec![Act::Insert(0, 1), Act::EntryInsert(0, 1), Act::EntryInsert(1, 2), Act::EntryOrInsert(0, 2), Act::ComputeLoop(0), Act::Compute(1), Act::Remove(0), Act::Fetch(0), Act::Peek(1), Act::Maint, Act::Adv(10 * SEC)],
        f => panic!("unknown family {}", f),
    }
}

#[derive(Default)]
struct Stats {
    nodes: u64,
    steps: u64,
    nontrivial: u64,
    outcomes: BTreeSet<u64>,
    samples: Vec<serde_json::Value>,
    divergences: u64,
}

fn replay(cfg: &Cfg, hist: &[Act]) -> (Vec<(Act, Out)>, Option<Fail>) {
    let mut w = World::new(cfg);
    for a in hist {
        if let Err(f) = w.apply(*a) {
            return (w.log.clone(), Some(f));
        }
    }
    (w.log.clone(), None)
}

/// class of a violation: family, policy, rule and the operation at which it was detected
fn fingerprint(cfg: &Cfg, f: &Fail) -> String {
    format!("cachex/{}/{}/{}.{}/{}", cfg.family, cfg.policy_class(), f.prop, f.rule, f.op)
}
/// compact form of a history: the minimal failing history is part of the reported fingerprint, so a
/// different (shorter / earlier) failing history of the same class is a different finding
fn witness(hist: &[Act]) -> String {
    let sec = |n: u64| if n % SEC == 0 { format!("{}s", n / SEC) } else { format!("{}ns", n) };
    hist.iter()
        .map(|a| match a {
            Act::Insert(k, c) => format!("I{}:{}", k, c),
            Act::InsertTtl(k, c, t) => format!("T{}:{}:{}", k, c, sec(*t)),
            Act::Remove(k) => format!("R{}", k),
            Act::Invalidate(k) => format!("V{}", k),
            Act::Clear => "C".into(),
            Act::Get(k) => format!("G{}", k),
            Act::Fetch(k) => format!("F{}", k),
            Act::Peek(k) => format!("P{}", k),
            Act::EntryGet(k) => format!("E{}", k),
            Act::EntryOrInsert(k, c) => format!("O{}:{}", k, c),
            Act::Compute(k) => format!("U{}", k),
            Act::ComputeLoop(k) => format!("Ul{}", k),
            Act::EntryInsert(k, c) => format!("Ei{}:{}", k, c),
            Act::MultiGet(n) => format!("Mg{}", n),
            Act::MultiInsert(n) => format!("Mi{}", n),
            Act::MultiRemove(n) => format!("Mr{}", n),
            Act::MultiInvalidate(n) => format!("Mv{}", n),
            Act::FetchWith(k) => format!("L{}", k),
            Act::Iter(b) => format!("It{}", b),
            Act::IterSnapshot => "Is".into(),
            Act::SnapshotRestore => "S".into(),
            Act::Maint => "M".into(),
            Act::Coin(b) => format!("K{}", *b as u8),
            Act::Adv(d) => format!("A{}", sec(*d)),
        })
        .collect::<Vec<_>>()
        .join(",")
}
impl Cfg {
    /// fingerprints name the policy only where the rule depends on it (cost accounting / eviction)
    fn policy_class(&self) -> String {
        self.policy.clone()
    }
}

struct Explorer<'a> {
    cfg: &'a Cfg,
    alpha: Vec<Act>,
    stats: Stats,
    fails: Vec<(Fail, Vec<Act>)>,
}
impl<'a> Explorer<'a> {
    fn node(&mut self, hist: &mut Vec<Act>) {
        let mut w = World::new(self.cfg);
        let n = hist.len();
        for (k, a) in hist.iter().enumerate() {
            self.stats.steps += 1;
            if let Err(f) = w.apply(*a) {
                if k + 1 != n {
                    if self.cfg.policy == "random" {
                        // RandomPolicy draws from rand::rng(): a prefix may behave differently on re-execution
                        self.stats.divergences += 1;
                        return;
                    }
                    panic!("replay diverged at step {} of {:?}: {:?}", k, hist, f);
                }
                self.stats.nodes += 1;
                // re-execute from scratch: must fail identically
                let mut again = replay(self.cfg, hist).1;
                if self.cfg.policy == "random" {
                    for _ in 0..8 {
                        if matches!(&again, Some(g) if g.rule == f.rule && g.op == f.op) {
                            break;
                        }
                        again = replay(self.cfg, hist).1;
                    }
                    if !matches!(&again, Some(g) if g.rule == f.rule && g.op == f.op) {
                        self.stats.divergences += 1;
                        return;
                    }
                }
                let f = match again {
                    Some(g) if g.rule == f.rule && g.op == f.op => f,
                    other => Fail { prop: f.prop, rule: "UNSTABLE", op: f.op.clone(), msg: format!("did not reproduce identically: first {:?}, replay {:?}", f, other) },
                };
                // an expired entry handed out by an enumeration API breaks C12 ("no read API returns an expired entry") and
                // C17 ("enumerations omit expired entries") alike: report it under both
                let mut all = vec![f.clone()];
                if f.prop == "C12" && f.rule == "expired_entry_served" && matches!(f.op.as_str(), "iter" | "iter_snapshot" | "to_snapshot" | "stream" | "snapshot_stream") {
                    all.push(Fail { prop: "C17", rule: "expired_entry_enumerated", op: f.op.clone(), msg: f.msg.clone() });
                }
                for f in all {
                    let fp = fingerprint(self.cfg, &f);
                    if let Some(old) = self.fails.iter_mut().find(|(o, _)| fingerprint(self.cfg, o) == fp) {
                        if hist.len() < old.1.len() {
                            *old = (f, hist.clone());
                        }
                    } else {
                        self.fails.push((f, hist.clone()));
                    }
                }
                return;
            }
        }
        self.stats.nodes += 1;
        let outs: Vec<&Out> = w.log.iter().map(|(_, o)| o).collect();
        self.stats.outcomes.insert(vcommon::fnv(format!("{:?}", outs).as_bytes()));
        let had_hit = w.log.iter().any(|(_, o)| matches!(o, Out::Val(Some(_))) || matches!(o, Out::Items(v) if !v.is_empty()));
        let had_loss = !w.dead.is_empty();
        if had_hit && had_loss {
            self.stats.nontrivial += 1;
            if self.stats.samples.len() < 2 && n == self.cfg.depth + self.cfg.prefix.len() {
                self.stats.samples.push(serde_json::json!({"history": format!("{:?}", w.log)}));
            }
        }
        drop(w);
        if n < self.cfg.depth + self.cfg.prefix.len() {
            for a in self.alpha.clone() {
                // pointless repetitions
                if matches!(a, Act::Coin(_)) && hist.iter().any(|h| matches!(h, Act::Coin(_))) {
                    continue;
                }
                hist.push(a);
                self.node(hist);
                hist.pop();
            }
        }
    }
}

fn run_cfg(cfg: &Cfg) -> (Scenario, Vec<Violation>) {
    let t0 = Instant::now();
    let mut ex = Explorer { cfg, alpha: alphabet(cfg), stats: Stats::default(), fails: vec![] };
    let mut hist = cfg.prefix.clone();
    ex.node(&mut hist);
    let mut viol = vec![];
    for (f, hist) in &ex.fails {
        let (log, _) = replay(cfg, hist);
        viol.push(Violation {
            property: f.prop.to_string(),
            // RandomPolicy's victim choice is uncontrolled: its minimal witness is not stable
            fingerprint: if cfg.policy == "random" { format!("{}@any", fingerprint(cfg, f)) } else { format!("{}@{}", fingerprint(cfg, f), witness(hist)) },
            message: format!("{} | history: {:?}", f.msg, log),
            scenario: cfg.name(),
            replay: serde_json::json!({"cfg": cfg, "history": hist}),
        });
    }
    let mut bound = BTreeMap::new();
    bound.insert("depth".to_string(), serde_json::json!(cfg.depth));
    bound.insert("alphabet".to_string(), serde_json::json!(format!("{:?}", ex.alpha)));
    let sc = Scenario {
        name: cfg.name(),
        properties: ["C11", "C12", "C13", "C16", "C17"].iter().map(|s| s.to_string()).collect(),
        executions: ex.stats.nodes,
        states: ex.stats.nodes,
        transitions: ex.stats.steps,
        distinct_outcomes: ex.stats.outcomes.len() as u64,
        nontrivial: ex.stats.nontrivial,
        nontrivial_rule: "history with ≥1 successful read/enumeration and ≥1 value that was overwritten, removed, evicted or expired".into(),
        exhaustive: cfg.policy != "random",
        caps: if cfg.policy == "random" { vec![format!("RandomPolicy draws victims from rand::rng(): call sequences are enumerated exhaustively, its coin is not ({} re-executions diverged)", ex.stats.divergences)] } else { vec![] },
        bound,
        samples: ex.stats.samples,
        wall_s: t0.elapsed().as_secs_f64(),
    };
    (sc, viol)
}

fn configs(tier: &str) -> Vec<Cfg> {
    let mut v = vec![];
    let quick = tier == "quick";
    let policies_all = ["default", "lru", "fifo", "sieve", "clock", "slru", "arc", "random"];
    let d = |q: usize, t: usize| if quick { q } else { t };
    let base = Cfg { family: String::new(), policy: "lru".into(), capacity: Some(2), shards: 1, ttl_s: None, tti_s: None, introspection_maintenance: false, depth: 4, grace_s: None, loader: false, async_handle: false, prefix: vec![], prefix_name: String::new() };
    // cost accounting / capacity / listener, every policy
    for p in policies_all {
        for (cap, shards) in [(2u64, 1usize), (3, 2)] {
            if quick && shards == 2 && !matches!(p, "default" | "lru") {
                continue;
            }
            v.push(Cfg { family: "cost".into(), policy: p.into(), capacity: Some(cap), shards, depth: d(5, 6), ..base.clone() });
        }
        if !quick || matches!(p, "default" | "lru" | "arc") {
            v.push(Cfg { family: "cost2".into(), policy: p.into(), capacity: Some(2), shards: 1, depth: d(5, 6), ..base.clone() });
        }
    }
    // warm start: key 0 admitted, read (promoted inside segmented policies) and overwritten with another cost, then the
    // cost alphabet from there — the states in which a policy's recorded cost can differ from the entry's
    for p in ["default", "slru", "lru", "arc"] {
        if quick && !matches!(p, "default" | "slru") {
            continue;
        }
        let pre = vec![Act::Insert(0, 1), Act::Maint, Act::Fetch(0), Act::Maint, Act::Insert(0, 2), Act::Maint];
        v.push(Cfg { family: "cost".into(), policy: p.into(), capacity: Some(3), shards: 1, depth: d(4, 5), prefix: pre, prefix_name: "promoted-overwritten".into(), ..base.clone() });
    }
    // expiry
    for (cap, pol) in [(None, "default"), (Some(2), "lru")] {
        v.push(Cfg { family: "ttl".into(), policy: pol.into(), capacity: cap, ttl_s: Some(10), depth: d(4, 5), ..base.clone() });
        v.push(Cfg { family: "tti".into(), policy: pol.into(), capacity: cap, tti_s: Some(10), depth: d(5, 6), ..base.clone() });
    }
    // both deadlines configured at once: whichever comes first expires the entry (ttl 10 s with tti 6 s and with tti 14 s,
    // so that each of the two is the earlier one in one configuration)
    v.push(Cfg { family: "ttl".into(), policy: "default".into(), capacity: None, ttl_s: Some(10), tti_s: Some(6), depth: d(4, 5), ..base.clone() });
    v.push(Cfg { family: "tti".into(), policy: "default".into(), capacity: None, ttl_s: Some(10), tti_s: Some(14), depth: d(5, 6), ..base.clone() });
    if !quick {
        v.push(Cfg { family: "ttl".into(), policy: "default".into(), capacity: None, ttl_s: Some(10), tti_s: Some(10), depth: 5, ..base.clone() });
    }
    // loader paths: miss, hit, stale-while-revalidate window (ttl 10 s, grace 5 s), plain loader without grace, loader + tti
    v.push(Cfg { family: "swr".into(), policy: "default".into(), capacity: None, ttl_s: Some(10), grace_s: Some(5), loader: true, depth: d(4, 5), ..base.clone() });
    v.push(Cfg { family: "swr".into(), policy: "default".into(), capacity: None, ttl_s: Some(10), loader: true, depth: d(4, 5), ..base.clone() });
    if !quick {
        v.push(Cfg { family: "swr".into(), policy: "default".into(), capacity: None, ttl_s: Some(10), tti_s: Some(12), grace_s: Some(5), loader: true, depth: 5, ..base.clone() });
    }
    // short TTL: the timer wheel (1 s ticks) is reachable within the depth
    v.push(Cfg { family: "ttlshort".into(), policy: "default".into(), capacity: None, ttl_s: Some(2), depth: d(5, 6), ..base.clone() });
    v.push(Cfg { family: "ttlshort".into(), policy: "lru".into(), capacity: Some(2), ttl_s: Some(2), depth: d(5, 6), ..base.clone() });
    // reads on an unbounded cache (nothing may be forgotten) and a bounded one
    v.push(Cfg { family: "read".into(), policy: "default".into(), capacity: None, depth: d(4, 5), ..base.clone() });
    v.push(Cfg { family: "read".into(), policy: "lru".into(), capacity: Some(1), depth: d(4, 5), ..base.clone() });
    v.push(Cfg { family: "read".into(), policy: "default".into(), capacity: None, shards: 2, introspection_maintenance: true, depth: d(4, 5), ..base.clone() });
    // enumeration and snapshots
    for shards in [1usize, 2, 4] {
        if quick && shards == 4 {
            continue;
        }
        v.push(Cfg { family: "iter".into(), policy: "default".into(), capacity: None, shards, ttl_s: Some(10), depth: d(4, 5), ..base.clone() });
    }
    v.push(Cfg { family: "iter".into(), policy: "lru".into(), capacity: Some(3), shards: 2, depth: d(4, 5), ..base.clone() });
    // bulk operations (rayon pool for the sync handle) and the entry / compute API
    v.push(Cfg { family: "bulk".into(), policy: "default".into(), capacity: None, ttl_s: Some(10), depth: d(4, 5), ..base.clone() });
    v.push(Cfg { family: "bulk".into(), policy: "lru".into(), capacity: Some(2), depth: d(4, 5), ..base.clone() });
    v.push(Cfg { family: "bulk".into(), policy: "lru".into(), capacity: Some(3), shards: 2, depth: d(4, 5), ..base.clone() });
    if !quick {
        v.push(Cfg { family: "bulk".into(), policy: "default".into(), capacity: Some(2), shards: 4, depth: 5, ..base.clone() });
    }
    // a shard count that is not a power of two as the user writes it (the builder normalises it; point operations,
    // bulk operations and enumeration must agree on which shard a key lives in whatever the count)
    v.push(Cfg { family: "bulk".into(), policy: "default".into(), capacity: None, shards: 3, depth: d(4, 5), ..base.clone() });
    v.push(Cfg { family: "iter".into(), policy: "default".into(), capacity: None, shards: 3, depth: d(4, 5), ..base.clone() });
    if !quick {
        v.push(Cfg { family: "bulk".into(), policy: "default".into(), capacity: None, shards: 6, depth: 5, ..base.clone() });
        v.push(Cfg { family: "read".into(), policy: "default".into(), capacity: None, shards: 3, depth: 5, ..base.clone() });
    }
    v.push(Cfg { family: "entry".into(), policy: "default".into(), capacity: None, ttl_s: Some(10), depth: d(4, 5), ..base.clone() });
    v.push(Cfg { family: "entry".into(), policy: "lru".into(), capacity: Some(2), depth: d(4, 5), ..base.clone() });
    // the same spaces through the AsyncCache handle (handles/futures.rs, entry_api_async.rs, IterStream)
    let asyncs: Vec<Cfg> = v
        .iter()
        .filter(|c| !quick || matches!(c.policy.as_str(), "default" | "lru"))
        .filter(|c| !(quick && c.family == "cost" && c.shards == 2))
        .map(|c| Cfg { async_handle: true, ..c.clone() })
        .collect();
    v.extend(asyncs);
    if let Ok(f) = std::env::var("CACHEX_ONLY") {
        v.retain(|c| c.name().contains(&f));
    }
    v
}

fn main() {
    let args: Vec<String> = std::env::args().collect();
    std::panic::set_hook(Box::new(|_| {}));
    match args.get(1).map(|s| s.as_str()) {
        Some("run") => {
            let mut tier = "quick".to_string();
            let mut out = "report.json".to_string();
            let mut jobs = 16usize;
            let mut i = 2;
            while i < args.len() {
                match args[i].as_str() {
                    "--tier" => { tier = args[i + 1].clone(); i += 1; }
                    "--out" => { out = args[i + 1].clone(); i += 1; }
                    "--jobs" => { jobs = args[i + 1].parse().unwrap(); i += 1; }
                    "--props" => { i += 1; }
                    _ => {}
                }
                i += 1;
            }
            let cfgs = configs(&tier);
            let queue = Arc::new(Mutex::new(cfgs.into_iter().rev().collect::<Vec<_>>()));
            let results: Arc<Mutex<Vec<(Scenario, Vec<Violation>)>>> = Arc::new(Mutex::new(Vec::new()));
            let exe = std::env::current_exe().unwrap();
            let tmp = {
                let mut d = exe.clone();
                let mut found = None;
                while d.pop() {
                    if d.file_name().map(|f| f == "target").unwrap_or(false) {
                        found = Some(d.join("tmp-cachex"));
                        break;
                    }
                }
                found.unwrap_or_else(|| std::path::PathBuf::from("target/tmp-cachex"))
            };
            std::fs::create_dir_all(&tmp).unwrap();
            let mut hs = vec![];
            for w in 0..jobs {
                let q = queue.clone();
                let res = results.clone();
                let exe = exe.clone();
                let tmp = tmp.clone();
                hs.push(std::thread::spawn(move || {
                    let mut n = 0;
                    loop {
                        let c = { q.lock().unwrap().pop() };
                        let Some(c) = c else { break };
                        n += 1;
                        // one child process per configuration: the hooks are process-global
                        let cp = tmp.join(format!("c{}-{}-{}.json", std::process::id(), w, n));
                        let op = tmp.join(format!("o{}-{}-{}.json", std::process::id(), w, n));
                        std::fs::write(&cp, serde_json::to_string(&c).unwrap()).unwrap();
                        let t0 = Instant::now();
                        let st = std::process::Command::new(&exe).args(["run-one", cp.to_str().unwrap(), op.to_str().unwrap()])
                            // millions of short-lived caches: keep the allocator from returning memory to the OS
                            .env("MALLOC_MMAP_THRESHOLD_", "33554432").env("MALLOC_TRIM_THRESHOLD_", "4294967295").env("MALLOC_TOP_PAD_", "268435456").stderr(std::process::Stdio::piped()).output().unwrap();
                        let r = std::fs::read_to_string(&op).ok().and_then(|t| serde_json::from_str::<serde_json::Value>(&t).ok());
                        let _ = std::fs::remove_file(&cp);
                        let _ = std::fs::remove_file(&op);
                        match r {
                            Some(v) => {
                                let sc: Scenario = serde_json::from_value(v["scenario"].clone()).unwrap();
                                let vs: Vec<Violation> = serde_json::from_value(v["violations"].clone()).unwrap();
                                if std::env::var("CACHEX_VERBOSE").is_ok() {
                                    eprintln!("{} nodes={} viol={} {:.1}s", sc.name, sc.executions, vs.len(), sc.wall_s);
                                }
                                res.lock().unwrap().push((sc, vs));
                            }
                            None => {
                                let err = String::from_utf8_lossy(&st.stderr).to_string();
                                let sc = Scenario { name: c.name(), properties: ["C11", "C12", "C13", "C16", "C17"].iter().map(|s| s.to_string()).collect(), exhaustive: false, caps: vec![format!("child died ({:?}): {}", st.status, err.lines().last().unwrap_or(""))], wall_s: t0.elapsed().as_secs_f64(), ..Default::default() };
                                res.lock().unwrap().push((sc, vec![]));
                            }
                        }
                    }
                }));
            }
            for h in hs {
                h.join().unwrap();
            }
            let mut rep = Report::new("cachex", &tier);
            let mut rs = std::mem::take(&mut *results.lock().unwrap());
            rs.sort_by(|a, b| a.0.name.cmp(&b.0.name));
            let mut died = false;
            // one finding per class: the minimal witness (shortest history, then scenario name, then text)
            let mut best: BTreeMap<String, Violation> = BTreeMap::new();
            for (_, vs) in rs.iter() {
                for v in vs {
                    let class = v.fingerprint.split('@').next().unwrap().to_string();
                    let key = |x: &Violation| (x.fingerprint.split('@').nth(1).unwrap_or("").matches(',').count(), x.scenario.clone(), x.fingerprint.clone());
                    match best.get(&class) {
                        Some(old) if key(old) <= key(v) => {}
                        _ => {
                            best.insert(class, v.clone());
                        }
                    }
                }
            }
            for (sc, vs) in rs.iter_mut() {
                vs.clear();
                let _ = sc;
            }
            rep.violations = best.into_values().collect();
            for (sc, vs) in rs {
                if !sc.caps.is_empty() && !sc.caps.iter().all(|c| c.contains("RandomPolicy")) {
                    died = true;
                    eprintln!("scenario {} did not complete: {:?}", sc.name, sc.caps);
                }
                rep.scenarios.push(sc);
                for v in vs {
                    rep.push_violation(v);
                }
            }
            rep.violations.sort_by(|a, b| a.fingerprint.cmp(&b.fingerprint));
            rep.write(&out);
            std::process::exit(if died { 3 } else { 0 });
        }
        Some("run-one") => {
            let cfg: Cfg = serde_json::from_str(&std::fs::read_to_string(&args[2]).unwrap()).unwrap();
            let (sc, viol) = run_cfg(&cfg);
            std::fs::write(&args[3], serde_json::to_string(&serde_json::json!({"scenario": sc, "violations": viol})).unwrap()).unwrap();
        }
        Some("replay") => {
            let v: serde_json::Value = serde_json::from_str(&std::fs::read_to_string(&args[2]).unwrap()).unwrap();
            let r = if v.get("replay").is_some() { &v["replay"] } else { &v };
            let cfg: Cfg = serde_json::from_value(r["cfg"].clone()).unwrap();
            let hist: Vec<Act> = serde_json::from_value(r["history"].clone()).unwrap();
            println!("replaying {} actions on {}", hist.len(), cfg.name());
            let (log, f) = replay(&cfg, &hist);
            for (a, o) in &log {
                println!("  {:?} -> {:?}", a, o);
            }
            match f {
                Some(f) => {
                    println!("VIOLATION reproduced: {}@{} — {}", fingerprint(&cfg, &f), witness(&hist[..log.len()]), f.msg);
                    std::process::exit(1)
                }
                None => {
                    println!("no violation");
                    std::process::exit(0)
                }
            }
        }
        _ => {
            eprintln!("usage: cachex run --tier quick|thorough --out FILE | cachex replay FILE");
            std::process::exit(2)
        }
    }
}
