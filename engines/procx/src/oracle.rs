//! Oracle for C19: compares what the child observed with the reference routing function.
use crate::model::{classify, expected, explain};
use crate::{parse_event, Case, ChildOut};
use serde_json::json;
use std::collections::{BTreeMap, BTreeSet};

#[derive(Clone, Debug)]
pub struct Finding {
    pub rule: String,
    pub class: String,
    pub message: String,
    /// (event string, appender) the disagreement is about, when it is about one event
    pub focus: Option<(String, String)>,
}
impl Finding {
    pub fn fingerprint(&self) -> String {
        format!("procx/route/C19.{}/{}", self.rule, self.class)
    }
}

pub struct Verdict {
    pub findings: Vec<Finding>,
    pub outcome_hash: u64,
    /// emissions (before the cut) delivered to ≥1 appender / to none
    pub delivered: usize,
    pub filtered: usize,
    pub emitted: usize,
    /// compact delivery matrix for samples
    pub matrix: serde_json::Value,
}

fn parse_id(id: &str) -> Option<(usize, usize)> {
    let rest = id.strip_prefix('t')?;
    let (t, i) = rest.split_once('-')?;
    Some((t.parse().ok()?, i.parse().ok()?))
}

pub fn racy(case: &Case) -> bool {
    case.cut_mode == "concurrent"
}

pub fn evaluate(case: &Case, out: &ChildOut) -> Verdict {
    let cfg = &case.config;
    let evs: Vec<(String, String, String)> = case.events.iter().map(|e| parse_event(e)).collect();
    let n = evs.len();
    let threads = case.threads;
    let mut findings: Vec<Finding> = Vec::new();
    let mut push = |rule: &str, class: String, message: String, focus: Option<(String, String)>| {
        findings.push(Finding { rule: rule.into(), class, message, focus });
    };
    let shape = format!("shutdown={} drain={} cut_mode={} cut={} threads={}", case.shutdown, case.drain, case.cut_mode, case.cut, threads);

    if let Some(e) = &out.init_error {
        push("init_rejected", "valid-config".into(), format!("init_from_file rejected a valid configuration: {e}"), None);
        return Verdict { findings, outcome_hash: vcommon::fnv(e.as_bytes()), delivered: 0, filtered: 0, emitted: 0, matrix: json!({"init_error": e}) };
    }
    if out.emitter_stuck {
        push(
            "hang",
            format!("emitter-blocked-across-shutdown/drain-{}", case.drain),
            format!(
                "an emitting thread was still blocked 6 s after shutdown returned and the streams were drained and dropped ({shape}); blocked in the emission of {:?}",
                out.stuck_at.iter().map(|s| s.and_then(|i| case.events.get(i).cloned())).collect::<Vec<_>>()
            ),
            None,
        );
    }

    // must[t]: emissions of thread t that had returned before shutdown was called
    let must: Vec<usize> = (0..threads)
        .map(|t| match case.cut_mode.as_str() {
            "sequential" => case.cut.min(n),
            "after_join" => n,
            _ => out.done_before_shutdown.get(t).copied().unwrap_or(0).min(n),
        })
        .collect();
    let is_racy = racy(case);

    let mut appenders: Vec<&str> = vec!["X", "Y"];
    if cfg.file {
        appenders.push("F");
    }
    // observed[a][t] = indices in arrival order
    let mut observed: BTreeMap<&str, Vec<Vec<usize>>> = BTreeMap::new();
    for a in &appenders {
        let mut per: Vec<Vec<usize>> = vec![Vec::new(); threads];
        let kind = if *a == "F" { "file" } else { "stream" };
        let ids: Vec<(String, Option<(String, String)>)> = if *a == "F" {
            out.file_lines.clone().unwrap_or_default().into_iter().map(|l| (l, None)).collect()
        } else {
            match out.streams.get(*a) {
                Some(s) => s.records.iter().map(|r| (r.id.clone(), Some((r.target.clone(), r.level.clone())))).collect(),
                None => {
                    push("content", "stream-missing".into(), format!("custom stream {a} was not exposed by InitResult"), None);
                    Vec::new()
                }
            }
        };
        for (id, meta) in ids {
            match parse_id(&id) {
                Some((t, i)) if t < threads && i < n => {
                    if let Some((target, level)) = meta {
                        if target != evs[i].1 || level != evs[i].2 {
                            push(
                                "content",
                                format!("{}-target-or-level-altered", evs[i].0),
                                format!("record {id} in {a} carries target={target} level={level}, emitted as '{}'", case.events[i]),
                                Some((case.events[i].clone(), a.to_string())),
                            );
                        }
                    }
                    per[t].push(i);
                }
                _ => push("content", format!("{kind}-unknown-record"), format!("appender {a} holds a record that was never emitted: {id:?}"), None),
            }
        }
        observed.insert(*a, per);
    }

    let mut delivered_any = vec![vec![false; n]; threads];
    for a in &appenders {
        let kind = if *a == "F" { "file" } else { "stream" };
        let thr = if threads == 1 { "1-thread" } else { "n-threads" };
        for t in 0..threads {
            let obs = &observed[a][t];
            let obs_set: BTreeSet<usize> = obs.iter().copied().collect();
            for i in &obs_set {
                delivered_any[t][*i] = true;
            }
            let exp: Vec<bool> = (0..n).map(|i| expected(cfg, &evs[i].1, &evs[i].2, a)).collect();

            // exactly once
            if obs.len() != obs_set.len() {
                let dup = obs.iter().find(|i| obs.iter().filter(|j| j == i).count() > 1).copied().unwrap();
                push(
                    "duplicate_delivery",
                    format!("{kind}/{}", evs[dup].0),
                    format!("appender {a} received '{}' (t{t}-{dup}) more than once ({shape})", case.events[dup]),
                    Some((case.events[dup].clone(), a.to_string())),
                );
            }
            // per-thread emission order
            let mut seen = BTreeSet::new();
            let dedup: Vec<usize> = obs.iter().copied().filter(|i| seen.insert(*i)).collect();
            if let Some(w) = dedup.windows(2).find(|w| w[0] > w[1]) {
                push(
                    "order",
                    format!("{kind}/{thr}/{}-after-{}", evs[w[0]].0, evs[w[1]].0),
                    format!("appender {a}: '{}' (t{t}-{}) arrived before '{}' (t{t}-{}) ({shape})", case.events[w[0]], w[0], case.events[w[1]], w[1]),
                    None,
                );
            }

            // same (front end, target, level) emitted elsewhere before the cut, by any thread
            let occurrences = |i: usize| -> Vec<bool> {
                let mut v = Vec::new();
                for t2 in 0..threads {
                    for j in 0..must[t2] {
                        if case.events[j] == case.events[i] {
                            v.push(observed[a][t2].contains(&j));
                        }
                    }
                }
                v
            };
            let twin_all = |i: usize, want: bool| -> bool {
                // the other front end, same target and level: all of its occurrences have `want`
                let mut any = false;
                for t2 in 0..threads {
                    for j in 0..must[t2] {
                        if evs[j].0 != evs[i].0 && evs[j].1 == evs[i].1 && evs[j].2 == evs[i].2 {
                            any = true;
                            if observed[a][t2].contains(&j) != want {
                                return false;
                            }
                        }
                    }
                }
                any
            };

            // --- unexpected deliveries ---------------------------------------------------
            for &i in &obs_set {
                if !exp[i] {
                    let class = classify(cfg, &evs[i].1, &evs[i].2, a, true);
                    let focus = Some((case.events[i].clone(), a.to_string()));
                    let msg = format!("appender {a} received '{}' (t{t}-{i}) but the reference routes it elsewhere/nowhere", case.events[i]);
                    if twin_all(i, false) {
                        push("log_vs_tracing_differ", format!("{}-unexpected/{}-event", evs[i].0, evs[i].2), format!("{msg}; the other front end was not delivered (routing class: {class})"), focus);
                    } else {
                        push("unexpected_delivery", class, msg, focus);
                    }
                } else if i >= must[t] && !is_racy {
                    push(
                        "delivered_after_shutdown",
                        format!("{kind}/drain-{}", case.drain),
                        format!("appender {a} received '{}' (t{t}-{i}) emitted after shutdown returned ({shape})", case.events[i]),
                        None,
                    );
                }
            }

            // --- missing deliveries before the cut ------------------------------------------
            let exp_before: Vec<usize> = (0..must[t]).filter(|i| exp[*i]).collect();
            let missing: Vec<usize> = exp_before.iter().copied().filter(|i| !obs_set.contains(i)).collect();
            if !missing.is_empty() {
                let first = missing[0];
                let is_suffix = exp_before.iter().filter(|i| **i >= first).all(|i| !obs_set.contains(i));
                for &i in &missing {
                    let occ = occurrences(i);
                    let consistent = occ.iter().all(|d| !*d);
                    // a single broken routing clause explains it -> routing; otherwise decide by position
                    let explained = explain(cfg, &evs[i].1, &evs[i].2, a, false).is_some();
                    // an appender named by exactly the same loggers (same routing by the statement) got it
                    let same_wiring_got_it = appenders.iter().any(|b| {
                        b != a && cfg.loggers.iter().all(|l| l.appenders.iter().any(|x| x == a) == l.appenders.iter().any(|x| x == b)) && observed[b][t].contains(&i)
                    });
                    let positional = if same_wiring_got_it {
                        true
                    } else if occ.len() >= 2 {
                        !consistent
                    } else {
                        // single emission of this event before the cut: a tail of missing records is a
                        // loss unless a broken routing clause or a front-end difference explains it
                        !explained && !twin_all(i, true) && is_suffix && exp_before.len() > missing.len()
                    };
                    let focus = Some((case.events[i].clone(), a.to_string()));
                    if positional {
                        if is_suffix {
                            push(
                                "lost_at_shutdown",
                                format!("{kind}/drain-{}", case.drain),
                                format!(
                                    "appender {a} lost '{}' (t{t}-{i}), emitted and accepted before shutdown; {} of {} expected records arrived ({shape})",
                                    case.events[i],
                                    exp_before.len() - missing.len(),
                                    exp_before.len()
                                ),
                                None,
                            );
                        } else {
                            push(
                                "missing_delivery",
                                format!("intermittent/{kind}"),
                                format!("appender {a} did not receive '{}' (t{t}-{i}) although another emission of the same event was delivered ({shape})", case.events[i]),
                                focus,
                            );
                        }
                    } else {
                        let class = classify(cfg, &evs[i].1, &evs[i].2, a, false);
                        let msg = format!("appender {a} did not receive '{}' (t{t}-{i}) which the reference routes to it", case.events[i]);
                        if twin_all(i, true) {
                            push("log_vs_tracing_differ", format!("{}-missing/{}-event", evs[i].0, evs[i].2), format!("{msg}; the other front end was delivered (routing class: {class})"), focus);
                        } else {
                            push("missing_delivery", class, msg, focus);
                        }
                    }
                }
            }
            // --- racy tail: what was accepted is a prefix of the thread's expected sequence --
            if is_racy {
                let tail: Vec<usize> = (must[t]..n).filter(|i| exp[*i]).collect();
                if let Some(p) = tail.iter().position(|i| !obs_set.contains(i)) {
                    if let Some(later) = tail[p..].iter().find(|i| obs_set.contains(i)) {
                        push(
                            "lost_at_shutdown",
                            format!("{kind}/gap-during-concurrent-shutdown"),
                            format!(
                                "appender {a}: '{}' (t{t}-{}) is missing although the later '{}' (t{t}-{later}) of the same thread was delivered ({shape})",
                                case.events[tail[p]], tail[p], case.events[*later]
                            ),
                            None,
                        );
                    }
                }
            }
        }
        if *a != "F" {
            if let Some(s) = out.streams.get(*a) {
                if !s.disconnected {
                    push(
                        "no_disconnect_after_shutdown",
                        format!("{}/drain-{}", case.shutdown, case.drain),
                        format!("custom stream {a} did not report Disconnected within 1.5 s after shutdown returned ({shape})"),
                        None,
                    );
                }
            }
        }
    }

    // counts, outcome hash, sample matrix
    let mut delivered = 0;
    let mut filtered = 0;
    let mut emitted = 0;
    for t in 0..threads {
        emitted += n;
        for i in 0..must[t] {
            if delivered_any[t][i] { delivered += 1 } else { filtered += 1 }
        }
    }
    let mut h = String::new();
    if is_racy {
        // what is accepted while shutdown runs is OS-decided: the outcome recorded for such an
        // execution is only (configuration, verdict), so that reports are reproducible
        h.push_str(&format!("racy|{}|ok={}", serde_json::to_string(&cfg.loggers).unwrap(), findings.is_empty()));
        delivered = 0;
        filtered = 0;
        for i in 0..n {
            if appenders.iter().any(|a| expected(cfg, &evs[i].1, &evs[i].2, a)) { delivered += threads } else { filtered += threads }
        }
    } else {
        for a in &appenders {
            for t in 0..threads {
                h.push_str(&format!("|{a}{t}:"));
                for i in &observed[a][t] {
                    h.push_str(&format!("{i},"));
                }
            }
        }
        h.push_str(&format!("|findings={}", findings.len()));
    }
    let mut matrix = serde_json::Map::new();
    for i in 0..n.min(must[0]) {
        // first occurrence of each (target, level, front end)
        if case.events[..i].contains(&case.events[i]) {
            continue;
        }
        let key = format!("{} {}", evs[i].1, evs[i].2);
        let got: Vec<&str> = appenders.iter().copied().filter(|a| observed[a][0].contains(&i)).collect();
        let e = matrix.entry(key).or_insert_with(|| json!({}));
        e[evs[i].0.as_str()] = json!(if got.is_empty() { "-".to_string() } else { got.join(",") });
    }
    Verdict { findings, outcome_hash: vcommon::fnv(h.as_bytes()), delivered, filtered, emitted, matrix: serde_json::Value::Object(matrix) }
}
