//! Reference routing function for C19, written from the property statement only,
//! plus (separately, below) the alternative hypotheses used to NAME a disagreement.
use crate::{Config, Logger};

/// error < warn < info < debug < trace ; a logger of level L admits every event whose level is
/// at most as verbose as L.
pub fn rank(level: &str) -> u8 {
    match level {
        "off" => 0,
        "error" => 1,
        "warn" => 2,
        "info" => 3,
        "debug" => 4,
        "trace" => 5,
        other => panic!("unknown level {other}"),
    }
}
pub fn admits(logger_level: &str, event_level: &str) -> bool {
    rank(event_level) <= rank(logger_level)
}

// ------------------------------------------------------------------------------------------
// THE REFERENCE (property statement → code)
// ------------------------------------------------------------------------------------------

/// "whose name is a module-path prefix of the event target (the root logger as fallback)":
/// equal, or a prefix that ends at a `::` boundary; root matches everything.
pub fn matches(logger: &str, target: &str) -> bool {
    logger == "root" || target == logger || (target.starts_with(logger) && target[logger.len()..].starts_with("::"))
}
/// root is the least specific logger, otherwise the longer name is the more specific one
pub fn specificity(logger: &str) -> usize {
    if logger == "root" { 0 } else { 1 + logger.len() }
}
/// most specific matching logger overall (M)
pub fn most_specific<'a>(cfg: &'a Config, target: &str) -> Option<&'a Logger> {
    cfg.loggers.iter().filter(|l| matches(&l.name, target)).max_by_key(|l| specificity(&l.name))
}
/// most specific matching logger among those that name the appender (L_A)
pub fn deciding_logger<'a>(cfg: &'a Config, target: &str, appender: &str) -> Option<&'a Logger> {
    cfg.loggers
        .iter()
        .filter(|l| matches(&l.name, target) && l.appenders.iter().any(|a| a == appender))
        .max_by_key(|l| specificity(&l.name))
}
/// Is an event (target, level) delivered to `appender`?
pub fn expected(cfg: &Config, target: &str, level: &str, appender: &str) -> bool {
    let Some(la) = deciding_logger(cfg, target, appender) else { return false };
    if !admits(&la.level, level) {
        return false;
    }
    match most_specific(cfg, target) {
        Some(m) if !m.additive => m.appenders.iter().any(|a| a == appender),
        _ => true,
    }
}

// ------------------------------------------------------------------------------------------
// Naming a disagreement: which clause of the statement, if broken, explains what was observed?
// (Only used to build stable fingerprints; never used to decide whether something is a violation.)
// ------------------------------------------------------------------------------------------

#[derive(Clone, Copy, PartialEq, Eq, Debug)]
pub enum Gate {
    /// as stated: M ranges over all loggers
    Overall,
    /// M ranges only over loggers that name at least one appender
    AmongWired,
    /// non-additive flag ignored
    Off,
}

fn loose_matches(logger: &str, target: &str, boundary: bool) -> bool {
    if boundary { matches(logger, target) } else { logger == "root" || target.starts_with(logger) }
}

/// `expected` with one clause altered. `pick` chooses L_A among the matching loggers naming A:
/// None = most specific, Some(name) = that logger.
fn variant(cfg: &Config, target: &str, level: &str, appender: &str, boundary: bool, gate: Gate, pick: Option<&str>) -> bool {
    let cands: Vec<&Logger> = cfg
        .loggers
        .iter()
        .filter(|l| loose_matches(&l.name, target, boundary) && l.appenders.iter().any(|a| a == appender))
        .collect();
    let la = match pick {
        None => cands.iter().copied().max_by_key(|l| specificity(&l.name)),
        Some(n) => cands.iter().copied().find(|l| l.name == n),
    };
    let Some(la) = la else { return false };
    if !admits(&la.level, level) {
        return false;
    }
    let m = cfg
        .loggers
        .iter()
        .filter(|l| loose_matches(&l.name, target, boundary))
        .filter(|l| gate != Gate::AmongWired || !l.appenders.is_empty())
        .max_by_key(|l| specificity(&l.name));
    match (gate, m) {
        (Gate::Off, _) => true,
        (_, Some(m)) if !m.additive => m.appenders.iter().any(|a| a == appender),
        _ => true,
    }
}

/// A single altered clause of the statement that reproduces what the implementation did at
/// (target, level, appender), if there is one.
pub fn explain(cfg: &Config, target: &str, level: &str, appender: &str, observed: bool) -> Option<String> {
    let m = most_specific(cfg, target);
    let la = deciding_logger(cfg, target, appender);
    // the most specific matching logger has no appender of its own and was not considered as M
    if let Some(m) = m {
        if m.appenders.is_empty() && variant(cfg, target, level, appender, true, Gate::AmongWired, None) == observed {
            return Some(if !m.additive { "nonadditive-logger-without-appender".into() } else { "additive-logger-without-appender-under-nonadditive-ancestor".into() });
        }
    }
    if variant(cfg, target, level, appender, true, Gate::Off, None) == observed {
        return Some("nonadditive-gate-ignored".into());
    }
    for gate in [Gate::Overall, Gate::AmongWired, Gate::Off] {
        if variant(cfg, target, level, appender, false, gate, None) == observed {
            return Some("prefix-boundary".into());
        }
    }
    // another matching logger that names the appender was used instead of the most specific one
    for l in cfg.loggers.iter().filter(|l| matches(&l.name, target) && l.appenders.iter().any(|a| a == appender)) {
        if la.map_or(true, |la| la.name != l.name) {
            for gate in [Gate::Overall, Gate::AmongWired] {
                if variant(cfg, target, level, appender, true, gate, Some(&l.name)) == observed {
                    return Some("less-specific-logger-used".into());
                }
            }
        }
    }
    None
}

/// Structural class of a routing disagreement at (target, level, appender) where the
/// implementation did `observed` and the reference says `!observed`.
pub fn classify(cfg: &Config, target: &str, level: &str, appender: &str, observed: bool) -> String {
    if let Some(c) = explain(cfg, target, level, appender, observed) {
        return c;
    }
    let m = most_specific(cfg, target);
    let la = deciding_logger(cfg, target, appender);
    // the gate compared against the wrong logger (M non-additive, names the appender, still suppressed / or vice versa)
    if let Some(m) = m {
        if !m.additive {
            return if m.appenders.iter().any(|a| a == appender) { "nonadditive-own-appender".into() } else { "nonadditive-foreign-appender".into() };
        }
    }
    match la {
        None => "no-logger-names-appender".into(),
        Some(la) if la.name == "root" => {
            if m.map_or(false, |m| m.name != "root") { "root-fallback-under-more-specific-logger".into() } else { "root-fallback".into() }
        }
        Some(_) => "level-admission".into(),
    }
}
