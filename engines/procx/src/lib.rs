//! E4 `procx`: configuration-space enumeration for fibre_logging (property C19),
//! one child process per configuration (the library installs process-global
//! `tracing` / `log` dispatchers).
//!
//! * `procx`        – parent: generator, reference routing model, process pool, oracle, report
//! * `procx_child`  – driver: init from YAML, emit the script, shut down, drain, print JSON
pub mod gen;
pub mod model;
pub mod oracle;
pub mod pool;

use serde::{Deserialize, Serialize};
use std::collections::BTreeMap;

pub const TARGETS: [&str; 5] = ["a", "a::b", "a::b::c", "ab", "z"];
pub const LEVELS: [&str; 3] = ["error", "info", "trace"];
pub const FRONT_ENDS: [&str; 2] = ["log", "tracing"];
pub const LOGGER_NAMES: [&str; 4] = ["root", "a", "a::b", "ab"];

#[derive(Serialize, Deserialize, Clone, Debug, PartialEq, Eq, Hash)]
pub struct Logger {
    pub name: String,
    pub level: String,
    pub additive: bool,
    pub appenders: Vec<String>,
}

/// Abstract configuration; the YAML handed to the library is generated from it,
/// the reference model reads only this.
#[derive(Serialize, Deserialize, Clone, Debug, PartialEq, Eq, Hash)]
pub struct Config {
    pub loggers: Vec<Logger>,
    /// `buffer_size` of the custom streams X and Y (overflow: block)
    pub capacity: usize,
    /// also define file appender F (overflow: block, channel_capacity 2, pattern "%m%n");
    /// loggers wire it by listing "F"
    #[serde(default)]
    pub file: bool,
}

/// One re-executable history: configuration + script + shutdown position/kind + drain mode.
/// This is exactly `Violation.replay`.
#[derive(Serialize, Deserialize, Clone, Debug, PartialEq, Eq, Hash)]
pub struct Case {
    pub config: Config,
    /// "<front end> <target> <level>", emitted in this order by every emitting thread
    pub events: Vec<String>,
    pub threads: usize,
    /// `sequential` (1 thread): events[..cut], shutdown, events[cut..];
    /// `after_join`: all threads emit everything, are joined, then shutdown;
    /// `concurrent`: shutdown is called by the main thread once `cut` emissions (summed over
    /// threads) have returned, while the emitters keep going.
    pub cut_mode: String,
    pub cut: usize,
    /// `explicit` = InitResult::shutdown(5 s); `drop` = drop(InitResult)
    pub shutdown: String,
    /// `concurrent` = one drainer thread per stream from the start; `after` = streams are only
    /// drained after shutdown returned (capacity must then cover the script, or senders block)
    pub drain: String,
}

/// What the parent sends to the child on stdin.
#[derive(Serialize, Deserialize, Clone, Debug)]
pub struct Job {
    pub yaml: String,
    pub file_path: Option<String>,
    pub events: Vec<String>,
    pub threads: usize,
    pub cut_mode: String,
    pub cut: usize,
    pub shutdown: String,
    pub drain: String,
}

#[derive(Serialize, Deserialize, Clone, Debug, Default)]
pub struct Rec {
    /// message of the record = "t<thread>-<index in script>"
    pub id: String,
    pub target: String,
    pub level: String,
}

#[derive(Serialize, Deserialize, Clone, Debug, Default)]
pub struct StreamOut {
    pub records: Vec<Rec>,
    /// the receiver reported Disconnected (within 1.5 s after shutdown returned)
    pub disconnected: bool,
}

#[derive(Serialize, Deserialize, Clone, Debug, Default)]
pub struct ChildOut {
    pub init_error: Option<String>,
    pub streams: BTreeMap<String, StreamOut>,
    pub file_lines: Option<Vec<String>>,
    /// per emitting thread: number of emissions that had returned when shutdown was called
    pub done_before_shutdown: Vec<usize>,
    /// an emitting thread did not terminate within 6 s after shutdown returned and the streams were drained and dropped
    pub emitter_stuck: bool,
    /// diagnostics for `emitter_stuck`: per thread, the script index whose emission had not returned
    #[serde(default)]
    pub stuck_at: Vec<Option<usize>>,
    pub shutdown_ms: f64,
}

pub fn parse_event(s: &str) -> (String, String, String) {
    let mut it = s.split(' ');
    let fe = it.next().unwrap_or("").to_string();
    let target = it.next().unwrap_or("").to_string();
    let level = it.next().unwrap_or("").to_string();
    (fe, target, level)
}

/// YAML exactly as a user would write it (see /repo/logging/README.USAGE.md).
pub fn yaml_of(cfg: &Config, file_path: Option<&str>) -> String {
    let mut y = String::from("version: 1\nappenders:\n");
    for a in ["X", "Y"] {
        y.push_str(&format!("  {}:\n    kind: custom\n    buffer_size: {}\n    overflow: block\n", a, cfg.capacity));
    }
    if cfg.file {
        y.push_str(&format!(
            "  F:\n    kind: file\n    path: \"{}\"\n    channel_capacity: 2\n    overflow: block\n    encoder:\n      kind: pattern\n      pattern: \"%m%n\"\n",
            file_path.expect("file path for appender F")
        ));
    }
    if cfg.loggers.is_empty() {
        y.push_str("loggers: {}\n");
    } else {
        y.push_str("loggers:\n");
        for l in &cfg.loggers {
            y.push_str(&format!(
                "  \"{}\":\n    level: {}\n    appenders: [{}]\n    additive: {}\n",
                l.name,
                l.level,
                l.appenders.join(", "),
                l.additive
            ));
        }
    }
    y
}

pub fn job_of(case: &Case, file_path: Option<&str>) -> Job {
    Job {
        yaml: yaml_of(&case.config, file_path),
        file_path: if case.config.file { file_path.map(|s| s.to_string()) } else { None },
        events: case.events.clone(),
        threads: case.threads,
        cut_mode: case.cut_mode.clone(),
        cut: case.cut,
        shutdown: case.shutdown.clone(),
        drain: case.drain.clone(),
    }
}
