//! Driver process: one configuration, one script. Uses only the public API of fibre_logging.
//!   procx_child <path where the YAML is written>   (job JSON on stdin, result JSON on stdout)
use fibre::{RecvErrorTimeout, TryRecvError};
use fibre_logging::{CustomEventReceiver, LogEvent};
use procx::{parse_event, ChildOut, Job, Rec, StreamOut, TARGETS};
use std::io::{Read, Write};
use std::sync::atomic::{AtomicBool, AtomicUsize, Ordering};
use std::sync::{Arc, Mutex};
use std::time::{Duration, Instant};

const LEVEL_NAMES: [&str; 5] = ["error", "warn", "info", "debug", "trace"];

/// tracing callsites need a constant target and level: one callsite per (target, level).
macro_rules! tr_level {
    ($t:literal, $li:expr, $id:expr) => {
        match $li {
            0 => tracing::event!(target: $t, tracing::Level::ERROR, "{}", $id),
            1 => tracing::event!(target: $t, tracing::Level::WARN, "{}", $id),
            2 => tracing::event!(target: $t, tracing::Level::INFO, "{}", $id),
            3 => tracing::event!(target: $t, tracing::Level::DEBUG, "{}", $id),
            _ => tracing::event!(target: $t, tracing::Level::TRACE, "{}", $id),
        }
    };
}

fn emit(fe: &str, ti: usize, li: usize, id: &str) {
    if fe == "log" {
        let lvl = [log::Level::Error, log::Level::Warn, log::Level::Info, log::Level::Debug, log::Level::Trace][li];
        log::log!(target: TARGETS[ti], lvl, "{}", id);
    } else {
        match ti {
            0 => tr_level!("a", li, id),
            1 => tr_level!("a::b", li, id),
            2 => tr_level!("a::b::c", li, id),
            3 => tr_level!("ab", li, id),
            _ => tr_level!("z", li, id),
        }
    }
}

fn join_all(emitters: Vec<std::thread::JoinHandle<()>>, limit: Duration) -> bool {
    let deadline = Instant::now() + limit;
    while emitters.iter().any(|h| !h.is_finished()) {
        if Instant::now() > deadline {
            return false;
        }
        std::thread::sleep(Duration::from_micros(200));
    }
    for h in emitters {
        h.join().expect("emitter panicked");
    }
    true
}

fn rec_of(ev: LogEvent) -> Rec {
    Rec { id: ev.message.unwrap_or_default(), target: ev.target, level: ev.level.to_string().to_lowercase() }
}

struct Script {
    evs: Vec<(String, usize, usize)>,
}
impl Script {
    fn emit(&self, thread: usize, idx: usize) {
        let (fe, ti, li) = &self.evs[idx];
        emit(fe, *ti, *li, &format!("t{}-{}", thread, idx));
    }
}

/// Everything that touches fibre_logging happens in here, once per process.
fn run_job(job: &Job, yaml_path: &str) -> ChildOut {
    let script = Arc::new(Script {
        evs: job
            .events
            .iter()
            .map(|e| {
                let (fe, t, l) = parse_event(e);
                let ti = TARGETS.iter().position(|x| *x == t).unwrap_or_else(|| panic!("target {t} has no callsite"));
                let li = LEVEL_NAMES.iter().position(|x| *x == l).unwrap_or_else(|| panic!("level {l}"));
                assert!(fe == "log" || fe == "tracing");
                (fe, ti, li)
            })
            .collect(),
    });
    let n = script.evs.len();

    std::fs::write(&yaml_path, &job.yaml).expect("write yaml");
    let init = fibre_logging::init_from_file(std::path::Path::new(&yaml_path));
    let _ = std::fs::remove_file(&yaml_path);
    let mut out = ChildOut::default();
    let mut init = match init {
        Ok(i) => i,
        Err(e) => {
            out.init_error = Some(e.to_string());
            return out;
        }
    };

    let mut names: Vec<String> = init.custom_streams.keys().cloned().collect();
    names.sort();
    let streams: Vec<(String, CustomEventReceiver)> = names.into_iter().map(|k| { let rx = init.custom_streams.remove(&k).unwrap(); (k, rx) }).collect();

    let stream_names: Vec<String> = streams.iter().map(|(k, _)| k.clone()).collect();
    // --- drainers (concurrent mode) -------------------------------------------------------
    let shutdown_returned = Arc::new(AtomicBool::new(false));
    let collected: Vec<Arc<Mutex<StreamOut>>> = streams.iter().map(|_| Arc::new(Mutex::new(StreamOut::default()))).collect();
    let mut drainers = Vec::new();
    let mut later: Vec<(usize, CustomEventReceiver)> = Vec::new();
    for (i, (_name, rx)) in streams.into_iter().enumerate() {
        if job.drain == "concurrent" {
            let sink = collected[i].clone();
            let flag = shutdown_returned.clone();
            drainers.push(std::thread::spawn(move || {
                let mut since: Option<Instant> = None;
                loop {
                    match rx.recv_timeout(Duration::from_millis(25)) {
                        Ok(ev) => sink.lock().unwrap().records.push(rec_of(ev)),
                        Err(RecvErrorTimeout::Disconnected) => {
                            sink.lock().unwrap().disconnected = true;
                            break;
                        }
                        Err(RecvErrorTimeout::Timeout) => {
                            if flag.load(Ordering::SeqCst) {
                                let s = *since.get_or_insert_with(Instant::now);
                                if s.elapsed() > Duration::from_millis(1500) {
                                    break; // never disconnected
                                }
                            }
                        }
                    }
                }
            }));
        } else {
            later.push((i, rx));
        }
    }

    // --- emission + shutdown --------------------------------------------------------------
    let do_shutdown = |init: fibre_logging::InitResult| {
        let t0 = Instant::now();
        if job.shutdown == "explicit" {
            init.shutdown(Duration::from_secs(5));
        } else {
            drop(init);
        }
        t0.elapsed().as_secs_f64() * 1e3
    };

    let mut still_emitting: Option<(Vec<std::thread::JoinHandle<()>>, Arc<Vec<AtomicUsize>>)> = None;
    if job.cut_mode == "sequential" {
        assert_eq!(job.threads, 1);
        let cut = job.cut.min(n);
        for i in 0..cut {
            script.emit(0, i);
        }
        out.done_before_shutdown = vec![cut];
        out.shutdown_ms = do_shutdown(init);
        shutdown_returned.store(true, Ordering::SeqCst);
        for i in cut..n {
            script.emit(0, i); // after shutdown: must be discarded without blocking
        }
    } else {
        let done: Arc<Vec<AtomicUsize>> = Arc::new((0..job.threads).map(|_| AtomicUsize::new(0)).collect());
        let start = Arc::new(std::sync::Barrier::new(job.threads + 1));
        let mut emitters = Vec::new();
        for t in 0..job.threads {
            let (script, done, start) = (script.clone(), done.clone(), start.clone());
            emitters.push(std::thread::spawn(move || {
                start.wait();
                for i in 0..script.evs.len() {
                    script.emit(t, i);
                    done[t].store(i + 1, Ordering::SeqCst);
                }
                done[t].store(usize::MAX, Ordering::SeqCst);
            }));
        }
        start.wait();
        if job.cut_mode == "after_join" {
            if !join_all(emitters, Duration::from_secs(8)) {
                out.emitter_stuck = true;
                return out;
            }
            out.done_before_shutdown = done.iter().map(|d| d.load(Ordering::SeqCst).min(n)).collect();
            out.shutdown_ms = do_shutdown(init);
            shutdown_returned.store(true, Ordering::SeqCst);
        } else {
            // concurrent: wait until `cut` emissions returned (or the emitters stopped making
            // progress: senders blocked on a full stream nobody drains), then shut down under them
            let total = |d: &Vec<AtomicUsize>| d.iter().map(|x| x.load(Ordering::SeqCst).min(n)).sum::<usize>();
            let mut last = (total(&done), Instant::now());
            loop {
                let now = total(&done);
                if now >= job.cut.min(n * job.threads) {
                    break;
                }
                if now != last.0 {
                    last = (now, Instant::now());
                } else if last.1.elapsed() > Duration::from_millis(30) {
                    break;
                }
                std::thread::yield_now();
            }
            out.done_before_shutdown = done.iter().map(|d| d.load(Ordering::SeqCst).min(n)).collect();
            out.shutdown_ms = do_shutdown(init);
            shutdown_returned.store(true, Ordering::SeqCst);
            // the emitters are joined only after the streams were drained and dropped: a sender
            // parked on a full stream is released by the consumer draining / dropping it
            still_emitting = Some((emitters, done.clone()));
        }
    }

    // --- drain ----------------------------------------------------------------------------
    for (i, rx) in later {
        let mut so = StreamOut::default();
        let t0 = Instant::now();
        loop {
            match rx.try_recv() {
                Ok(ev) => so.records.push(rec_of(ev)),
                Err(TryRecvError::Disconnected) => {
                    so.disconnected = true;
                    break;
                }
                Err(TryRecvError::Empty) => {
                    if t0.elapsed() > Duration::from_millis(1500) {
                        break;
                    }
                    std::thread::sleep(Duration::from_millis(1));
                }
            }
        }
        *collected[i].lock().unwrap() = so;
    }
    for d in drainers {
        let _ = d.join();
    }
    if let Some((emitters, done)) = still_emitting {
        // 6 s: a Block send on a full small-capacity stream spins through up to 200 sched_yield
        // calls before it looks at the closed flag again; on an oversubscribed box that alone was
        // measured at up to 5 s for a single emission
        if !join_all(emitters, Duration::from_secs(6)) {
            out.emitter_stuck = true;
            out.stuck_at = done.iter().map(|d| { let v = d.load(Ordering::SeqCst); if v == usize::MAX { None } else { Some(v) } }).collect();
        }
    }
    for (i, c) in collected.iter().enumerate() {
        out.streams.insert(stream_names[i].clone(), c.lock().unwrap().clone());
    }
    if let Some(p) = &job.file_path {
        let text = std::fs::read_to_string(p).unwrap_or_default();
        out.file_lines = Some(text.lines().map(|s| s.to_string()).collect());
        let _ = std::fs::remove_file(p);
    }
    out
}

/// exec mode: `procx_child <yaml path>`, job on stdin, result on stdout
fn main() {
    let arg = std::env::args().nth(1).expect("usage: procx_child <yaml path> (job on stdin) | procx_child --zygote");
    if arg == "--zygote" {
        zygote();
        return;
    }
    let mut input = String::new();
    std::io::stdin().read_to_string(&mut input).expect("read job");
    let job: Job = serde_json::from_str(&input).expect("parse job");
    let out = run_job(&job, &arg);
    print(&out);
    // emitters that are stuck would keep the process alive
    std::process::exit(0);
}

/// zygote mode: a single-threaded server that never touches fibre_logging itself. Per request
/// line `{"yaml_path":..,"timeout_ms":..,"job":{..}}` it forks; the forked process (fresh global
/// dispatchers: one process = one configuration) runs the job, writes the result to a pipe and
/// `_exit`s; the zygote answers with one line `{"status":"ok","out":..}` / `{"status":"timeout"}`
/// / `{"status":"crash","detail":..}`.
fn zygote() {
    use std::io::BufRead;
    let stdin = std::io::stdin();
    let mut line = String::new();
    loop {
        line.clear();
        match stdin.lock().read_line(&mut line) {
            Ok(0) | Err(_) => return,
            Ok(_) => {}
        }
        let req: serde_json::Value = match serde_json::from_str(&line) {
            Ok(v) => v,
            Err(e) => {
                respond(&serde_json::json!({"status": "crash", "detail": format!("bad request: {e}")}));
                continue;
            }
        };
        let yaml_path = req["yaml_path"].as_str().unwrap_or("").to_string();
        let timeout_ms = req["timeout_ms"].as_u64().unwrap_or(10_000) as i64;
        let job: Job = match serde_json::from_value(req["job"].clone()) {
            Ok(j) => j,
            Err(e) => {
                respond(&serde_json::json!({"status": "crash", "detail": format!("bad job: {e}")}));
                continue;
            }
        };
        let mut fds = [0i32; 2];
        if unsafe { libc::pipe(fds.as_mut_ptr()) } != 0 {
            respond(&serde_json::json!({"status": "crash", "detail": "pipe() failed"}));
            continue;
        }
        let pid = unsafe { libc::fork() };
        if pid < 0 {
            unsafe { libc::close(fds[0]); libc::close(fds[1]); }
            respond(&serde_json::json!({"status": "crash", "detail": "fork() failed"}));
            continue;
        }
        if pid == 0 {
            // ---- the per-configuration process ----
            unsafe { libc::close(fds[0]) };
            let res = std::panic::catch_unwind(|| run_job(&job, &yaml_path));
            let code = match res {
                Ok(out) => {
                    let bytes = serde_json::to_vec(&out).unwrap_or_default();
                    let mut off = 0;
                    while off < bytes.len() {
                        let n = unsafe { libc::write(fds[1], bytes[off..].as_ptr() as *const libc::c_void, bytes.len() - off) };
                        if n <= 0 { break; }
                        off += n as usize;
                    }
                    0
                }
                Err(_) => 101,
            };
            unsafe { libc::_exit(code) };
        }
        unsafe { libc::close(fds[1]) };
        let t0 = Instant::now();
        let mut buf: Vec<u8> = Vec::new();
        let mut timed_out = false;
        loop {
            let left = timeout_ms - t0.elapsed().as_millis() as i64;
            if left <= 0 {
                timed_out = true;
                break;
            }
            let mut pfd = libc::pollfd { fd: fds[0], events: libc::POLLIN, revents: 0 };
            let r = unsafe { libc::poll(&mut pfd, 1, left.min(1000) as i32) };
            if r < 0 {
                continue; // EINTR
            }
            if r == 0 {
                continue;
            }
            let mut chunk = [0u8; 65536];
            let n = unsafe { libc::read(fds[0], chunk.as_mut_ptr() as *mut libc::c_void, chunk.len()) };
            if n > 0 {
                buf.extend_from_slice(&chunk[..n as usize]);
            } else if n == 0 {
                break; // EOF: the process exited (or closed the pipe)
            }
        }
        unsafe { libc::close(fds[0]) };
        if timed_out {
            unsafe { libc::kill(pid, libc::SIGKILL) };
        }
        let mut status: i32 = 0;
        unsafe { libc::waitpid(pid, &mut status, 0) };
        let _ = std::fs::remove_file(&yaml_path);
        if let Some(p) = &job.file_path {
            let _ = std::fs::remove_file(p);
        }
        if timed_out {
            respond(&serde_json::json!({"status": "timeout"}));
        } else if libc::WIFEXITED(status) && libc::WEXITSTATUS(status) == 0 {
            match serde_json::from_slice::<serde_json::Value>(&buf) {
                Ok(v) => respond(&serde_json::json!({"status": "ok", "out": v})),
                Err(e) => respond(&serde_json::json!({"status": "crash", "detail": format!("unparsable result: {e}")})),
            }
        } else if libc::WIFSIGNALED(status) {
            respond(&serde_json::json!({"status": "crash", "detail": format!("killed by signal {}", libc::WTERMSIG(status))}));
        } else {
            respond(&serde_json::json!({"status": "crash", "detail": format!("exit status {} (101 = panic)", libc::WEXITSTATUS(status))}));
        }
    }
}

fn respond(v: &serde_json::Value) {
    let mut o = std::io::stdout().lock();
    let _ = o.write_all(v.to_string().as_bytes());
    let _ = o.write_all(b"\n");
    let _ = o.flush();
}

fn print(out: &ChildOut) {
    let s = serde_json::to_string(out).expect("serialize");
    let mut o = std::io::stdout().lock();
    o.write_all(s.as_bytes()).unwrap();
    o.flush().unwrap();
}
