//! E4 parent: enumerates the C19 configuration space, runs one driver process per case,
//! compares with the reference routing function, writes a vcommon::Report.
use procx::gen;
use procx::oracle::{evaluate, racy, Finding, Verdict};
use procx::pool::{Pool, RunError};
use procx::{parse_event, Case};
use serde_json::json;
use std::collections::{BTreeMap, HashSet};
use std::process::ExitCode;
use std::sync::atomic::{AtomicUsize, Ordering};
use std::sync::Mutex;
use vcommon::{Report, Scenario, Timer, Violation};

const PROPERTY: &str = "C19";

struct Cand {
    count: u64,
    case: Case,
    idx: usize,
    message: String,
    focus: Option<(String, String)>,
    size: usize,
}

#[derive(Default)]
struct Agg {
    executions: u64,
    transitions: u64,
    states: HashSet<u64>,
    outcomes: HashSet<u64>,
    nontrivial: u64,
    retries: u64,
    cands: BTreeMap<String, Cand>,
    sample_lo: Option<(usize, serde_json::Value)>,
    sample_hi: Option<(usize, serde_json::Value)>,
}

/// run one case; hangs and crashes that repeat on a second attempt become findings
fn judge(pool: &Pool, slot: usize, case: &Case) -> (Vec<Finding>, Option<Verdict>, u32) {
    let (mut res, mut attempts) = pool.run(slot, case);
    // same rule for a hang reported by the driver itself (an emitter that never came back):
    // it counts only if it repeats on a second attempt
    if matches!(&res, Ok(o) if o.emitter_stuck) {
        let (again, n) = pool.run(slot, case);
        res = again;
        attempts += n;
    }
    match res {
        Ok(out) => {
            let v = evaluate(case, &out);
            (v.findings.clone(), Some(v), attempts)
        }
        Err(RunError::Timeout) => (
            vec![Finding {
                rule: "hang".into(),
                class: format!("driver-timeout/{}/drain-{}", case.cut_mode, case.drain),
                message: format!(
                    "driver process did not finish within {:?} (twice): shutdown={} drain={} cut_mode={} cut={} threads={}",
                    pool.timeout, case.shutdown, case.drain, case.cut_mode, case.cut, case.threads
                ),
                focus: None,
            }],
            None,
            attempts,
        ),
        Err(RunError::Crash(m)) => {
            if m.starts_with("spawn:") || m.starts_with("wait:") {
                panic!("machinery failure: {m}");
            }
            (
                vec![Finding { rule: "child_crash".into(), class: "driver-exited-abnormally".into(), message: format!("driver process failed twice: {m}"), focus: None }],
                None,
                attempts,
            )
        }
    }
}

fn case_size(c: &Case) -> usize {
    // prefer few loggers, then the shortest encoding
    c.config.loggers.len() * 100_000 + serde_json::to_string(c).unwrap().len()
}

fn run_scenario(
    pool: &Pool,
    name: &str,
    index_range: usize,
    case_at: &(dyn Fn(usize) -> Option<Case> + Sync),
    script_label: &str,
) -> (Scenario, BTreeMap<String, Cand>) {
    let timer = Timer::start();
    let next = AtomicUsize::new(0);
    let agg = Mutex::new(Agg::default());
    let progress = Mutex::new(std::time::Instant::now());
    std::thread::scope(|s| {
        for slot in 0..pool.jobs {
            let (next, agg, progress) = (&next, &agg, &progress);
            s.spawn(move || loop {
                let idx = next.fetch_add(1, Ordering::SeqCst);
                if idx >= index_range {
                    break;
                }
                let Some(case) = case_at(idx) else { continue };
                let (findings, verdict, attempts) = judge(pool, slot, &case);
                let state_hash = vcommon::fnv(serde_json::to_string(&case).unwrap().as_bytes());
                let mut a = agg.lock().unwrap();
                a.executions += 1;
                a.retries += (attempts - 1) as u64;
                a.states.insert(state_hash);
                if let Some(v) = &verdict {
                    a.transitions += v.emitted as u64;
                    a.outcomes.insert(v.outcome_hash);
                    if v.delivered > 0 && v.filtered > 0 {
                        a.nontrivial += 1;
                        let smp = || json!({"config": case.config, "script": script_label, "cut": case.cut, "shutdown": case.shutdown, "drain": case.drain, "threads": case.threads, "observed_deliveries(target level -> front end -> appenders)": v.matrix});
                        // samples only from executions whose observable outcome is schedule-independent
                        if !racy(&case) && a.sample_lo.as_ref().map_or(true, |(i, _)| idx < *i) {
                            a.sample_lo = Some((idx, smp()));
                        }
                        if !racy(&case) && a.sample_hi.as_ref().map_or(true, |(i, _)| idx > *i) {
                            a.sample_hi = Some((idx, smp()));
                        }
                    }
                }
                let mut seen = HashSet::new();
                for f in findings {
                    let fp = f.fingerprint();
                    let first_in_case = seen.insert(fp.clone());
                    let size = case_size(&case);
                    match a.cands.get_mut(&fp) {
                        Some(c) => {
                            if first_in_case {
                                c.count += 1;
                            }
                            if (size, idx) < (c.size, c.idx) {
                                c.case = case.clone();
                                c.idx = idx;
                                c.size = size;
                                c.message = f.message;
                                c.focus = f.focus;
                            }
                        }
                        None => {
                            a.cands.insert(fp, Cand { count: 1, case: case.clone(), idx, message: f.message, focus: f.focus, size });
                        }
                    }
                }
                let n = a.executions;
                drop(a);
                let mut p = progress.lock().unwrap();
                if p.elapsed().as_secs() >= 10 {
                    *p = std::time::Instant::now();
                    eprintln!("[procx] {name}: {n} driver processes done ({idx}/{index_range})");
                }
            });
        }
    });
    let a = agg.into_inner().unwrap();
    let mut sc = Scenario {
        name: name.into(),
        properties: vec![PROPERTY.into()],
        executions: a.executions,
        states: a.states.len() as u64,
        transitions: a.transitions,
        distinct_outcomes: a.outcomes.len() as u64,
        nontrivial: a.nontrivial,
        nontrivial_rule: "executions in which at least one emitted event was delivered to some appender and at least one was filtered out everywhere".into(),
        exhaustive: true,
        wall_s: timer.secs(),
        ..Default::default()
    };
    for s in [a.sample_lo, a.sample_hi].into_iter().flatten() {
        if !sc.samples.iter().any(|x| *x == s.1) {
            sc.samples.push(s.1);
        }
    }
    if a.retries > 0 {
        eprintln!("[procx] {name}: {} driver runs were repeated after a hang/crash that did not repeat (machinery noise)", a.retries);
    }
    (sc, a.cands)
}

/// re-execute from scratch; try a minimal script; build the Violation
fn confirm(pool: &Pool, scenario: &str, fp: &str, cand: &Cand) -> Violation {
    let slot = pool.jobs; // the extra slot of the main thread
    let attempts = if racy(&cand.case) || cand.case.drain == "concurrent" || cand.case.config.file { 5 } else { 1 };
    let mut repro = 0;
    for _ in 0..attempts {
        let (fs, _, _) = judge(pool, slot, &cand.case);
        if fs.iter().any(|f| f.fingerprint() == fp) {
            repro += 1;
        }
    }
    let mut replay_case = cand.case.clone();
    if let Some((ev, _app)) = &cand.focus {
        let (fe, t, l) = parse_event(ev);
        let other = if fe == "log" { "tracing" } else { "log" };
        let pair = vec![format!("{fe} {t} {l}"), format!("{other} {t} {l}")];
        let mut small = cand.case.clone();
        small.events = [pair.clone(), pair].concat();
        if small.cut_mode == "sequential" {
            small.cut = small.events.len();
        }
        let (fs, _, _) = judge(pool, slot, &small);
        if fs.iter().any(|f| f.fingerprint() == fp) {
            replay_case = small;
        }
    }
    Violation {
        property: PROPERTY.into(),
        fingerprint: fp.into(),
        message: format!("{} [in {} executions of this scenario; re-executed from scratch: reproduced {}/{}]", cand.message, cand.count, repro, attempts),
        scenario: scenario.into(),
        replay: serde_json::to_value(&replay_case).unwrap(),
    }
}

fn run(tier: &str, out: &str, props: Option<String>, jobs: usize, only: Option<String>) -> ExitCode {
    let want = |name: &str| only.as_ref().map_or(true, |o| o == name);
    let mut report = Report::new("procx", tier);
    if let Some(p) = &props {
        if !p.split(',').any(|x| x.trim() == PROPERTY) {
            report.write(out);
            return ExitCode::SUCCESS;
        }
    }
    let pool = Pool::new(jobs, true);
    std::thread::scope(|s| {
        s.spawn(|| pool.watchdog());
        let script = gen::std_script();
        let script_label = gen::STD_LABEL;

        // ---- scenario 1: routing lattice ------------------------------------------------
        if want("route") {
            let fams = gen::route_families(tier);
            let mut offsets = Vec::new();
            let mut total = 0usize;
            for f in &fams {
                offsets.push(total);
                total += f.size();
            }
            let case_at = |i: usize| -> Option<Case> {
                let k = offsets.iter().rposition(|o| *o <= i).unwrap();
                Some(gen::route_case(fams[k].config(i - offsets[k])))
            };
            let (mut sc, cands) = run_scenario(&pool, "route", total, &case_at, script_label);
            assert_eq!(sc.states as usize, total, "route families must be pairwise disjoint");
            sc.bound.insert("logger_names".into(), json!(procx::LOGGER_NAMES));
            sc.bound.insert("families(each a complete product; pairwise disjoint)".into(), json!(fams.iter().map(|f| f.describe()).collect::<Vec<_>>()));
            sc.bound.insert("configurations".into(), json!(total));
            sc.bound.insert("events_per_configuration".into(), json!(script.len()));
            sc.bound.insert("script".into(), json!(script_label));
            sc.bound.insert("appenders".into(), json!("X, Y: kind custom, overflow block, buffer_size 64 (>= 60 events); the streams are drained only after shutdown returned, so everything accepted is still buffered when the channels are closed"));
            sc.bound.insert("shutdown".into(), json!("explicit shutdown after the last event, 1 emitting thread"));
            report.scenarios.push(sc);
            for (fp, c) in &cands {
                report.push_violation(confirm(&pool, "route", fp, c));
            }
        }

        // ---- scenario 2: shutdown at every cut position -----------------------------------
        if want("shutdown-cuts") {
            let plan = gen::shutdown_plan(tier);
            let reps = plan.reps;
            let cases = gen::shutdown_cases(&plan);
            let (mut sc, cands) = run_scenario(&pool, "shutdown-cuts", cases.len(), &|i| Some(cases[i].clone()), plan.script_label);
            sc.exhaustive = false;
            sc.caps.push(format!("interleaving of drainer / file-writer threads with the shutdown call: os-scheduled, repeated {reps} times"));
            sc.bound.insert("configurations".into(), json!(gen::wiring_classes().iter().take(plan.classes).map(|w| w.0).collect::<Vec<_>>()));
            sc.bound.insert("script".into(), json!(plan.script_label));
            sc.bound.insert("cut_positions".into(), json!(format!("shutdown after event k for every k in 0..={} (exhaustive=true for this dimension); the rest of the script is emitted after shutdown returned", plan.script.len())));
            sc.bound.insert("shutdown_kinds".into(), json!(["explicit shutdown(5s)", "drop(InitResult)"]));
            sc.bound.insert("drain_modes".into(), json!(["concurrent drainer threads, buffer_size 1", "drained only after shutdown returned, buffer_size 64"]));
            sc.bound.insert("appenders".into(), json!("X, Y custom streams + F file appender (overflow block, channel_capacity 2) wired like X"));
            sc.bound.insert("schedule".into(), json!(format!("os-scheduled, repeated {reps} times")));
            report.scenarios.push(sc);
            for (fp, c) in &cands {
                report.push_violation(confirm(&pool, "shutdown-cuts", fp, c));
            }
        }

        // ---- scenario 3: several emitting threads ------------------------------------------
        if want("threads") {
            let plan = gen::threads_plan(tier);
            let reps = plan.reps;
            let cases = gen::thread_cases(&plan);
            let (mut sc, cands) = run_scenario(&pool, "threads", cases.len(), &|i| Some(cases[i].clone()), plan.script_label);
            sc.exhaustive = false;
            sc.caps.push(format!("interleaving of emitting threads, drainers and the shutdown call: os-scheduled, repeated {reps} times"));
            sc.bound.insert("configurations".into(), json!(gen::wiring_classes().iter().take(plan.classes).map(|w| w.0).collect::<Vec<_>>()));
            sc.bound.insert("script".into(), json!(plan.script_label));
            sc.bound.insert("emitting_threads".into(), json!(plan.thread_counts));
            sc.bound.insert(
                "shapes".into(),
                json!({
                    "shutdown after joining the emitters": if plan.concurrent_cut_quarters.len() > 1 { "drain concurrent buffer 1 | concurrent buffer 2 | after buffer 256" } else { "drain concurrent buffer 1" },
                    "shutdown concurrent with the emitters, issued once this many quarters of all emissions returned (0 = after the first)": plan.concurrent_cut_quarters,
                    "concurrent shutdown drain modes": "concurrent buffer 1 | after buffer 256",
                    "blocked senders": "shutdown while the emitters are blocked on a full undrained stream (buffer 2), then drain + drop the streams, then join the emitters"
                }),
            );
            sc.bound.insert("shutdown_kinds".into(), json!(["explicit shutdown(5s)", "drop(InitResult)"]));
            sc.bound.insert("oracle".into(), json!("per thread and appender: everything emitted before shutdown was called is present exactly once and in emission order; what was accepted during a concurrent shutdown is a gap-free prefix of the thread's expected sequence; streams disconnect; emitters terminate"));
            sc.bound.insert("schedule".into(), json!(format!("os-scheduled, repeated {reps} times")));
            report.scenarios.push(sc);
            for (fp, c) in &cands {
                report.push_violation(confirm(&pool, "threads", fp, c));
            }
        }
        pool.stop();
    });
    pool.cleanup();
    report.violations.sort_by(|a, b| a.fingerprint.cmp(&b.fingerprint));
    report.write(out);
    for s in &report.scenarios {
        eprintln!(
            "[procx] {}: executions={} states={} transitions={} outcomes={} nontrivial={} wall={:.1}s",
            s.name, s.executions, s.states, s.transitions, s.distinct_outcomes, s.nontrivial, s.wall_s
        );
    }
    for v in &report.violations {
        eprintln!("[procx] VIOLATION {} :: {}", v.fingerprint, v.message);
    }
    ExitCode::SUCCESS
}

fn replay(path: &str) -> ExitCode {
    let text = std::fs::read_to_string(path).expect("read replay file");
    let v: serde_json::Value = serde_json::from_str(&text).expect("parse replay file");
    let (case_v, want) = match v.get("replay") {
        Some(r) => (r.clone(), v.get("fingerprint").and_then(|f| f.as_str()).map(|s| s.to_string())),
        None => (v.clone(), None),
    };
    let case: Case = serde_json::from_value(case_v).expect("replay is not a procx case");
    let pool = Pool::new(1, false);
    let mut reproduced = false;
    std::thread::scope(|s| {
        s.spawn(|| pool.watchdog());
        println!("--- YAML ---\n{}", procx::yaml_of(&case.config, Some("<tmp>/F.log")));
        println!("--- script ({} events, threads={}, cut_mode={}, cut={}, shutdown={}, drain={}) ---", case.events.len(), case.threads, case.cut_mode, case.cut, case.shutdown, case.drain);
        let attempts = if racy(&case) || case.drain == "concurrent" || case.config.file { 5 } else { 1 };
        for k in 0..attempts {
            let (res, _) = pool.run(0, &case);
            let findings = match res {
                Ok(out) => {
                    if k == 0 {
                        for (name, s) in &out.streams {
                            println!("stream {name}: disconnected={} records={:?}", s.disconnected, s.records.iter().map(|r| {
                                let i: usize = r.id.split('-').nth(1).and_then(|x| x.parse().ok()).unwrap_or(usize::MAX);
                                format!("{}={}", r.id, case.events.get(i).cloned().unwrap_or_default())
                            }).collect::<Vec<_>>());
                        }
                        if let Some(l) = &out.file_lines {
                            println!("file F: {l:?}");
                        }
                    }
                    evaluate(&case, &out).findings
                }
                Err(_) => judge(&pool, 0, &case).0,
            };
            for f in &findings {
                println!("attempt {}: {} :: {}", k + 1, f.fingerprint(), f.message);
            }
            if findings.iter().any(|f| want.as_ref().map_or(true, |w| *w == f.fingerprint())) {
                reproduced = true;
                break;
            }
        }
        pool.stop();
    });
    pool.cleanup();
    if reproduced {
        println!("REPRODUCED");
        ExitCode::from(1)
    } else {
        println!("not reproduced");
        ExitCode::SUCCESS
    }
}

fn main() -> ExitCode {
    let args: Vec<String> = std::env::args().collect();
    let get = |flag: &str| args.iter().position(|a| a == flag).and_then(|i| args.get(i + 1)).cloned();
    match args.get(1).map(|s| s.as_str()) {
        Some("run") => {
            let tier = get("--tier").unwrap_or_else(|| "quick".into());
            let out = get("--out").expect("--out <report.json>");
            let jobs = get("--jobs").and_then(|j| j.parse().ok()).unwrap_or(16);
            run(&tier, &out, get("--props"), jobs, get("--only"))
        }
        Some("replay") => replay(args.get(2).expect("replay <file>")),
        _ => {
            eprintln!("usage: procx run --tier quick|thorough --out <report.json> [--props C19] [--jobs N]\n       procx replay <replay.json>");
            ExitCode::from(2)
        }
    }
}
