//! The bounded spaces. Everything here is enumerated completely (no sampling).
use crate::{Case, Config, Logger, FRONT_ENDS, LEVELS, LOGGER_NAMES, TARGETS};

/// 5 targets × 3 levels × 2 front ends (log, tracing adjacent), then the same 30 in reverse
/// order: every (front end, target, level) is emitted twice, at positions i and 59-i.
pub fn std_script() -> Vec<String> {
    let mut v = Vec::new();
    for t in TARGETS {
        for l in LEVELS {
            for fe in FRONT_ENDS {
                v.push(format!("{fe} {t} {l}"));
            }
        }
    }
    let mut rev = v.clone();
    rev.reverse();
    v.extend(rev);
    v
}

const WIRINGS: [&[&str]; 4] = [&[], &["X"], &["Y"], &["X", "Y"]];

/// One logger slot: absent, or (level, additive, wiring index).
pub type Opt = Option<(&'static str, bool, usize)>;

/// all present-options over the given levels: level × {additive, non-additive} × {∅,{X},{Y},{X,Y}}
pub fn present(levels: &[&'static str]) -> Vec<Opt> {
    let mut v = Vec::new();
    for l in levels {
        for additive in [true, false] {
            for w in 0..WIRINGS.len() {
                v.push(Some((*l, additive, w)));
            }
        }
    }
    v
}
pub fn absent() -> Vec<Opt> {
    vec![None]
}
pub fn maybe(levels: &[&'static str]) -> Vec<Opt> {
    let mut v = absent();
    v.extend(present(levels));
    v
}

/// A complete product: one option list per logger name (root, a, a::b, ab), every combination.
pub struct Family {
    pub name: String,
    pub opts: [Vec<Opt>; 4],
}
impl Family {
    pub fn size(&self) -> usize {
        self.opts.iter().map(|o| o.len()).product()
    }
    pub fn config(&self, mut idx: usize) -> Config {
        let mut loggers = Vec::new();
        for (k, name) in LOGGER_NAMES.iter().enumerate() {
            let o = &self.opts[k];
            let d = idx % o.len();
            idx /= o.len();
            if let Some((level, additive, w)) = o[d] {
                loggers.push(Logger { name: name.to_string(), level: level.to_string(), additive, appenders: WIRINGS[w].iter().map(|s| s.to_string()).collect() });
            }
        }
        Config { loggers, capacity: 64, file: false }
    }
    pub fn describe(&self) -> String {
        let one = |x: &(&'static str, bool, usize)| format!("{}/{}/{{{}}}", x.0, if x.1 { "additive" } else { "non-additive" }, WIRINGS[x.2].join(","));
        let d = |o: &Vec<Opt>| -> String {
            let none = if o.iter().any(|x| x.is_none()) { "absent | " } else { "" };
            let pres: Vec<&(&'static str, bool, usize)> = o.iter().flatten().collect();
            if pres.is_empty() {
                return "absent".to_string();
            }
            let mut levels: Vec<&str> = Vec::new();
            let mut adds: Vec<bool> = Vec::new();
            let mut wires: Vec<usize> = Vec::new();
            for x in &pres {
                if !levels.contains(&x.0) { levels.push(x.0) }
                if !adds.contains(&x.1) { adds.push(x.1) }
                if !wires.contains(&x.2) { wires.push(x.2) }
            }
            if pres.len() > 1 && pres.len() == levels.len() * adds.len() * wires.len() {
                format!(
                    "{none}level in [{}] x additive in [{}] x appenders in [{}]",
                    levels.join(","),
                    adds.iter().map(|a| if *a { "t" } else { "f" }).collect::<Vec<_>>().join(","),
                    wires.iter().map(|w| format!("{{{}}}", WIRINGS[*w].join(","))).collect::<Vec<_>>().join(",")
                )
            } else {
                format!("{none}{}", pres.iter().map(|x| one(x)).collect::<Vec<_>>().join(" | "))
            }
        };
        format!("{}: root = {}; a = {}; a::b = {}; ab = {}  [{} configurations]", self.name, d(&self.opts[0]), d(&self.opts[1]), d(&self.opts[2]), d(&self.opts[3]), self.size())
    }
}

const ALL: [&str; 3] = ["error", "info", "trace"];

/// The routing lattice of a tier: a list of pairwise disjoint complete products.
pub fn route_families(tier: &str) -> Vec<Family> {
    let fam = |name: &str, r: Vec<Opt>, a: Vec<Opt>, abb: Vec<Opt>, ab: Vec<Opt>| Family { name: name.to_string(), opts: [r, a, abb, ab] };
    let two: [&'static str; 2] = ["error", "trace"];
    // wirings: 0 = {}, 1 = {X}, 2 = {Y}, 3 = {X,Y}
    let pick = |levels: &[&'static str], wirings: &[usize]| -> Vec<Opt> {
        let mut v = Vec::new();
        for l in levels {
            for additive in [true, false] {
                for w in wirings {
                    v.push(Some((*l, additive, *w)));
                }
            }
        }
        v
    };
    let mut v = Vec::new();
    match tier {
        "quick" => {
            // (1) root alone, every option (includes the empty configuration)
            v.push(fam("no non-root logger", maybe(&ALL), absent(), absent(), absent()));
            // (2) one non-root logger with every option, under three representative roots
            let roots = || -> Vec<Opt> { vec![None, Some(("info", true, 1)), Some(("trace", false, 3))] };
            v.push(fam("only a", roots(), present(&ALL), absent(), absent()));
            v.push(fam("only a::b", roots(), absent(), present(&ALL), absent()));
            v.push(fam("only ab", roots(), absent(), absent(), present(&ALL)));
            // (3) nesting a / a::b under a root wired to both appenders
            let root = || -> Vec<Opt> { vec![Some(("info", true, 3))] };
            v.push(fam("a and a::b (reduced)", root(), pick(&two, &[0, 1, 2]), pick(&two, &[0, 1, 2]), absent()));
            // (4) string-prefix siblings a / ab both present
            v.push(fam("a and ab (reduced)", root(), pick(&["trace"], &[0, 1, 2]), absent(), pick(&["error"], &[0, 1, 2])));
        }
        "thorough" => {
            // (1) at most one non-root logger, every option of every slot
            v.push(fam("no non-root logger", maybe(&ALL), absent(), absent(), absent()));
            v.push(fam("only a", maybe(&ALL), present(&ALL), absent(), absent()));
            v.push(fam("only a::b", maybe(&ALL), absent(), present(&ALL), absent()));
            v.push(fam("only ab", maybe(&ALL), absent(), absent(), present(&ALL)));
            // (2) exactly two non-root loggers, every option of both, under 17 roots:
            // absent | every level x additive x every wiring | info x non-additive x every wiring
            let roots = || -> Vec<Opt> {
                let mut r: Vec<Opt> = vec![None];
                for l in ALL {
                    for w in 0..WIRINGS.len() {
                        r.push(Some((l, true, w)));
                    }
                }
                for w in 0..WIRINGS.len() {
                    r.push(Some(("info", false, w)));
                }
                r
            };
            v.push(fam("a and a::b", roots(), present(&ALL), present(&ALL), absent()));
            v.push(fam("a and ab", roots(), present(&ALL), absent(), present(&ALL)));
            v.push(fam("a::b and ab", roots(), absent(), present(&ALL), present(&ALL)));
        }
        "full2" => {
            // every configuration with at most two non-root loggers, every option of every slot (45,025)
            v.push(fam("no non-root logger", maybe(&ALL), absent(), absent(), absent()));
            v.push(fam("only a", maybe(&ALL), present(&ALL), absent(), absent()));
            v.push(fam("only a::b", maybe(&ALL), absent(), present(&ALL), absent()));
            v.push(fam("only ab", maybe(&ALL), absent(), absent(), present(&ALL)));
            v.push(fam("a and a::b", maybe(&ALL), present(&ALL), present(&ALL), absent()));
            v.push(fam("a and ab", maybe(&ALL), present(&ALL), absent(), present(&ALL)));
            v.push(fam("a::b and ab", maybe(&ALL), absent(), present(&ALL), present(&ALL)));
        }
        _ => {
            // "full": the whole product (390,625)
            v.push(fam("full product", maybe(&ALL), maybe(&ALL), maybe(&ALL), maybe(&ALL)));
        }
    }
    v
}

pub fn route_case(config: Config) -> Case {
    let events = std_script();
    let cut = events.len();
    // buffer_size 64 >= 60 events: nothing drains until shutdown returned, so every accepted
    // event is still buffered when the channels are closed
    Case { config, events, threads: 1, cut_mode: "sequential".into(), cut, shutdown: "explicit".into(), drain: "after".into() }
}

fn lg(name: &str, level: &str, additive: bool, app: &[&str]) -> Logger {
    Logger { name: name.into(), level: level.into(), additive, appenders: app.iter().map(|s| s.to_string()).collect() }
}

/// One configuration per wiring class (F = file appender, wired like X).
pub fn wiring_classes() -> Vec<(&'static str, Vec<Logger>)> {
    vec![
        ("root-only", vec![lg("root", "trace", true, &["X", "F"])]),
        ("root-both+nonadditive-child", vec![lg("root", "info", true, &["X", "Y", "F"]), lg("a", "trace", false, &["Y"])]),
        (
            "three-levels-additive-then-nonadditive",
            vec![lg("root", "error", true, &["X", "F"]), lg("a", "info", true, &["X", "Y", "F"]), lg("a::b", "trace", false, &["Y"])],
        ),
        ("no-root-siblings-with-shared-string-prefix", vec![lg("a", "trace", true, &["X", "F"]), lg("ab", "info", true, &["Y"])]),
        (
            "additive-unwired-middle",
            vec![lg("root", "trace", true, &["Y"]), lg("a", "error", true, &[]), lg("a::b", "info", true, &["X", "Y", "F"])],
        ),
    ]
}

/// 3 targets (own logger / deepest nesting / string-prefix sibling) × {error, trace} × 2 front ends
pub fn short_script() -> Vec<String> {
    let mut v = Vec::new();
    for t in ["a", "a::b::c", "ab"] {
        for l in ["error", "trace"] {
            for fe in FRONT_ENDS {
                v.push(format!("{fe} {t} {l}"));
            }
        }
    }
    v
}

/// what the shutdown / threads scenarios of a tier run
pub struct Plan {
    pub script: Vec<String>,
    pub script_label: &'static str,
    /// the first `classes` entries of `wiring_classes()`
    pub classes: usize,
    pub reps: usize,
    pub thread_counts: Vec<usize>,
    /// fractions (in quarters) of all emissions after which a concurrent shutdown is issued; 0 = after the first emission
    pub concurrent_cut_quarters: Vec<usize>,
}
pub const STD_LABEL: &str = "std60 = (5 targets x 3 levels x [log, tracing]) followed by the same 30 in reverse order";
pub const SHORT_LABEL: &str = "short12 = targets [a, a::b::c, ab] x levels [error, trace] x [log, tracing]";
pub fn shutdown_plan(tier: &str) -> Plan {
    match tier {
        "quick" => Plan { script: short_script(), script_label: SHORT_LABEL, classes: 3, reps: 1, thread_counts: vec![1], concurrent_cut_quarters: vec![] },
        _ => Plan { script: std_script(), script_label: STD_LABEL, classes: 5, reps: 2, thread_counts: vec![1], concurrent_cut_quarters: vec![] },
    }
}
pub fn threads_plan(tier: &str) -> Plan {
    match tier {
        "quick" => Plan { script: short_script(), script_label: SHORT_LABEL, classes: 2, reps: 1, thread_counts: vec![2, 3], concurrent_cut_quarters: vec![2] },
        _ => Plan { script: std_script(), script_label: STD_LABEL, classes: 5, reps: 2, thread_counts: vec![2, 3], concurrent_cut_quarters: vec![0, 1, 2, 3] },
    }
}

/// cut position × shutdown kind × drain mode × repetitions, for every wiring class; 1 emitting thread
pub fn shutdown_cases(plan: &Plan) -> Vec<Case> {
    let events = plan.script.clone();
    let mut v = Vec::new();
    for (_name, loggers) in wiring_classes().into_iter().take(plan.classes) {
        for cut in 0..=events.len() {
            for shutdown in ["explicit", "drop"] {
                for (drain, capacity) in [("concurrent", 1usize), ("after", 64usize)] {
                    for _ in 0..plan.reps {
                        v.push(Case {
                            config: Config { loggers: loggers.clone(), capacity, file: true },
                            events: events.clone(),
                            threads: 1,
                            cut_mode: "sequential".into(),
                            cut,
                            shutdown: shutdown.into(),
                            drain: drain.into(),
                        });
                    }
                }
            }
        }
    }
    v
}

/// several emitting threads; shutdown after the join, or concurrently with the emitters at
/// several positions, or under senders blocked on a full undrained stream
pub fn thread_cases(plan: &Plan) -> Vec<Case> {
    let events = plan.script.clone();
    let n = events.len();
    let mut v = Vec::new();
    for (_name, loggers) in wiring_classes().into_iter().take(plan.classes) {
        for &threads in &plan.thread_counts {
            // (cut_mode, cut, drain, capacity, file)
            let mut shapes: Vec<(&str, usize, &str, usize, bool)> = vec![("after_join", n * threads, "concurrent", 1, true)];
            if plan.concurrent_cut_quarters.len() > 1 {
                shapes.push(("after_join", n * threads, "concurrent", 2, true));
                shapes.push(("after_join", n * threads, "after", 256, true));
            }
            for &q in &plan.concurrent_cut_quarters {
                let cut = if q == 0 { 1 } else { n * threads * q / 4 };
                shapes.push(("concurrent", cut, "concurrent", 1, true));
                shapes.push(("concurrent", cut, "after", 256, true));
            }
            // blocked senders: nobody drains, capacity 2, shutdown + drain must release the emitters
            shapes.push(("concurrent", 2, "after", 2, false));
            for (cut_mode, cut, drain, capacity, file) in shapes {
                for shutdown in ["explicit", "drop"] {
                    for _ in 0..plan.reps {
                        let mut loggers = loggers.clone();
                        if !file {
                            for l in &mut loggers {
                                l.appenders.retain(|a| a != "F");
                            }
                        }
                        v.push(Case {
                            config: Config { loggers, capacity, file },
                            events: events.clone(),
                            threads,
                            cut_mode: cut_mode.into(),
                            cut,
                            shutdown: shutdown.into(),
                            drain: drain.into(),
                        });
                    }
                }
            }
        }
    }
    v
}
