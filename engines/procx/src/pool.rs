//! Process pool: `jobs` worker slots, one child process per case, watchdog kills children
//! older than the timeout.
use crate::{job_of, Case, ChildOut};
use std::io::{Read, Write};
use std::path::PathBuf;
use std::process::{Child, Command, Stdio};
use std::sync::atomic::{AtomicBool, Ordering};
use std::sync::Mutex;
use std::time::{Duration, Instant};

pub enum RunError {
    Timeout,
    Crash(String),
}

struct Running {
    child: Child,
    started: Instant,
    killed: bool,
}

struct Zygote {
    child: Child,
    stdin: std::process::ChildStdin,
    stdout: std::io::BufReader<std::process::ChildStdout>,
}

pub struct Pool {
    /// false (default): one `procx_child` exec (posix_spawn) per case.
    /// true (env PROCX_ZYGOTE=1): one persistent single-threaded `procx_child --zygote` per slot
    /// that forks once per case. Measured on the build sandbox fork is SLOWER than posix_spawn
    /// (page-table copy + copy-on-write faults are expensive there), hence opt-in.
    pub use_zygote: bool,
    zygotes: Vec<Mutex<Option<Zygote>>>,
    pub child_exe: PathBuf,
    pub tmp: PathBuf,
    pub jobs: usize,
    pub timeout: Duration,
    slots: Vec<Mutex<Option<Running>>>,
    stop: AtomicBool,
}

impl Pool {
    pub fn new(jobs: usize, use_zygote: bool) -> Pool {
        let exe = std::env::current_exe().expect("current_exe");
        let dir = exe.parent().expect("exe dir").to_path_buf();
        let child_exe = dir.join("procx_child");
        assert!(child_exe.exists(), "driver binary {child_exe:?} not found next to the engine binary");
        // <target>/<kind>/release/procx  ->  <target>/tmp-procx
        let tmp = std::env::var_os("PROCX_TMP")
            .map(PathBuf::from)
            .unwrap_or_else(|| dir.parent().and_then(|p| p.parent()).expect("target dir").join("tmp-procx"));
        std::fs::create_dir_all(&tmp).expect("create tmp dir");
        Pool {
            use_zygote: use_zygote && std::env::var_os("PROCX_ZYGOTE").is_some(),
            zygotes: (0..jobs + 1).map(|_| Mutex::new(None)).collect(),
            child_exe,
            tmp,
            jobs,
            timeout: Duration::from_secs(10),
            slots: (0..jobs + 1).map(|_| Mutex::new(None)).collect(),
            stop: AtomicBool::new(false),
        }
    }
    pub fn stop(&self) {
        self.stop.store(true, Ordering::SeqCst);
    }
    /// run on its own thread for the lifetime of the pool
    pub fn watchdog(&self) {
        while !self.stop.load(Ordering::SeqCst) {
            for s in &self.slots {
                if let Ok(mut g) = s.lock() {
                    if let Some(r) = g.as_mut() {
                        if !r.killed && r.started.elapsed() > self.timeout {
                            let _ = r.child.kill();
                            r.killed = true;
                        }
                    }
                }
            }
            std::thread::sleep(Duration::from_millis(50));
        }
    }
    fn paths(&self, slot: usize) -> (PathBuf, PathBuf) {
        let pid = std::process::id();
        (self.tmp.join(format!("{pid}-{slot}.yaml")), self.tmp.join(format!("{pid}-{slot}.F.log")))
    }

    fn run_once_zygote(&self, slot: usize, case: &Case) -> Result<ChildOut, RunError> {
        use std::io::BufRead;
        let (yaml_path, file_path) = self.paths(slot);
        let job = job_of(case, Some(file_path.to_str().unwrap()));
        let req = serde_json::json!({"yaml_path": yaml_path.to_str().unwrap(), "timeout_ms": self.timeout.as_millis() as u64, "job": job});
        let mut g = self.zygotes[slot].lock().unwrap();
        if g.is_none() {
            let mut child = Command::new(&self.child_exe)
                .arg("--zygote")
                .env_remove("FIBRE_LOGGING_VERBOSE")
                .stdin(Stdio::piped())
                .stdout(Stdio::piped())
                .stderr(if std::env::var_os("PROCX_CHILD_STDERR").is_some() { Stdio::inherit() } else { Stdio::null() })
                .spawn()
                .map_err(|e| RunError::Crash(format!("spawn: {e}")))?;
            let stdin = child.stdin.take().unwrap();
            let stdout = std::io::BufReader::new(child.stdout.take().unwrap());
            *g = Some(Zygote { child, stdin, stdout });
        }
        let z = g.as_mut().unwrap();
        let mut line = req.to_string();
        line.push('\n');
        let mut resp = String::new();
        let io = z.stdin.write_all(line.as_bytes()).and_then(|_| z.stdin.flush()).and_then(|_| z.stdout.read_line(&mut resp));
        let dead = match io {
            Ok(0) | Err(_) => true,
            Ok(_) => false,
        };
        if dead {
            if let Some(mut z) = g.take() {
                let _ = z.child.kill();
                let _ = z.child.wait();
            }
            let _ = std::fs::remove_file(&yaml_path);
            let _ = std::fs::remove_file(&file_path);
            return Err(RunError::Crash("zygote process died".into()));
        }
        let v: serde_json::Value = serde_json::from_str(&resp).map_err(|e| RunError::Crash(format!("unparsable zygote answer: {e}")))?;
        match v["status"].as_str() {
            Some("ok") => serde_json::from_value::<ChildOut>(v["out"].clone()).map_err(|e| RunError::Crash(format!("unparsable driver output: {e}"))),
            Some("timeout") => Err(RunError::Timeout),
            _ => Err(RunError::Crash(format!("driver process failed: {}", v["detail"].as_str().unwrap_or("?")))),
        }
    }

    pub fn run_once(&self, slot: usize, case: &Case) -> Result<ChildOut, RunError> {
        if self.use_zygote {
            return self.run_once_zygote(slot, case);
        }
        let (yaml_path, file_path) = self.paths(slot);
        let _ = std::fs::remove_file(&file_path);
        let job = job_of(case, Some(file_path.to_str().unwrap()));
        let input = serde_json::to_vec(&job).unwrap();
        let mut child = Command::new(&self.child_exe)
            .arg(&yaml_path)
            .env_remove("FIBRE_LOGGING_VERBOSE")
            .stdin(Stdio::piped())
            .stdout(Stdio::piped())
            .stderr(Stdio::piped())
            .spawn()
            .map_err(|e| RunError::Crash(format!("spawn: {e}")))?;
        let mut stdin = child.stdin.take().unwrap();
        let mut stdout = child.stdout.take().unwrap();
        let mut stderr = child.stderr.take().unwrap();
        *self.slots[slot].lock().unwrap() = Some(Running { child, started: Instant::now(), killed: false });
        let _ = stdin.write_all(&input);
        drop(stdin);
        let mut buf = Vec::new();
        let _ = stdout.read_to_end(&mut buf);
        let mut err = Vec::new();
        let _ = stderr.read_to_end(&mut err);
        let mut r = self.slots[slot].lock().unwrap().take().unwrap();
        let status = r.child.wait();
        let _ = std::fs::remove_file(&yaml_path);
        let _ = std::fs::remove_file(&file_path);
        if r.killed {
            return Err(RunError::Timeout);
        }
        let status = status.map_err(|e| RunError::Crash(format!("wait: {e}")))?;
        let tail = |e: &[u8]| String::from_utf8_lossy(&e[e.len().saturating_sub(600)..]).to_string();
        if !status.success() {
            return Err(RunError::Crash(format!("driver exited with {status}: {}", tail(&err))));
        }
        serde_json::from_slice::<ChildOut>(&buf).map_err(|e| RunError::Crash(format!("unparsable driver output ({e}): {}", tail(&err))))
    }

    /// one retry for hangs/crashes: a failure that does not repeat is machinery noise
    pub fn run(&self, slot: usize, case: &Case) -> (Result<ChildOut, RunError>, u32) {
        match self.run_once(slot, case) {
            Ok(o) => (Ok(o), 1),
            Err(_) => (self.run_once(slot, case), 2),
        }
    }
    pub fn cleanup(&self) {
        for z in &self.zygotes {
            if let Some(mut z) = z.lock().unwrap().take() {
                drop(z.stdin); // EOF: the zygote returns from its loop
                let _ = z.child.wait();
            }
        }
        let pid = std::process::id();
        if let Ok(rd) = std::fs::read_dir(&self.tmp) {
            for e in rd.flatten() {
                if e.file_name().to_string_lossy().starts_with(&format!("{pid}-")) {
                    let _ = std::fs::remove_file(e.path());
                }
            }
        }
        let _ = std::fs::remove_dir(&self.tmp); // only if empty
    }
}
