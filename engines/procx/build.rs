// The driver is started once per configuration: link it as a fixed-address executable so the
// dynamic loader has no relative relocations to apply (~13k in the PIE build, one
// copy-on-write page fault per touched RELRO page) at every start.
fn main() {
    println!("cargo:rustc-link-arg-bin=procx_child=-no-pie");
    println!("cargo:rerun-if-changed=build.rs");
}
