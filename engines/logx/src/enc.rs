//! C20 part 1: JSON-lines and pattern encoders, exhaustive over bounded event contents / patterns.
use crate::par::par_map;
use crate::{Best, Finding};
use chrono::{DateTime, TimeZone, Utc};
use fibre_logging::config::processed::{EncoderInternal, JsonLinesEncoderInternal, PatternEncoderInternal};
use fibre_logging::{LogEvent, LogValue};
use serde::{Deserialize, Serialize};
use serde_json::{json, Value};
use std::collections::{BTreeMap, HashSet};
use std::panic::{catch_unwind, AssertUnwindSafe};
use tracing::Level;
use vcommon::{fnv, Scenario, Timer};

pub const ALPHA: [&str; 8] = ["a", "\"", "\\", "\n", "\u{1}", "é", "\u{2028}", "{"];
const LEVELS: [&str; 5] = ["ERROR", "WARN", "INFO", "DEBUG", "TRACE"];

fn level_of(s: &str) -> Level {
    match s {
        "ERROR" => Level::ERROR,
        "WARN" => Level::WARN,
        "INFO" => Level::INFO,
        "DEBUG" => Level::DEBUG,
        _ => Level::TRACE,
    }
}

fn fixed_ts() -> DateTime<Utc> {
    Utc.with_ymd_and_hms(2024, 2, 28, 23, 59, 59).unwrap() + chrono::Duration::milliseconds(123)
}

/// "" first, then every string of length 1..=max_len over ALPHA, shortest first.
pub fn strings(max_len: usize) -> Vec<String> {
    let mut out = vec![String::new()];
    let mut layer = vec![String::new()];
    for _ in 0..max_len {
        let mut next = Vec::with_capacity(layer.len() * ALPHA.len());
        for p in &layer {
            for a in ALPHA {
                let mut s = p.clone();
                s.push_str(a);
                next.push(s);
            }
        }
        out.extend(next.iter().cloned());
        layer = next;
    }
    out
}

/// characters the JSON grammar forces to be escaped inside a string
pub fn needs_escaping(s: &str) -> bool {
    s.chars().any(|c| c == '"' || c == '\\' || (c as u32) < 0x20)
}

fn long_strings() -> Vec<String> {
    let mut cyc = String::new();
    let mut i = 0;
    while cyc.len() < 10_240 {
        cyc.push_str(ALPHA[i % ALPHA.len()]);
        i += 1;
    }
    vec!["a".repeat(10_240), cyc]
}

// ------------------------------------------------------------------------------------------------
// JSON
// ------------------------------------------------------------------------------------------------

#[derive(Serialize, Deserialize, Clone, Debug, PartialEq)]
pub enum FieldVal {
    Str(String),
    Int(i64),
    /// f64 bit pattern (NaN/inf are not representable in a JSON replay file)
    FloatBits(u64),
    Bool(bool),
    Debug(String),
}

impl FieldVal {
    fn to_log(&self) -> LogValue {
        match self {
            FieldVal::Str(s) => LogValue::String(s.clone()),
            FieldVal::Int(i) => LogValue::Int(*i),
            FieldVal::FloatBits(b) => LogValue::Float(f64::from_bits(*b)),
            FieldVal::Bool(b) => LogValue::Bool(*b),
            FieldVal::Debug(s) => LogValue::Debug(s.clone()),
        }
    }
    fn type_class(&self) -> &'static str {
        match self {
            FieldVal::Str(_) => "string",
            FieldVal::Int(_) => "int",
            FieldVal::FloatBits(b) => {
                if f64::from_bits(*b).is_finite() {
                    "float"
                } else {
                    "float_nonfinite"
                }
            }
            FieldVal::Bool(_) => "bool",
            FieldVal::Debug(_) => "debug",
        }
    }
}

#[derive(Serialize, Deserialize, Clone, Debug)]
pub struct JsonCase {
    /// which part of the event carries the varied content (goes into the fingerprint)
    pub class: String,
    pub flatten: bool,
    pub level: String,
    pub target: String,
    pub message: Option<String>,
    pub fields: Vec<(String, FieldVal)>,
    pub thread_name: Option<String>,
}

fn build_event(level: &str, target: &str, message: &Option<String>, fields: &[(String, FieldVal)], thread_name: &Option<String>) -> LogEvent {
    let mut ev = LogEvent::new(level_of(level), target.to_string(), "ev", message.clone());
    ev.timestamp = fixed_ts();
    ev.thread_name = thread_name.clone();
    for (k, v) in fields {
        ev.fields.insert(k.clone(), v.to_log());
    }
    ev
}

fn show(s: &str) -> String {
    let d = format!("{:?}", s);
    if d.len() > 80 {
        format!("{}…(+{} bytes)", d.chars().take(60).collect::<String>(), s.len())
    } else {
        d
    }
}

pub struct JsonOutcome {
    pub out_hash: u64,
    /// (rule, class, message)
    pub bad: Vec<(String, String, String)>,
    /// how a non-finite float was rendered, when the case had one
    pub nonfinite_rendering: Vec<(String, String)>,
}

/// Runs one event through the real JSON-lines encoder and evaluates the C20 record rules.
pub fn check_json(case: &JsonCase) -> JsonOutcome {
    let mut bad = Vec::new();
    let mut nonfinite = Vec::new();
    let class = case.class.clone();
    let formatter = fibre_logging::verif::new_event_formatter(&EncoderInternal::JsonLines(JsonLinesEncoderInternal { flatten_fields: case.flatten }));
    let ev = build_event(&case.level, &case.target, &case.message, &case.fields, &case.thread_name);
    let res = catch_unwind(AssertUnwindSafe(|| formatter.format_event(&ev)));
    let out = match res {
        Err(_) => {
            bad.push(("panic".into(), class, "JSON encoder panicked".into()));
            return JsonOutcome { out_hash: 0, bad, nonfinite_rendering: nonfinite };
        }
        Ok(Err(e)) => {
            bad.push(("error".into(), class, format!("JSON encoder returned an error instead of a record: {e}")));
            return JsonOutcome { out_hash: 1, bad, nonfinite_rendering: nonfinite };
        }
        Ok(Ok(b)) => b,
    };
    let out_hash = fnv(&out);
    // -- exactly one line: terminated by one '\n', no raw line break inside. JSON-lines readers split on
    //    '\n' (and tolerate "\r\n"); U+2028/U+2029 are legal raw characters inside a JSON string and are
    //    not line terminators for a JSON-lines reader, so they are not demanded to be escaped.
    let body: &[u8] = if out.last() == Some(&b'\n') { &out[..out.len() - 1] } else { &out[..] };
    if out.last() != Some(&b'\n') {
        bad.push(("one_line".into(), class.clone(), "record is not terminated by a newline".into()));
    }
    if let Some(p) = body.iter().position(|b| *b == b'\n' || *b == b'\r') {
        bad.push(("one_line".into(), class.clone(), format!("raw line break (byte {:#04x}) inside the record at offset {}", body[p], p)));
    }
    // -- valid JSON object
    let v: Value = match serde_json::from_slice(body) {
        Ok(v) => v,
        Err(e) => {
            bad.push(("valid_json".into(), class, format!("record does not parse as JSON: {e}; record={}", show(&String::from_utf8_lossy(body)))));
            return JsonOutcome { out_hash, bad, nonfinite_rendering: nonfinite };
        }
    };
    let obj = match v.as_object() {
        Some(o) => o,
        None => {
            bad.push(("valid_json".into(), class, "record is valid JSON but not an object".into()));
            return JsonOutcome { out_hash, bad, nonfinite_rendering: nonfinite };
        }
    };
    // -- round trip of level / target / message
    match obj.get("level").and_then(|l| l.as_str()).and_then(|l| l.parse::<Level>().ok()) {
        Some(l) if l == level_of(&case.level) => {}
        _ => bad.push(("roundtrip_level".into(), class.clone(), format!("level {} came back as {:?}", case.level, obj.get("level")))),
    }
    if obj.get("target").and_then(|t| t.as_str()) != Some(case.target.as_str()) {
        bad.push(("roundtrip_target".into(), class.clone(), format!("target {} came back as {}", show(&case.target), obj.get("target").map(|x| show(&x.to_string())).unwrap_or("<absent>".into()))));
    }
    if let Some(m) = &case.message {
        if obj.get("message").and_then(|t| t.as_str()) != Some(m.as_str()) {
            bad.push(("roundtrip_message".into(), class.clone(), format!("message {} came back as {}", show(m), obj.get("message").map(|x| show(&x.to_string())).unwrap_or("<absent>".into()))));
        }
    }
    // -- round trip of fields
    if !case.fields.is_empty() {
        let container = if case.flatten { Some(obj) } else { obj.get("fields").and_then(|f| f.as_object()) };
        match container {
            None => bad.push(("roundtrip_field".into(), class.clone(), "event has fields but the record has no \"fields\" object".into())),
            Some(c) => {
                for (k, fv) in &case.fields {
                    let got = c.get(k);
                    let ok = match (fv, got) {
                        (_, None) => false,
                        (FieldVal::Str(s), Some(g)) | (FieldVal::Debug(s), Some(g)) => g.as_str() == Some(s.as_str()),
                        (FieldVal::Int(i), Some(g)) => g.as_i64() == Some(*i),
                        (FieldVal::Bool(b), Some(g)) => g.as_bool() == Some(*b),
                        (FieldVal::FloatBits(bits), Some(g)) => {
                            let f = f64::from_bits(*bits);
                            if f.is_finite() {
                                g.is_number() && g.as_f64().map(|x| x.to_bits()) == Some(*bits)
                            } else {
                                // JSON has no NaN/Infinity: the property can only require a valid record in
                                // which the field is still present; what it is rendered as is recorded.
                                nonfinite.push((format!("{f}"), g.to_string()));
                                true
                            }
                        }
                    };
                    if !ok {
                        let fclass = if class.starts_with("value") { format!("value.{}", fv.type_class()) } else { class.clone() };
                        bad.push((
                            "roundtrip_field".into(),
                            fclass,
                            format!("field {}={:?} came back as {} (flatten_fields={})", show(k), fv, got.map(|x| show(&x.to_string())).unwrap_or("<absent>".into()), case.flatten),
                        ));
                    }
                }
            }
        }
    }
    JsonOutcome { out_hash, bad, nonfinite_rendering: nonfinite }
}

fn json_cases(max_len: usize) -> Vec<JsonCase> {
    let mut strs = strings(max_len);
    strs.extend(long_strings());
    let mut cases = Vec::new();
    let base = |class: &str, flatten: bool, i: usize| JsonCase {
        class: class.into(),
        flatten,
        level: LEVELS[i % 5].into(),
        target: "app::mod".into(),
        message: Some("msg".into()),
        fields: vec![("k".into(), FieldVal::Str("v".into()))],
        thread_name: if i % 2 == 0 { Some("main".into()) } else { None },
    };
    for flatten in [false, true] {
        for (i, s) in strs.iter().enumerate() {
            let mut c = base("message", flatten, i);
            c.message = Some(s.clone());
            cases.push(c);
            let mut c = base("target", flatten, i);
            c.target = s.clone();
            cases.push(c);
            let mut c = base("field_key", flatten, i);
            c.fields = vec![(s.clone(), FieldVal::Str("v".into()))];
            cases.push(c);
            let mut c = base("field_value", flatten, i);
            c.fields = vec![("k".into(), FieldVal::Str(s.clone()))];
            cases.push(c);
            let mut c = base("all_positions", flatten, i);
            c.message = Some(s.clone());
            c.target = s.clone();
            c.fields = vec![(s.clone(), FieldVal::Str(s.clone()))];
            cases.push(c);
        }
        // every supported value type
        let floats = [0.0f64, -0.0, 0.1, -1.5, 1.0 / 3.0, 1e300, -1e-300, f64::MAX, f64::MIN, f64::MIN_POSITIVE, 5e-324, f64::EPSILON, f64::NAN, f64::INFINITY, f64::NEG_INFINITY];
        let mut vals: Vec<FieldVal> = vec![FieldVal::Int(0), FieldVal::Int(-1), FieldVal::Int(i64::MIN), FieldVal::Int(i64::MAX), FieldVal::Bool(true), FieldVal::Bool(false)];
        vals.extend(floats.iter().map(|f| FieldVal::FloatBits(f.to_bits())));
        for a in ALPHA {
            vals.push(FieldVal::Debug(format!("D{a}")));
            vals.push(FieldVal::Str(format!("S{a}")));
        }
        for (i, v) in vals.iter().enumerate() {
            let mut c = base("value", flatten, i);
            c.fields = vec![("k".into(), v.clone())];
            cases.push(c);
        }
        // all of them in one event, keys from the alphabet
        let mut c = base("value_multi", flatten, 0);
        c.fields = vals.iter().enumerate().map(|(i, v)| (format!("k{}{}", i, ALPHA[i % 8]), v.clone())).collect();
        cases.push(c);
        // no message at all, all five levels
        for i in 0..5 {
            let mut c = base("no_message", flatten, i);
            c.message = None;
            cases.push(c);
        }
        // field keys that coincide with the record's own top-level member names
        for k in ["timestamp", "level", "target", "message", "name", "fields", "thread_name", "span_id"] {
            let mut c = base(if flatten { "reserved_key.flatten" } else { "reserved_key.nested" }, flatten, 0);
            c.fields = vec![(k.into(), FieldVal::Str("user-value".into()))];
            cases.push(c);
        }
    }
    cases
}

pub fn run_json(tier: &str, jobs: usize, best: &mut Best) -> Scenario {
    let t = Timer::start();
    let max_len = if tier == "quick" { 3 } else { 5 };
    let cases = json_cases(max_len);
    let chunks: Vec<&[JsonCase]> = cases.chunks(512).collect();
    let results = par_map(&chunks, jobs, |_, _, chunk| {
        let mut hashes = Vec::with_capacity(chunk.len());
        let mut finds: Vec<Finding> = Vec::new();
        let mut nontrivial = 0u64;
        let mut nonfinite: Vec<(String, String)> = Vec::new();
        for c in chunk.iter() {
            let o = check_json(c);
            hashes.push(o.out_hash);
            nonfinite.extend(o.nonfinite_rendering);
            let esc = c.message.as_deref().map(needs_escaping).unwrap_or(false)
                || needs_escaping(&c.target)
                || c.fields.iter().any(|(k, v)| needs_escaping(k) || matches!(v, FieldVal::Str(s) | FieldVal::Debug(s) if needs_escaping(s)));
            if esc {
                nontrivial += 1;
            }
            for (rule, class, msg) in o.bad {
                // re-execute once more from scratch before believing it
                let again = check_json(c);
                if !again.bad.iter().any(|(r, k, _)| *r == rule && *k == class) {
                    panic!("machinery: JSON case did not fail twice: {:?}", c);
                }
                finds.push(Finding {
                    fingerprint: format!("logx/json/C20.{rule}/{class}"),
                    message: msg,
                    scenario: "json_lines_encoder".into(),
                    replay: json!({"kind": "json", "case": c}),
                });
            }
        }
        (hashes, finds, nontrivial, nonfinite)
    });
    let mut distinct = HashSet::new();
    let mut nontrivial = 0;
    let mut nonfinite: BTreeMap<String, String> = BTreeMap::new();
    for (hashes, finds, nt, nf) in results {
        distinct.extend(hashes);
        nontrivial += nt;
        for f in finds {
            best.push(f);
        }
        for (k, v) in nf {
            nonfinite.insert(k, v);
        }
    }
    let n = cases.len() as u64;
    let mut bound = BTreeMap::new();
    bound.insert("alphabet".into(), json!(ALPHA));
    bound.insert("max_string_len".into(), json!(max_len));
    bound.insert("extra_strings".into(), json!(["", "10240 x 'a'", "10 kB cycling the alphabet"]));
    bound.insert("placements".into(), json!(["message", "target", "field_key", "field_value", "all_positions"]));
    bound.insert("flatten_fields".into(), json!([false, true]));
    bound.insert("value_types".into(), json!(["String", "Int(0,-1,MIN,MAX)", "Float(12 finite incl. -0.0, subnormal, MAX; NaN, +inf, -inf)", "Bool", "Debug"]));
    bound.insert("nonfinite_float_rendered_as".into(), json!(nonfinite));
    bound.insert("reserved_member_names_as_field_keys".into(), json!(["timestamp", "level", "target", "message", "name", "fields", "thread_name", "span_id"]));
    Scenario {
        name: "json_lines_encoder".into(),
        properties: vec!["C20".into()],
        executions: n,
        states: n,
        transitions: n,
        distinct_outcomes: distinct.len() as u64,
        nontrivial,
        nontrivial_rule: "event contains at least one character that JSON must escape (quote, backslash, control)".into(),
        exhaustive: true,
        caps: vec![],
        bound,
        samples: vec![serde_json::to_value(&cases[5 * 13 + 0]).unwrap(), serde_json::to_value(&cases[5 * 200 + 4]).unwrap()],
        wall_s: t.secs(),
    }
}

// ------------------------------------------------------------------------------------------------
// pattern
// ------------------------------------------------------------------------------------------------

#[derive(Serialize, Deserialize, Clone, Debug)]
pub struct PatternCase {
    pub pattern: String,
    pub message: Option<String>,
    pub level: String,
    pub target: String,
}

/// One item of the pattern language as the documentation/regex of pattern.rs defines it.
#[derive(Debug, Clone, PartialEq)]
pub struct Spec {
    pub conv: char,
    pub padded: bool,
    pub options: Option<String>,
}

/// Reference tokenizer of the pattern language: `%%` | `%[-]digits? letter [{options}]` | literal text.
pub fn pattern_specs(p: &str) -> Vec<Spec> {
    let b: Vec<char> = p.chars().collect();
    let mut out = Vec::new();
    let mut i = 0;
    while i < b.len() {
        if b[i] != '%' {
            i += 1;
            continue;
        }
        // try a specifier first
        let mut j = i + 1;
        let pad_start = j;
        if j < b.len() && b[j] == '-' {
            j += 1;
        }
        let dig_start = j;
        while j < b.len() && b[j].is_ascii_digit() {
            j += 1;
        }
        let padded = j > dig_start;
        if !padded {
            j = pad_start; // a lone '-' is not padding
        }
        if j < b.len() && b[j].is_ascii_alphabetic() {
            let conv = b[j];
            j += 1;
            let mut options = None;
            if j < b.len() && b[j] == '{' {
                if let Some(close) = (j + 1..b.len()).find(|&k| b[k] == '}') {
                    if close > j + 1 {
                        options = Some(b[j + 1..close].iter().collect::<String>());
                        j = close + 1;
                    }
                }
            }
            out.push(Spec { conv, padded, options });
            i = j;
            continue;
        }
        if i + 1 < b.len() && b[i + 1] == '%' {
            i += 2; // escaped percent
            continue;
        }
        i += 1; // stray '%': literal
    }
    out
}

pub fn directives() -> Vec<String> {
    let mut d: Vec<String> = Vec::new();
    for conv in ["m", "p", "l", "t", "T", "n", "d", "X"] {
        for pad in ["", "0", "1", "5", "-1", "-5"] {
            d.push(format!("%{pad}{conv}"));
        }
    }
    for s in ["%d{%Y-%m-%d %H:%M:%S}", "%d{%H:%M:%S%.3f}", "%-5d{%Y}", "%X{k}", "%5X{k}", "%X{absent}", "%%"] {
        d.push(s.to_string());
    }
    for lit in [" ", "[", "]", "{", "}", "é", "a", "\n"] {
        d.push(lit.to_string());
    }
    d
}

fn pattern_messages() -> Vec<Option<String>> {
    let mut m: Vec<Option<String>> = ALPHA.iter().map(|a| Some(a.to_string())).collect();
    m.push(Some(String::new()));
    m.push(Some(ALPHA.concat()));
    m.push(Some("%m%n%5p{x}%%".into()));
    m.push(None);
    m
}

pub struct PatternOutcome {
    pub out_hash: u64,
    pub bad: Vec<(String, String, String)>,
}

/// Formats with an already constructed formatter (construction is shared by all messages of a pattern).
fn check_pattern_with(formatter: &dyn fibre_logging::encoders::EventFormatter, specs: &[Spec], case: &PatternCase) -> PatternOutcome {
    let mut bad = Vec::new();
    let fields = vec![
        ("k".to_string(), FieldVal::Str("fv".into())),
        ("nan".to_string(), FieldVal::FloatBits(f64::NAN.to_bits())),
        (ALPHA.concat(), FieldVal::Debug(ALPHA.concat())),
    ];
    let ev = build_event(&case.level, &case.target, &case.message, &fields, &Some("main".into()));
    let res = catch_unwind(AssertUnwindSafe(|| formatter.format_event(&ev)));
    let mclass = |specs: &[Spec]| {
        let ms: Vec<&Spec> = specs.iter().filter(|s| s.conv == 'm').collect();
        if ms.iter().any(|s| !s.padded && s.options.is_none()) {
            "m.plain"
        } else if ms.iter().any(|s| s.padded) {
            "m.padded"
        } else if !ms.is_empty() {
            "m.with_options"
        } else {
            "no_m"
        }
    };
    let out = match res {
        Err(_) => {
            bad.push(("panic".into(), mclass(specs).to_string(), format!("pattern encoder panicked on pattern {} message {:?}", show(&case.pattern), case.message)));
            return PatternOutcome { out_hash: 0, bad };
        }
        Ok(Err(e)) => {
            bad.push(("error".into(), mclass(specs).to_string(), format!("pattern encoder returned an error: {e}")));
            return PatternOutcome { out_hash: 1, bad };
        }
        Ok(Ok(b)) => b,
    };
    let out_hash = fnv(&out);
    let contains = |needle: &[u8]| needle.is_empty() || out.windows(needle.len()).any(|w| w == needle);
    // the pattern language has padding (minimum width) but no truncation, so every %m is un-truncated
    if specs.iter().any(|s| s.conv == 'm') {
        if let Some(m) = &case.message {
            if !contains(m.as_bytes()) {
                bad.push(("message_verbatim".into(), mclass(specs).to_string(), format!("pattern {} rendered message {} as {}", show(&case.pattern), show(m), show(&String::from_utf8_lossy(&out)))));
            }
        }
    }
    if specs.iter().any(|s| s.conv == 'p' || s.conv == 'l') && !contains(case.level.as_bytes()) {
        bad.push(("directive_rendered".into(), "level".into(), format!("pattern {} did not render level {}: {}", show(&case.pattern), case.level, show(&String::from_utf8_lossy(&out)))));
    }
    if specs.iter().any(|s| s.conv == 't') && !contains(case.target.as_bytes()) {
        bad.push(("directive_rendered".into(), "target".into(), format!("pattern {} did not render target {}: {}", show(&case.pattern), show(&case.target), show(&String::from_utf8_lossy(&out)))));
    }
    PatternOutcome { out_hash, bad }
}

pub fn check_pattern(case: &PatternCase) -> PatternOutcome {
    let specs = pattern_specs(&case.pattern);
    let pat = case.pattern.clone();
    let made = catch_unwind(AssertUnwindSafe(|| fibre_logging::verif::new_event_formatter(&EncoderInternal::Pattern(PatternEncoderInternal { pattern_string: pat }))));
    match made {
        Err(_) => PatternOutcome { out_hash: 0, bad: vec![("panic".into(), "construct".into(), format!("constructing the pattern encoder for {} panicked", show(&case.pattern)))] },
        Ok(f) => check_pattern_with(&*f, &specs, case),
    }
}

pub fn run_pattern(tier: &str, jobs: usize, best: &mut Best) -> Scenario {
    let t = Timer::start();
    let max_dir = if tier == "quick" { 2 } else { 3 };
    let dirs = directives();
    let msgs = pattern_messages();
    let long_msgs: Vec<Option<String>> = long_strings().into_iter().map(Some).collect();
    // work items: the first directive (index) — each worker enumerates all continuations
    let firsts: Vec<usize> = (0..dirs.len()).collect();
    let results = par_map(&firsts, jobs, |_, _, &f0| {
        let mut hashes: HashSet<u64> = HashSet::new();
        let mut finds: Vec<Finding> = Vec::new();
        let (mut execs, mut nontrivial, mut npat) = (0u64, 0u64, 0u64);
        let mut sample: Option<Value> = None;
        let mut pats: Vec<String> = vec![dirs[f0].clone()];
        let mut layer = pats.clone();
        for _ in 1..max_dir {
            let mut next = Vec::new();
            for p in &layer {
                for d in &dirs {
                    next.push(format!("{p}{d}"));
                }
            }
            pats.extend(next.iter().cloned());
            layer = next;
        }
        for (pi, pat) in pats.iter().enumerate() {
            npat += 1;
            let specs = pattern_specs(pat);
            let made = catch_unwind(AssertUnwindSafe(|| fibre_logging::verif::new_event_formatter(&EncoderInternal::Pattern(PatternEncoderInternal { pattern_string: pat.clone() }))));
            let single = pi == 0;
            for (mi, m) in msgs.iter().chain(long_msgs.iter().filter(|_| single)).enumerate() {
                let case = PatternCase { pattern: pat.clone(), message: m.clone(), level: LEVELS[(pi + mi) % 5].into(), target: "app::mod".into() };
                execs += 1;
                if m.as_deref().map(needs_escaping).unwrap_or(false) {
                    nontrivial += 1;
                }
                let o = match &made {
                    Ok(f) => check_pattern_with(&**f, &specs, &case),
                    Err(_) => check_pattern(&case),
                };
                hashes.insert(o.out_hash);
                if sample.is_none() && pi == pats.len() / 2 && mi == 3 {
                    sample = Some(serde_json::to_value(&case).unwrap());
                }
                for (rule, class, msg) in o.bad {
                    let again = check_pattern(&case);
                    if !again.bad.iter().any(|(r, k, _)| *r == rule && *k == class) {
                        panic!("machinery: pattern case did not fail twice: {:?}", case);
                    }
                    finds.push(Finding { fingerprint: format!("logx/pattern/C20.{rule}/{class}"), message: msg, scenario: "pattern_encoder".into(), replay: json!({"kind": "pattern", "case": case}) });
                }
            }
        }
        (hashes, finds, execs, nontrivial, npat, sample)
    });
    let mut distinct: HashSet<u64> = HashSet::new();
    let (mut execs, mut nontrivial, mut npat) = (0, 0, 0);
    let mut samples = Vec::new();
    for (h, finds, e, nt, np, s) in results {
        distinct.extend(h);
        execs += e;
        nontrivial += nt;
        npat += np;
        for f in finds {
            best.push(f);
        }
        if let Some(s) = s {
            if samples.len() < 2 {
                samples.push(s);
            }
        }
    }
    let mut bound = BTreeMap::new();
    bound.insert("directive_alphabet".into(), json!(dirs));
    bound.insert("max_directives".into(), json!(max_dir));
    bound.insert("patterns".into(), json!(npat));
    bound.insert("messages".into(), json!(msgs));
    bound.insert("extra_messages_for_single_directive_patterns".into(), json!(["10240 x 'a'", "10 kB cycling the alphabet"]));
    bound.insert("note".into(), json!("the pattern language has minimum-width padding only (no truncation), so every %m must reproduce the message verbatim"));
    Scenario {
        name: "pattern_encoder".into(),
        properties: vec!["C20".into()],
        executions: execs,
        states: execs,
        transitions: execs,
        distinct_outcomes: distinct.len() as u64,
        nontrivial,
        nontrivial_rule: "message contains at least one quote, backslash or control character".into(),
        exhaustive: true,
        caps: vec![],
        bound,
        samples,
        wall_s: t.secs(),
    }
}
