//! C20 part 2: the real rolling file writer (hook H6) driven through every bounded history of
//! writes, clock steps and restarts, compared with the list of records written.
use crate::par::par_map;
use crate::{Best, Finding};
use chrono::{DateTime, Duration, TimeZone, Timelike, Utc};
use fibre_logging::config::processed::{CompressionPolicyInternal, RollingPolicyInternal};
use fibre_logging::verif::Roller;
use serde::{Deserialize, Serialize};
use serde_json::{json, Value};
use std::collections::{BTreeMap, BTreeSet, HashSet};
use std::io::Read;
use std::panic::{catch_unwind, AssertUnwindSafe};
use std::path::{Path, PathBuf};
use vcommon::{fnv, Scenario, Timer};

const PREFIX: &str = "app";
const SUFFIX: &str = ".log";
const GZ: &str = ".gz";

#[derive(Serialize, Deserialize, Clone, Debug, PartialEq)]
pub struct Policy {
    pub size: Option<u64>,
    /// never | minutely | hourly | daily
    pub period: String,
    pub retention: Option<u32>,
    /// off | gz0 (compress every rolled file at once) | gz1 (newest rolled file stays uncompressed)
    pub compression: String,
    /// true: flush after every write (state on disk after every step); false: production-like,
    /// the roller's BufWriter is only flushed by rolls, restarts and once at the end
    pub flush_each_write: bool,
}

impl Policy {
    fn internal(&self, dir: &Path) -> RollingPolicyInternal {
        RollingPolicyInternal {
            directory: dir.to_path_buf(),
            file_name_prefix: PREFIX.into(),
            file_name_suffix: SUFFIX.into(),
            time_granularity: self.period.clone(),
            max_file_size: self.size,
            max_retained_sequences: self.retention,
            compression: match self.compression.as_str() {
                "gz0" => Some(CompressionPolicyInternal { compressed_file_suffix: GZ.into(), max_uncompressed_sequences: 0 }),
                "gz1" => Some(CompressionPolicyInternal { compressed_file_suffix: GZ.into(), max_uncompressed_sequences: 1 }),
                _ => None,
            },
        }
    }
    fn period_len(&self) -> Duration {
        match self.period.as_str() {
            "minutely" => Duration::minutes(1),
            "hourly" => Duration::hours(1),
            _ => Duration::days(1), // daily; for "never" a whole day must still not roll
        }
    }
    fn period_of(&self, t: DateTime<Utc>) -> DateTime<Utc> {
        match self.period.as_str() {
            "minutely" => t.with_second(0).unwrap().with_nanosecond(0).unwrap(),
            "hourly" => t.with_minute(0).unwrap().with_second(0).unwrap().with_nanosecond(0).unwrap(),
            "never" => DateTime::<Utc>::UNIX_EPOCH,
            _ => t.with_hour(0).unwrap().with_minute(0).unwrap().with_second(0).unwrap().with_nanosecond(0).unwrap(),
        }
    }
    pub fn alphabet(&self) -> Vec<Act> {
        let mut a = Vec::new();
        match self.size {
            Some(l) => a.extend([Act::W(2), Act::W(l - 1), Act::W(l), Act::W(l + 1)]),
            None => a.extend([Act::W(2), Act::W(9)]),
        }
        a.extend([Act::S1, Act::SP, Act::R]);
        a
    }
}

#[derive(Clone, Copy, Debug, PartialEq)]
pub enum Act {
    /// write one newline-terminated record of this many bytes
    W(u64),
    /// clock + 1 s
    S1,
    /// clock + 1 period
    SP,
    /// drop the roller and open a new one over the same directory
    R,
}

impl Act {
    pub fn name(&self) -> String {
        match self {
            Act::W(n) => format!("W{n}"),
            Act::S1 => "S1".into(),
            Act::SP => "SP".into(),
            Act::R => "R".into(),
        }
    }
    pub fn parse(s: &str) -> Option<Act> {
        match s {
            "S1" => Some(Act::S1),
            "SP" => Some(Act::SP),
            "R" => Some(Act::R),
            _ => s.strip_prefix('W').and_then(|n| n.parse().ok()).map(Act::W),
        }
    }
}

/// One second before a minute, hour and day boundary at once (2024 is a leap year: the next day is
/// Feb 29), so `S1` crosses a period boundary whenever the clock sits on second 59 of a period end and
/// stays inside the period otherwise; `SP` always crosses exactly one boundary.
fn t0() -> DateTime<Utc> {
    Utc.with_ymd_and_hms(2024, 2, 28, 23, 59, 59).unwrap()
}

/// record i: (len-1) copies of the i-th letter, then '\n'
fn record(i: usize, len: u64) -> Vec<u8> {
    let mut r = vec![b'a' + (i as u8 % 26); len as usize - 1];
    r.push(b'\n');
    r
}

#[derive(Clone, Debug)]
struct FileObs {
    period: String,
    seq: u32,
    gz: bool,
    /// bytes on disk (kept for compressed files only: lets the next observation skip re-inflating)
    raw: Vec<u8>,
    /// logical content (gunzipped when compressed)
    content: Vec<u8>,
    broken: Option<String>,
}

/// open + read + close; the files of this harness are a few dozen bytes
fn read_small(path: &Path) -> Vec<u8> {
    let mut out = Vec::new();
    if let Ok(mut f) = std::fs::File::open(path) {
        let mut buf = [0u8; 512];
        loop {
            match f.read(&mut buf) {
                Ok(0) => break,
                Ok(n) => {
                    out.extend_from_slice(&buf[..n]);
                    if n < buf.len() {
                        break; // short read on a regular file = end of file
                    }
                }
                Err(e) if e.kind() == std::io::ErrorKind::Interrupted => {}
                Err(_) => break,
            }
        }
    }
    out
}

#[derive(Clone, Debug, Default)]
struct Obs {
    rolled: Vec<FileObs>,
    active: Option<Vec<u8>>,
    unexpected: Vec<String>,
}

impl Obs {
    fn keys(&self) -> BTreeSet<(String, u32)> {
        self.rolled.iter().map(|f| (f.period.clone(), f.seq)).collect()
    }
    fn hash(&self) -> u64 {
        let mut b = Vec::new();
        for f in &self.rolled {
            b.extend(format!("{}.{}.{}|", f.period, f.seq, f.gz).as_bytes());
            b.extend(&f.content);
            b.push(0);
        }
        b.extend(b"active|");
        if let Some(a) = &self.active {
            b.extend(a);
        }
        fnv(&b)
    }
    fn describe(&self) -> String {
        let mut s = String::new();
        for f in &self.rolled {
            s.push_str(&format!("{PREFIX}.{}.{}{SUFFIX}{}={} ", f.period, f.seq, if f.gz { GZ } else { "" }, brief(&f.content)));
        }
        s.push_str(&format!("{PREFIX}{SUFFIX}={}", self.active.as_ref().map(|a| brief(a)).unwrap_or("<absent>".into())));
        s
    }
}

/// printable, run-length abbreviated rendering of file content (records can be 10 kB)
fn brief(b: &[u8]) -> String {
    let mut out = String::from("\"");
    let mut i = 0;
    while i < b.len() {
        let mut j = i;
        while j < b.len() && b[j] == b[i] {
            j += 1;
        }
        let c = match b[i] {
            b'\n' => "\\n".to_string(),
            c if c.is_ascii_graphic() || c == b' ' => (c as char).to_string(),
            c => format!("\\x{c:02x}"),
        };
        if j - i > 9 {
            out.push_str(&format!("{c}*{}", j - i));
        } else {
            for _ in i..j {
                out.push_str(&c);
            }
        }
        i = j;
    }
    out.push('"');
    out
}

fn valid_period(p: &str) -> bool {
    let shape = |s: &str, pat: &str| s.len() == pat.len() && s.bytes().zip(pat.bytes()).all(|(c, q)| if q == b'd' { c.is_ascii_digit() } else { c == q });
    shape(p, "dddd-dd-dd") || shape(p, "dddd-dd-dd_dd-dd-dd")
}

fn observe(dir: &Path, before: Option<&Obs>) -> Obs {
    let mut o = Obs::default();
    let mut names: Vec<String> = std::fs::read_dir(dir).map(|rd| rd.filter_map(|e| e.ok()).map(|e| e.file_name().to_string_lossy().to_string()).collect()).unwrap_or_default();
    names.sort();
    for n in names {
        let path = dir.join(&n);
        let raw = read_small(&path);
        if n == format!("{PREFIX}{SUFFIX}") {
            o.active = Some(raw);
            continue;
        }
        let (core, gz) = match n.strip_suffix(GZ) {
            Some(c) => (c, true),
            None => (n.as_str(), false),
        };
        let parsed = core.strip_prefix(&format!("{PREFIX}.")).and_then(|r| r.strip_suffix(SUFFIX)).and_then(|mid| {
            let (period, seq) = mid.rsplit_once('.')?;
            let seq: u32 = seq.parse().ok()?;
            if valid_period(period) {
                Some((period.to_string(), seq))
            } else {
                None
            }
        });
        match parsed {
            None => o.unexpected.push(n),
            Some((period, seq)) => {
                if !gz {
                    o.rolled.push(FileObs { period, seq, gz, raw: Vec::new(), content: raw, broken: None });
                    continue;
                }
                let cached = before.and_then(|b| b.rolled.iter().find(|f| f.gz && f.seq == seq && f.period == period && f.raw == raw));
                let (content, broken) = match cached {
                    Some(c) => (c.content.clone(), c.broken.clone()),
                    None => {
                        let mut out = Vec::new();
                        match flate2::read::MultiGzDecoder::new(&raw[..]).read_to_end(&mut out) {
                            Ok(_) => (out, None),
                            Err(e) => (out, Some(format!("{n}: {e}"))),
                        }
                    }
                };
                o.rolled.push(FileObs { period, seq, gz, raw, content, broken });
            }
        }
    }
    // oldest -> newest: period (fixed-width, so lexicographic = chronological), then numeric sequence
    o.rolled.sort_by(|a, b| (&a.period, a.seq, a.gz).cmp(&(&b.period, b.seq, b.gz)));
    o
}

/// Compares what is on disk with the record list. `all_flushed`: everything handed to the roller must
/// be on disk (otherwise the newest records may still sit in the roller's BufWriter, which only ever
/// writes out whole records, so everything except "the tail is missing" is still checkable).
fn content_rules(obs: &Obs, records: &[Vec<u8>], unlimited: bool, all_flushed: bool, out: &mut Vec<(String, String)>) {
    let mut files: Vec<(&str, &[u8])> = obs.rolled.iter().map(|f| ("rolled file", &f.content[..])).collect();
    if let Some(a) = &obs.active {
        files.push(("active file", &a[..]));
    }
    let mut ids: Vec<usize> = Vec::new();
    let (mut torn, mut corrupt) = (None, None);
    for (what, c) in &files {
        let mut pos = 0;
        while pos < c.len() {
            let idx = (c[pos] as usize).wrapping_sub(b'a' as usize);
            if idx < records.len() && c[pos..].starts_with(&records[idx]) {
                ids.push(idx);
                pos += records[idx].len();
                continue;
            }
            let end = c[pos..].iter().position(|b| *b == b'\n').map(|p| pos + p + 1).unwrap_or(c.len());
            let frag = &c[pos..end];
            let piece_of_record = frag == b"\n" || (idx < records.len() && frag.len() < records[idx].len() && (records[idx].starts_with(frag) || records[idx].ends_with(frag)));
            let msg = format!("{what} holds {}, which is not a whole record", brief(frag));
            if piece_of_record {
                torn.get_or_insert(msg);
            } else {
                corrupt.get_or_insert(msg);
            }
            pos = end;
        }
    }
    if let Some(m) = torn {
        out.push(("torn".into(), m));
    }
    if let Some(m) = corrupt {
        out.push(("corrupt".into(), m));
    }
    let mut seen = BTreeSet::new();
    let (mut dup, mut reord, mut gap) = (None, None, None);
    for w in 0..ids.len() {
        let cur = ids[w];
        if w > 0 {
            let prev = ids[w - 1];
            if cur <= prev {
                if seen.contains(&cur) {
                    dup.get_or_insert(format!("record #{cur} appears twice"));
                } else {
                    reord.get_or_insert(format!("record #{cur} comes after record #{prev}"));
                }
            } else if cur > prev + 1 {
                gap.get_or_insert(format!("records #{}..#{} are missing between retained records #{prev} and #{cur}", prev + 1, cur - 1));
            }
        }
        seen.insert(cur);
    }
    if let Some(m) = dup {
        out.push(("duplicated".into(), m));
    }
    if let Some(m) = reord {
        out.push(("reordered".into(), m));
    }
    if let Some(m) = gap {
        out.push(("lost_middle".into(), m));
    }
    if all_flushed && !records.is_empty() && ids.last() != Some(&(records.len() - 1)) {
        out.push(("lost_tail".into(), format!("the newest record #{} is not the last record on disk (last on disk: {:?})", records.len() - 1, ids.last())));
    }
    if unlimited && !ids.is_empty() && ids.first() != Some(&0) {
        out.push(("lost_head".into(), format!("retention is unlimited but the oldest record on disk is {:?}, not #0", ids.first())));
    }
}

pub struct Exec {
    /// (rule, op, message) of everything that failed at the first failing step
    pub bad: Vec<(String, String, String)>,
    /// number of actions that were applied (history is cut after the failing step)
    pub applied: usize,
    pub rolled_any: bool,
    pub final_hash: u64,
}

static VERBOSE: std::sync::atomic::AtomicBool = std::sync::atomic::AtomicBool::new(false);
pub fn set_verbose(v: bool) {
    VERBOSE.store(v, std::sync::atomic::Ordering::Relaxed);
}
fn verbose() -> bool {
    VERBOSE.load(std::sync::atomic::Ordering::Relaxed)
}

/// Replays one history on a fresh real roller in `dir` (created here, removed afterwards).
pub fn execute(policy: &Policy, actions: &[Act], dir: &Path) -> Exec {
    if std::fs::create_dir(dir).is_err() {
        // leftover of a crashed run, or the parent is missing
        let _ = std::fs::remove_dir_all(dir);
        std::fs::create_dir_all(dir).expect("create history directory");
    }
    let r = execute_in(policy, actions, dir);
    if let Ok(rd) = std::fs::read_dir(dir) {
        for e in rd.flatten() {
            let _ = std::fs::remove_file(e.path());
        }
    }
    if std::fs::remove_dir(dir).is_err() {
        let _ = std::fs::remove_dir_all(dir);
    }
    r
}

fn execute_in(policy: &Policy, actions: &[Act], dir: &Path) -> Exec {
    let gz = if policy.compression != "off" { "+gz" } else { "" };
    let pol = policy.internal(dir);
    let mut now = t0();
    let mut bad: Vec<(String, String, String)> = Vec::new();
    let mut rolled_any = false;
    let open = |now: DateTime<Utc>| catch_unwind(AssertUnwindSafe(|| Roller::open_at(pol.clone(), now)));
    let mut roller = match open(now) {
        Ok(Ok(r)) => Some(r),
        Ok(Err(e)) => {
            bad.push(("io_error".into(), "open".into(), format!("opening the roller on an empty directory failed: {e}")));
            None
        }
        Err(_) => {
            bad.push(("panic".into(), "open".into(), "opening the roller panicked".into()));
            None
        }
    };
    if roller.is_none() {
        return Exec { bad, applied: 0, rolled_any, final_hash: 0 };
    }
    let mut prev = observe(dir, None);
    let mut ever: BTreeSet<(String, u32)> = BTreeSet::new();
    let mut records: Vec<Vec<u8>> = Vec::new();
    // label-only model of the roller's position (never used by an oracle)
    let mut model_period = policy.period_of(now);
    let mut model_size: u64 = 0;
    let mut last_op = "open".to_string();
    let mut applied = 0;

    let step_rules = |prev: &Obs, obs: &Obs, ever: &BTreeSet<(String, u32)>, records: &[Vec<u8>], full: bool, op: &str, bad: &mut Vec<(String, String, String)>| {
        let mut v: Vec<(String, String)> = Vec::new();
        for u in &obs.unexpected {
            v.push(("unexpected_file".into(), format!("file {u:?} is neither the active file nor a rolled file name")));
        }
        for f in &obs.rolled {
            if let Some(b) = &f.broken {
                v.push(("corrupt_gzip".into(), format!("compressed rolled file cannot be decompressed: {b}")));
            }
        }
        // an existing rolled file keeps its content (compression may change its encoding, nothing else)
        for p in &prev.rolled {
            if let Some(n) = obs.rolled.iter().find(|n| n.period == p.period && n.seq == p.seq) {
                if n.content != p.content {
                    v.push((
                        "clobbered".into(),
                        format!("existing rolled file {PREFIX}.{}.{}{SUFFIX} changed from {} to {}", p.period, p.seq, brief(&p.content), brief(&n.content)),
                    ));
                    break;
                }
            }
        }
        content_rules(obs, records, policy.retention.is_none(), full, &mut v);
        let now_keys = obs.keys();
        let vanished: Vec<(String, u32)> = prev.rolled.iter().map(|f| (f.period.clone(), f.seq)).filter(|k| !now_keys.contains(k)).collect();
        match policy.retention {
            Some(n) => {
                if now_keys.len() > n as usize {
                    v.push(("retention_exceeded".into(), format!("{} rolled files are kept, the policy allows {n}", now_keys.len())));
                }
                if let Some(oldest_kept) = now_keys.iter().next() {
                    if let Some(k) = ever.iter().find(|k| !now_keys.contains(*k) && *k > oldest_kept) {
                        v.push(("retention_kept_older".into(), format!("rolled file {}.{} was deleted while the older {}.{} is kept", k.0, k.1, oldest_kept.0, oldest_kept.1)));
                    }
                }
                if !vanished.is_empty() && now_keys.len() < n as usize {
                    v.push(("retention_deleted_below_limit".into(), format!("rolled file {}.{} was deleted although only {} of {n} allowed rolled files remain", vanished[0].0, vanished[0].1, now_keys.len())));
                }
            }
            None => {
                if !vanished.is_empty() {
                    v.push(("rolled_file_vanished".into(), format!("rolled file {}.{} disappeared although retention is unlimited", vanished[0].0, vanished[0].1)));
                }
            }
        }
        for (rule, msg) in v {
            bad.push((rule, format!("{op}{gz}"), format!("{msg}; directory: {}", obs.describe())));
        }
    };

    for (i, act) in actions.iter().enumerate() {
        applied = i + 1;
        let op: String;
        match act {
            Act::S1 => {
                now += Duration::seconds(1);
                continue;
            }
            Act::SP => {
                now += policy.period_len();
                continue;
            }
            Act::W(len) => {
                let rec = record(records.len(), *len);
                let time_roll = policy.period_of(now) > model_period;
                if time_roll {
                    model_period = policy.period_of(now);
                    model_size = 0;
                }
                model_size += len;
                let size_roll = policy.size.map(|l| model_size >= l).unwrap_or(false);
                if size_roll {
                    model_size = 0;
                }
                op = match (time_roll, size_roll) {
                    (false, false) => "write.no_roll",
                    (true, false) => "write.time_roll",
                    (false, true) => "write.size_roll",
                    (true, true) => "write.time+size_roll",
                }
                .to_string();
                let r = roller.as_mut().unwrap();
                let res = catch_unwind(AssertUnwindSafe(|| {
                    r.write_at(now, &rec)?;
                    if policy.flush_each_write {
                        r.flush()?;
                    }
                    Ok::<(), std::io::Error>(())
                }));
                records.push(rec);
                match res {
                    Ok(Ok(())) => {}
                    Ok(Err(e)) => bad.push(("io_error".into(), format!("{op}{gz}"), format!("write of record #{} failed: {e}", records.len() - 1))),
                    Err(_) => bad.push(("panic".into(), format!("{op}{gz}"), format!("write of record #{} panicked", records.len() - 1))),
                }
            }
            Act::R => {
                op = "restart".to_string();
                drop(roller.take());
                match open(now) {
                    Ok(Ok(r)) => roller = Some(r),
                    Ok(Err(e)) => bad.push(("io_error".into(), format!("{op}{gz}"), format!("reopening the roller failed: {e}"))),
                    Err(_) => bad.push(("panic".into(), format!("{op}{gz}"), "reopening the roller panicked".into())),
                }
                model_period = policy.period_of(now);
                model_size = std::fs::metadata(pol.base_path()).map(|m| m.len()).unwrap_or(0);
            }
        }
        last_op = op.clone();
        let obs = observe(dir, Some(&prev));
        ever.extend(obs.keys());
        rolled_any |= !obs.rolled.is_empty();
        if verbose() {
            println!("  step {i} {:<3} now={} [{op}] -> {}", act.name(), now.format("%Y-%m-%dT%H:%M:%S"), obs.describe());
        }
        let full = policy.flush_each_write || *act == Act::R;
        if bad.is_empty() {
            step_rules(&prev, &obs, &ever, &records, full, &op, &mut bad);
        }
        if !bad.is_empty() {
            let h = obs.hash();
            drop(roller.take());
            return Exec { bad, applied, rolled_any, final_hash: h };
        }
        prev = obs;
    }
    // end of history: everything handed to the roller must be on disk after a flush
    let res = catch_unwind(AssertUnwindSafe(|| roller.as_mut().unwrap().flush()));
    match res {
        Ok(Ok(())) => {}
        Ok(Err(e)) => bad.push(("io_error".into(), format!("final_flush{gz}"), format!("flush failed: {e}"))),
        Err(_) => bad.push(("panic".into(), format!("final_flush{gz}"), "flush panicked".into())),
    }
    let obs = observe(dir, Some(&prev));
    ever.extend(obs.keys());
    rolled_any |= !obs.rolled.is_empty();
    if verbose() {
        println!("  end (flushed) -> {}", obs.describe());
    }
    if bad.is_empty() {
        step_rules(&prev, &obs, &ever, &records, true, &last_op, &mut bad);
    }
    let h = obs.hash();
    drop(roller.take());
    Exec { bad, applied, rolled_any, final_hash: h }
}

pub static TMP_OVERRIDE: std::sync::OnceLock<String> = std::sync::OnceLock::new();

/// per-process root of the history directories: --tmp, else $LOGX_TMP, else /verif/target/tmp-logx
pub fn tmp_root() -> PathBuf {
    let base = TMP_OVERRIDE.get().cloned().or_else(|| std::env::var("LOGX_TMP").ok()).unwrap_or_else(|| "/verif/target/tmp-logx".into());
    PathBuf::from(base).join(format!("p{}", std::process::id()))
}

pub fn policies() -> Vec<Policy> {
    let mut v = Vec::new();
    for size in [None, Some(8u64)] {
        for period in ["never", "minutely", "hourly", "daily"] {
            for retention in [Some(1u32), Some(2), None] {
                for compression in ["off", "gz0", "gz1"] {
                    // a policy that can never roll has no retention/compression behaviour: keep one representative
                    if size.is_none() && period == "never" && !(retention.is_none() && compression == "off") {
                        continue;
                    }
                    for flush_each_write in [false, true] {
                        v.push(Policy { size, period: period.into(), retention, compression: compression.into(), flush_each_write });
                    }
                }
            }
        }
    }
    v
}

struct Item {
    scen: String,
    policy: Policy,
    alpha: Vec<Act>,
    depth: usize,
    /// None: the history prefixes shorter than the split prefix; Some(p): every history extending p
    prefix: Option<Vec<Act>>,
    /// warm-up executed on the real roller before every history (not counted in the depth): the directory then
    /// already holds rolled files, with sequence numbers about to gain a digit
    warm: Vec<Act>,
}

#[derive(Default)]
struct ItemResult {
    executions: u64,
    states: u64,
    transitions: u64,
    nontrivial: u64,
    hashes: HashSet<u64>,
    finds: Vec<Finding>,
    samples: Vec<Value>,
}

fn replay_json(policy: &Policy, actions: &[Act]) -> Value {
    json!({"kind": "roller", "policy": policy, "actions": actions.iter().map(|a| a.name()).collect::<Vec<_>>()})
}

fn scenario_name(p: &Policy) -> String {
    format!("roller.{}.{}", p.size.map(|s| format!("size{s}")).unwrap_or("nosize".into()), p.period)
}

/// Runs one history, folds the result in. Only a history that beats the kept replay of its fingerprint
/// is re-executed (must fail again the same way) and kept.
fn run_history(item: &Item, hist: &[Act], dir: &Path, res: &mut ItemResult, kept: &mut BTreeMap<String, usize>) {
    let policy = &item.policy;
    let full: Vec<Act> = item.warm.iter().chain(hist.iter()).copied().collect();
    let hist: &[Act] = &full;
    let e = execute(policy, hist, dir);
    res.executions += 1;
    res.transitions += e.applied as u64;
    res.hashes.insert(e.final_hash);
    if e.rolled_any {
        res.nontrivial += 1;
    }
    if res.samples.is_empty() && (e.rolled_any || policy.size.is_none() && policy.period == "never") {
        res.samples.push(replay_json(policy, hist));
    }
    for (rule, op, msg) in &e.bad {
        let fp = format!("logx/roller/C20.{rule}/{op}");
        let cut = &hist[..e.applied];
        let size = replay_json(policy, cut).to_string().len();
        if kept.get(&fp).map(|k| size < *k).unwrap_or(true) {
            let again = execute(policy, cut, dir);
            if !again.bad.iter().any(|(r, o, _)| r == rule && o == op) {
                panic!("machinery: history did not fail twice: {:?} {:?}", policy, cut);
            }
            kept.insert(fp.clone(), size);
            res.finds.push(Finding { fingerprint: fp, message: format!("{} [policy {}]", msg, serde_json::to_string(policy).unwrap()), scenario: item.scen.clone(), replay: replay_json(policy, cut) });
        }
    }
}

fn dfs(item: &Item, hist: &mut Vec<Act>, dir: &Path, res: &mut ItemResult, kept: &mut BTreeMap<String, usize>) {
    res.states += 1;
    // Only maximal histories are executed: the step oracles run after every step, so every prefix is
    // checked in passing. With flush_each_write the complete on-disk content is compared at every
    // step; without it everything but "the newest records are missing" is compared at every step and
    // the complete content at every Restart (h·R is a prefix of some maximal history for every
    // shorter h) and after the final flush.
    if hist.len() == item.depth {
        run_history(item, hist, dir, res, kept);
        return;
    }
    for a in &item.alpha {
        hist.push(*a);
        dfs(item, hist, dir, res, kept);
        hist.pop();
    }
}

fn push_items(items: &mut Vec<Item>, scen: &str, policy: &Policy, alpha: &[Act], depth: usize) {
    push_items_warm(items, scen, policy, alpha, depth, &[]);
}

fn push_items_warm(items: &mut Vec<Item>, scen: &str, policy: &Policy, alpha: &[Act], depth: usize, warm: &[Act]) {
    let split = depth.min(2);
    if split > 1 {
        items.push(Item { scen: scen.into(), policy: policy.clone(), alpha: alpha.to_vec(), depth, prefix: None, warm: warm.to_vec() });
    }
    let mut prefixes: Vec<Vec<Act>> = vec![vec![]];
    for _ in 0..split {
        prefixes = prefixes.iter().flat_map(|p| alpha.iter().map(move |a| { let mut q = p.clone(); q.push(*a); q })).collect();
    }
    for pre in prefixes {
        items.push(Item { scen: scen.into(), policy: policy.clone(), alpha: alpha.to_vec(), depth, prefix: Some(pre), warm: warm.to_vec() });
    }
}

/// 10 kB records: larger than the roller's BufWriter, so they take its write-through path
fn long_record_policies() -> Vec<Policy> {
    let mut v = Vec::new();
    for size in [Some(8u64), Some(16_384)] {
        for retention in [Some(1u32), None] {
            for compression in ["off", "gz0"] {
                v.push(Policy { size, period: "minutely".into(), retention, compression: compression.into(), flush_each_write: false });
            }
        }
    }
    v
}

pub fn run_roller(tier: &str, jobs: usize, best: &mut Best, depth_override: Option<usize>) -> Vec<Scenario> {
    let t = Timer::start();
    // depth of the production-like policies (BufWriter flushed by rolls/restarts/end only); the
    // flush_each_write variants of the same policies run one action shallower
    let depth = depth_override.unwrap_or(if tier == "quick" { 4 } else { 6 });
    // hourly and daily differ from minutely only in the truncation unit and the rolled-file name
    // format (the clock is placed so that S1/SP cross the same boundaries for all three), so with the
    // 7-letter alphabet the thorough tier runs them one action shallower
    let depth_of = |p: &Policy| {
        let mut d = depth;
        if p.flush_each_write {
            d -= 1;
        }
        if tier == "thorough" && p.size.is_some() && (p.period == "hourly" || p.period == "daily") {
            d -= 1;
        }
        d.max(1)
    };
    let long_depth = if tier == "quick" { 3 } else { 5 };
    let long_alpha = [Act::W(2), Act::W(10_240), Act::S1, Act::SP, Act::R];
    let mut items: Vec<Item> = Vec::new();
    let mut bounds: BTreeMap<String, BTreeMap<String, Value>> = BTreeMap::new();
    let note = |bounds: &mut BTreeMap<String, BTreeMap<String, Value>>, name: &str, p: &Policy, alpha: &[Act], depth: usize| {
        let b = bounds.entry(name.to_string()).or_default();
        let mut add = |key: &str, v: Value| {
            let list = b.entry(key.to_string()).or_insert_with(|| json!([]));
            if !list.as_array().unwrap().contains(&v) {
                list.as_array_mut().unwrap().push(v);
            }
        };
        add("size_limit", json!(p.size));
        add("period", json!(p.period));
        add("retention", json!(p.retention));
        add("compression", json!(p.compression));
        add("flush_each_write", json!(p.flush_each_write));
        add("depth", json!(format!("{depth} (flush_each_write={})", p.flush_each_write)));
        b.insert("alphabet".into(), json!(alpha.iter().map(|a| a.name()).collect::<Vec<_>>()));
        let n = b.get("policies").and_then(|v| v.as_u64()).unwrap_or(0);
        b.insert("policies".into(), json!(n + 1));
    };
    for p in policies() {
        let name = scenario_name(&p);
        note(&mut bounds, &name, &p, &p.alphabet(), depth_of(&p));
        push_items(&mut items, &name, &p, &p.alphabet(), depth_of(&p));
    }
    for p in long_record_policies() {
        note(&mut bounds, "roller.long_records", &p, &long_alpha, long_depth);
        push_items(&mut items, "roller.long_records", &p, &long_alpha, long_depth);
    }
    // warm start: nine rolls have already happened in the current period, so the rolls of the explored history
    // carry the sequence numbers 9, 10, 11 ... (the rolled-file name gains a digit): ordering by sequence number and
    // retention are exercised across that boundary
    let warm: Vec<Act> = (0..9).map(|_| Act::W(9)).collect();
    let warm_depth = if tier == "quick" { 3 } else { 4 };
    for retention in [Some(1u32), Some(2), Some(3), None] {
        for period in ["never", "minutely"] {
            let p = Policy { size: Some(8), period: period.into(), retention, compression: "off".into(), flush_each_write: true };
            let alpha = [Act::W(9), Act::W(2), Act::R, Act::SP];
            note(&mut bounds, "roller.after_nine_rolls", &p, &alpha, warm_depth);
            push_items_warm(&mut items, "roller.after_nine_rolls", &p, &alpha, warm_depth, &warm);
        }
    }
    if let Some(b) = bounds.get_mut("roller.after_nine_rolls") {
        b.insert("warm_up".into(), json!("9 x W9 on the real roller before every history (size limit 8: every write but the first rolls)"));
    }
    for b in bounds.values_mut() {
        b.insert("clock_start".into(), json!("2024-02-28T23:59:59Z (1 s before a minute, hour and day boundary); S1 = +1 s, SP = +1 period (1 day for 'never')"));
        b.insert("records".into(), json!("record #i = (len-1) x ('a'+i) + '\\n'; Wn writes one record of n bytes"));
        b.insert("compression_modes".into(), json!("gz0: max_uncompressed_sequences=0, gz1: max_uncompressed_sequences=1"));
    }
    let root = tmp_root();
    let results = par_map(&items, jobs, |w, i, item| {
        let wdir = root.join(format!("w{w}"));
        let _ = std::fs::create_dir_all(&wdir);
        let dir = wdir.join(format!("i{i}"));
        let mut res = ItemResult::default();
        let mut kept = BTreeMap::new();
        match &item.prefix {
            // the history prefixes shorter than the split prefix (visited as prefixes of the maximal histories)
            None => res.states += item.alpha.len() as u64,
            Some(pre) => {
                let mut hist = pre.clone();
                dfs(item, &mut hist, &dir, &mut res, &mut kept);
            }
        }
        res
    });
    let _ = std::fs::remove_dir_all(&root);
    let mut by: BTreeMap<String, (Scenario, HashSet<u64>)> = BTreeMap::new();
    for (item, r) in items.iter().zip(results) {
        let entry = by.entry(item.scen.clone()).or_insert_with(|| {
            (
                Scenario {
                    name: item.scen.clone(),
                    properties: vec!["C20".into()],
                    nontrivial_rule: "at least one rolled file existed at some point of the history".into(),
                    exhaustive: true,
                    bound: bounds.get(&item.scen).cloned().unwrap_or_default(),
                    ..Default::default()
                },
                HashSet::new(),
            )
        });
        let s = &mut entry.0;
        s.executions += r.executions;
        s.states += r.states;
        s.transitions += r.transitions;
        s.nontrivial += r.nontrivial;
        entry.1.extend(r.hashes);
        for smp in r.samples {
            if s.samples.len() < 2 {
                s.samples.push(smp);
            }
        }
        for f in r.finds {
            best.push(f);
        }
    }
    let wall = t.secs();
    let total: u64 = by.values().map(|(s, _)| s.transitions).sum::<u64>().max(1);
    by.into_values()
        .map(|(mut s, h)| {
            s.distinct_outcomes = h.len() as u64;
            // all classes run interleaved on one thread pool: apportion the wall time by work done
            s.wall_s = wall * s.transitions as f64 / total as f64;
            s
        })
        .collect()
}
