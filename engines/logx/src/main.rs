//! logx — model-checking engine for property C20 (log encoders and the rolling file writer).
//! CLI contract: /verif/engines/CONTRACT.md.
mod enc;
mod par;
mod roll;

use serde_json::Value;
use std::collections::BTreeMap;
use vcommon::{Report, Violation};

pub struct Finding {
    pub fingerprint: String,
    pub message: String,
    pub scenario: String,
    pub replay: Value,
}

/// one finding per fingerprint: the one with the shortest replay (first wins on ties => deterministic)
#[derive(Default)]
pub struct Best(BTreeMap<String, Finding>);

impl Best {
    pub fn push(&mut self, f: Finding) {
        match self.0.get(&f.fingerprint) {
            Some(old) if old.replay.to_string().len() <= f.replay.to_string().len() => {}
            _ => {
                self.0.insert(f.fingerprint.clone(), f);
            }
        }
    }
}

fn usage() -> ! {
    eprintln!("usage: logx run --tier quick|thorough --out <report.json> [--props C20] [--jobs N] [--only json,pattern,roller] [--depth D] [--tmp DIR]\n       logx replay <replay.json>");
    std::process::exit(2)
}

fn main() {
    let args: Vec<String> = std::env::args().skip(1).collect();
    match args.first().map(|s| s.as_str()) {
        Some("run") => run(&args[1..]),
        Some("replay") => replay(args.get(1).unwrap_or_else(|| usage())),
        _ => usage(),
    }
}

fn run(args: &[String]) {
    let (mut tier, mut out, mut props, mut jobs, mut only, mut depth) = ("quick".to_string(), None, None::<String>, 16usize, None::<String>, None::<usize>);
    let mut i = 0;
    while i < args.len() {
        let val = || args.get(i + 1).cloned().unwrap_or_else(|| usage());
        match args[i].as_str() {
            "--tier" => tier = val(),
            "--out" => out = Some(val()),
            "--props" => props = Some(val()),
            "--jobs" => jobs = val().parse().unwrap_or_else(|_| usage()),
            "--only" => only = Some(val()),
            "--depth" => depth = Some(val().parse().unwrap_or_else(|_| usage())),
            "--tmp" => {
                let _ = roll::TMP_OVERRIDE.set(val());
            }
            _ => usage(),
        }
        i += 2;
    }
    if tier != "quick" && tier != "thorough" {
        usage();
    }
    let out = out.unwrap_or_else(|| usage());
    let mut report = Report::new("logx", &tier);
    let wanted = props.map(|p| p.split(',').any(|x| x.trim() == "C20")).unwrap_or(true);
    if wanted {
        // a panic inside the code under test is caught and reported as a violation; keep stderr quiet
        std::panic::set_hook(Box::new(|info| {
            let s = info.to_string();
            if s.contains("machinery") {
                eprintln!("{s}");
            }
        }));
        let sel = |k: &str| only.as_deref().map(|o| o.split(',').any(|x| x == k)).unwrap_or(true);
        let mut best = Best::default();
        if sel("json") {
            report.scenarios.push(enc::run_json(&tier, jobs, &mut best));
        }
        if sel("pattern") {
            report.scenarios.push(enc::run_pattern(&tier, jobs, &mut best));
        }
        if sel("roller") {
            report.scenarios.extend(roll::run_roller(&tier, jobs, &mut best, depth));
        }
        // a defect that does not depend on compression shows up under both the plain and the "+gz"
        // operation class: keep the plain fingerprint only
        let plain: Vec<String> = best.0.keys().filter(|k| !k.ends_with("+gz")).cloned().collect();
        best.0.retain(|k, _| !(k.ends_with("+gz") && plain.contains(&k.trim_end_matches("+gz").to_string())));
        for (_, f) in best.0 {
            report.push_violation(Violation { property: "C20".into(), fingerprint: f.fingerprint, message: f.message, scenario: f.scenario, replay: f.replay });
        }
    }
    for s in &report.scenarios {
        eprintln!(
            "[logx] {:<28} executions={:<9} states={:<9} transitions={:<10} outcomes={:<7} nontrivial={:<9} {:.2}s",
            s.name, s.executions, s.states, s.transitions, s.distinct_outcomes, s.nontrivial, s.wall_s
        );
    }
    for v in &report.violations {
        eprintln!("[logx] VIOLATION {} — {}", v.fingerprint, v.message);
    }
    report.write(&out);
}

fn replay(path: &str) {
    let text = std::fs::read_to_string(path).unwrap_or_else(|e| {
        eprintln!("cannot read {path}: {e}");
        std::process::exit(2)
    });
    let v: Value = serde_json::from_str(&text).unwrap_or_else(|e| {
        eprintln!("cannot parse {path}: {e}");
        std::process::exit(2)
    });
    // accept the driver's wrapper or a bare Violation.replay
    let fingerprint = v.get("fingerprint").and_then(|f| f.as_str()).map(|s| s.to_string());
    let case = if v.get("kind").map(|k| k.is_string()).unwrap_or(false) && v.get("replay").is_none() { v.clone() } else { v.get("replay").cloned().unwrap_or(Value::Null) };
    let kind = case.get("kind").and_then(|k| k.as_str()).unwrap_or("");
    let mut bad: Vec<(String, String)> = Vec::new(); // (fingerprint, message)
    match kind {
        "json" => {
            let c: enc::JsonCase = serde_json::from_value(case["case"].clone()).expect("json case");
            println!("replaying JSON-lines case: {}", serde_json::to_string(&c).unwrap());
            for (rule, class, msg) in enc::check_json(&c).bad {
                bad.push((format!("logx/json/C20.{rule}/{class}"), msg));
            }
        }
        "pattern" => {
            let c: enc::PatternCase = serde_json::from_value(case["case"].clone()).expect("pattern case");
            println!("replaying pattern case: {}", serde_json::to_string(&c).unwrap());
            for (rule, class, msg) in enc::check_pattern(&c).bad {
                bad.push((format!("logx/pattern/C20.{rule}/{class}"), msg));
            }
        }
        "roller" => {
            let p: roll::Policy = serde_json::from_value(case["policy"].clone()).expect("policy");
            let acts: Vec<roll::Act> = case["actions"].as_array().expect("actions").iter().map(|a| roll::Act::parse(a.as_str().unwrap()).expect("action")).collect();
            println!("replaying roller history: policy {} actions {:?}", serde_json::to_string(&p).unwrap(), acts.iter().map(|a| a.name()).collect::<Vec<_>>());
            roll::set_verbose(true);
            let dir = roll::tmp_root().join("replay");
            let e = roll::execute(&p, &acts, &dir);
            let _ = std::fs::remove_dir_all(roll::tmp_root());
            for (rule, op, msg) in e.bad {
                bad.push((format!("logx/roller/C20.{rule}/{op}"), msg));
            }
        }
        _ => {
            eprintln!("replay file has no recognisable case");
            std::process::exit(2)
        }
    }
    for (fp, msg) in &bad {
        println!("FAILED {fp}: {msg}");
    }
    let strip = |s: &str| s.trim_end_matches("+gz").to_string();
    let reproduced = match &fingerprint {
        Some(fp) => bad.iter().any(|(f, _)| f == fp || strip(f) == strip(fp)),
        None => !bad.is_empty(),
    };
    if reproduced {
        println!("violation reproduces");
        std::process::exit(1);
    }
    println!("violation does not reproduce");
}
