//! Deterministic parallel map: results come back in item order whatever the thread timing.
use std::sync::atomic::{AtomicUsize, Ordering};
use std::sync::Mutex;

pub fn par_map<T: Sync, R: Send>(items: &[T], jobs: usize, f: impl Fn(usize, usize, &T) -> R + Sync) -> Vec<R> {
    let next = AtomicUsize::new(0);
    let out: Mutex<Vec<Option<R>>> = Mutex::new((0..items.len()).map(|_| None).collect());
    let jobs = jobs.max(1).min(items.len().max(1));
    std::thread::scope(|s| {
        for w in 0..jobs {
            let next = &next;
            let out = &out;
            let f = &f;
            s.spawn(move || loop {
                let i = next.fetch_add(1, Ordering::Relaxed);
                if i >= items.len() {
                    break;
                }
                let r = f(w, i, &items[i]);
                out.lock().unwrap()[i] = Some(r);
            });
        }
    });
    out.into_inner().unwrap().into_iter().map(|r| r.expect("worker finished item")).collect()
}
