//! Reference bookkeeping model + oracles of property C14, and the function that
//! executes one history on a fresh real policy object while checking it.
//!
//! The model is deliberately boring: which keys the policy has been told to track,
//! which costs it may legitimately have recorded for them, and (for LRU / FIFO only)
//! the textbook order. Everything the statement of C14 leaves open is left open:
//!
//! * `on_access(k, c)` on a tracked key: the policy may keep the admitted cost or
//!   record `c` (the statement only fixes what *re-admission* does), so the model
//!   keeps a set of admissible recorded costs per key;
//! * which keys a policy prefers to evict (SIEVE, Clock, SLRU, ARC, TinyLFU, Random):
//!   not checked, only that victims are tracked, unique, correctly priced;
//! * how many victims beyond the requested cost are taken: not checked;
//! * FIFO position of a key that is re-admitted while resident: both readings
//!   (keeps its first-in position / counts as a new insertion) are accepted, but one
//!   reading must explain the whole history;
//! * admission filters may refuse a key (`Reject`, or listing it among the
//!   `AdmitAndEvict` victims): the key is then simply not tracked.

use fibre_cache::policy::{AdmissionDecision, CachePolicy};
use serde_json::{json, Value};
use std::cell::Cell;

pub const MAXK: usize = 8; // keys are 0..MAXK
pub const MAXC: u64 = 7; // costs are 0..=MAXC (bitmask of admissible costs per key)
pub const HUGE: u64 = 1_000_000; // the "evict everything" request of the final drain

// ---------------------------------------------------------------- policies under test

#[derive(Clone, Copy, PartialEq, Eq, Debug)]
pub enum Kind {
    TinyLfu,
    Sieve,
    Slru,
    Arc,
    Lru,
    Fifo,
    Clock,
    Random,
}

impl Kind {
    pub const ALL: [Kind; 8] =
        [Kind::Lru, Kind::Fifo, Kind::Sieve, Kind::Clock, Kind::Random, Kind::Slru, Kind::Arc, Kind::TinyLfu];
    pub fn name(self) -> &'static str {
        match self {
            Kind::TinyLfu => "tinylfu",
            Kind::Sieve => "sieve",
            Kind::Slru => "slru",
            Kind::Arc => "arc",
            Kind::Lru => "lru",
            Kind::Fifo => "fifo",
            Kind::Clock => "clock",
            Kind::Random => "random",
        }
    }
    pub fn parse(s: &str) -> Option<Kind> {
        Kind::ALL.iter().copied().find(|k| k.name() == s)
    }
    pub fn has_capacity(self) -> bool {
        matches!(self, Kind::TinyLfu | Kind::Slru | Kind::Arc)
    }
}

#[derive(Clone, Copy, PartialEq, Eq, Debug)]
pub struct Config {
    pub kind: Kind,
    /// constructor argument for TinyLFU / SLRU / ARC; ignored by the others
    pub capacity: u64,
}

impl Config {
    pub fn scenario_name(&self) -> String {
        if self.kind.has_capacity() {
            format!("policyx/{}/cap{}", self.kind.name(), self.capacity)
        } else {
            format!("policyx/{}", self.kind.name())
        }
    }
    pub fn describe(&self) -> String {
        use Kind::*;
        match self.kind {
            Slru => {
                let prob = if self.capacity == 0 { 0 } else { ((self.capacity as f64 * 0.20).round() as u64).max(1) };
                format!("SlruPolicy::new({}) (protected segment capacity {})", self.capacity, self.capacity.saturating_sub(prob))
            }
            Arc => format!("ArcPolicy::new({})", self.capacity),
            TinyLfu => format!("TinyLfuPolicy::new({})", self.capacity),
            Lru => "LruPolicy::new()".into(),
            Fifo => "Fifo::new()".into(),
            Sieve => "SievePolicy::new()".into(),
            Clock => "ClockPolicy::new()".into(),
            Random => "RandomPolicy::new()".into(),
        }
    }
    pub fn build(&self) -> Box<dyn CachePolicy<u8, ()>> {
        use fibre_cache::policy::*;
        match self.kind {
            Kind::TinyLfu => Box::new(tinylfu::TinyLfuPolicy::<u8>::new(self.capacity)),
            Kind::Sieve => Box::new(sieve::SievePolicy::<u8>::new()),
            Kind::Slru => Box::new(slru::SlruPolicy::<u8>::new(self.capacity)),
            Kind::Arc => Box::new(arc::ArcPolicy::<u8>::new(self.capacity as usize)),
            Kind::Lru => Box::new(lru::LruPolicy::<u8>::new()),
            Kind::Fifo => Box::new(fifo::Fifo::<u8>::new()),
            Kind::Clock => Box::new(clock::ClockPolicy::<u8>::new()),
            Kind::Random => Box::new(random::RandomPolicy::<u8>::new()),
        }
    }
}

// ---------------------------------------------------------------- calls

#[derive(Clone, Copy, PartialEq, Eq, Debug)]
pub enum Call {
    Admit(u8, u64),
    Access(u8, u64),
    Remove(u8),
    Evict(u64),
    Clear,
}

#[derive(Clone, Copy, PartialEq, Eq, Debug)]
#[repr(u8)]
pub enum Op {
    OnAdmit = 0,
    OnAccess = 1,
    OnRemove = 2,
    Evict = 3,
    Clear = 4,
}
pub const NOPS: usize = 5;

impl Op {
    pub fn name(self) -> &'static str {
        match self {
            Op::OnAdmit => "on_admit",
            Op::OnAccess => "on_access",
            Op::OnRemove => "on_remove",
            Op::Evict => "evict",
            Op::Clear => "clear",
        }
    }
    pub fn from_idx(i: usize) -> Op {
        [Op::OnAdmit, Op::OnAccess, Op::OnRemove, Op::Evict, Op::Clear][i]
    }
}

impl Call {
    pub fn op(&self) -> Op {
        match self {
            Call::Admit(..) => Op::OnAdmit,
            Call::Access(..) => Op::OnAccess,
            Call::Remove(..) => Op::OnRemove,
            Call::Evict(..) => Op::Evict,
            Call::Clear => Op::Clear,
        }
    }
    pub fn to_json(&self) -> Value {
        match *self {
            Call::Admit(k, c) => json!({"op": "on_admit", "key": k, "cost": c}),
            Call::Access(k, c) => json!({"op": "on_access", "key": k, "cost": c}),
            Call::Remove(k) => json!({"op": "on_remove", "key": k}),
            Call::Evict(n) => json!({"op": "evict", "cost_to_free": n}),
            Call::Clear => json!({"op": "clear"}),
        }
    }
    pub fn from_json(v: &Value) -> Result<Call, String> {
        let op = v.get("op").and_then(|o| o.as_str()).ok_or("call without \"op\"")?;
        let key = || -> Result<u8, String> {
            let k = v.get("key").and_then(|k| k.as_u64()).ok_or("call without \"key\"")?;
            if (k as usize) < MAXK { Ok(k as u8) } else { Err(format!("key {k} out of range 0..{MAXK}")) }
        };
        let cost = || -> Result<u64, String> {
            let c = v.get("cost").and_then(|k| k.as_u64()).ok_or("call without \"cost\"")?;
            if c <= MAXC { Ok(c) } else { Err(format!("cost {c} out of range 0..={MAXC}")) }
        };
        Ok(match op {
            "on_admit" => Call::Admit(key()?, cost()?),
            "on_access" => Call::Access(key()?, cost()?),
            "on_remove" => Call::Remove(key()?),
            "evict" => Call::Evict(v.get("cost_to_free").and_then(|k| k.as_u64()).ok_or("evict without \"cost_to_free\"")?),
            "clear" => Call::Clear,
            o => return Err(format!("unknown op {o}")),
        })
    }
    pub fn show(&self) -> String {
        match *self {
            Call::Admit(k, c) => format!("on_admit({k},{c})"),
            Call::Access(k, c) => format!("on_access({k},{c})"),
            Call::Remove(k) => format!("on_remove({k})"),
            Call::Evict(n) => format!("evict({n})"),
            Call::Clear => "clear()".into(),
        }
    }
}

pub fn show_calls(calls: &[Call]) -> String {
    let v: Vec<String> = calls.iter().map(|c| c.show()).collect();
    format!("[{}]", v.join(", "))
}

// ---------------------------------------------------------------- oracle rules

#[derive(Clone, Copy, PartialEq, Eq, Debug)]
#[repr(u8)]
pub enum Rule {
    /// a victim that was never admitted
    VictimNeverAdmitted = 0,
    /// a victim that was already nominated (by evict or AdmitAndEvict) and not re-admitted since
    VictimRenominated,
    /// a victim the policy had been told was removed (on_remove) and not re-admitted since
    VictimAfterRemove,
    /// a victim admitted before the last clear() and not since
    VictimAfterClear,
    /// a victim whose admission the policy itself had rejected
    VictimAfterReject,
    /// the same key twice in one victim list
    DuplicateVictim,
    /// reported freed cost is not the sum of the victims' recorded costs (under any admissible reading)
    FreedCostMismatch,
    /// ... but it is if a victim still carries the cost it had before it was re-admitted
    ReadmitCostNotUpdated,
    /// evict(n) freed less than n although keys it is able to evict were worth the remainder
    FreesEnough,
    /// a tracked key that evict(everything) does not return, and never did since it was (re-)admitted
    NotEvictableSinceAdmit,
    /// a tracked key that was evictable and stopped being so through an operation that neither nominated nor removed it
    LostWithoutNomination,
    /// a tracked key of cost 0 that evict(everything) does not return
    ZeroCostKeyNotEvictable,
    /// tracked key missing from the final drain, no finer diagnosis possible (non-deterministic policy)
    StaysEvictable,
    LruOrder,
    FifoOrder,
    NoPanic,
}
pub const NRULES: usize = 16;

impl Rule {
    pub fn name(self) -> &'static str {
        match self {
            Rule::VictimNeverAdmitted => "victim_never_admitted",
            Rule::VictimRenominated => "victim_renominated",
            Rule::VictimAfterRemove => "victim_after_remove",
            Rule::VictimAfterClear => "victim_after_clear",
            Rule::VictimAfterReject => "victim_after_reject",
            Rule::DuplicateVictim => "duplicate_victim",
            Rule::FreedCostMismatch => "freed_cost_mismatch",
            Rule::ReadmitCostNotUpdated => "readmit_cost_not_updated",
            Rule::FreesEnough => "frees_enough",
            Rule::NotEvictableSinceAdmit => "not_evictable_since_admit",
            Rule::LostWithoutNomination => "lost_without_nomination",
            Rule::ZeroCostKeyNotEvictable => "zero_cost_key_not_evictable",
            Rule::StaysEvictable => "stays_evictable",
            Rule::LruOrder => "lru_order",
            Rule::FifoOrder => "fifo_order",
            Rule::NoPanic => "no_panic",
        }
    }
    pub fn from_idx(i: usize) -> Rule {
        use Rule::*;
        [
            VictimNeverAdmitted, VictimRenominated, VictimAfterRemove, VictimAfterClear, VictimAfterReject, DuplicateVictim,
            FreedCostMismatch, ReadmitCostNotUpdated, FreesEnough, NotEvictableSinceAdmit, LostWithoutNomination,
            ZeroCostKeyNotEvictable, StaysEvictable, LruOrder, FifoOrder, NoPanic,
        ][i]
    }
}

pub fn fingerprint(kind: Kind, rule: Rule, op: Op) -> String {
    format!("policyx/{}/C14.{}/{}", kind.name(), rule.name(), op.name())
}

#[derive(Clone, Debug)]
pub struct Found {
    pub rule: Rule,
    pub op: Op,
    /// index of the call at which it was detected (== calls.len() for the final drain)
    #[allow(dead_code)]
    pub step: usize,
    /// only filled when tracing
    pub detail: String,
}

// ---------------------------------------------------------------- the model

#[derive(Clone, Copy, PartialEq, Eq, Debug)]
enum Gone {
    Never,
    Victim,
    Removed,
    Cleared,
    Rejected,
}

#[derive(Clone, Copy)]
struct KeySt {
    tracked: bool,
    /// bitmask of costs the policy may legitimately have recorded for the key now
    cur: u8,
    /// costs the key carried before re-admissions during its current residency
    stale: u8,
    /// index of the latest on_admit of the key
    admitted_at: usize,
    gone: Gone,
}

#[derive(Clone, Copy)]
struct Order {
    a: [u8; MAXK],
    n: usize,
}
impl Order {
    fn new() -> Self {
        Order { a: [0; MAXK], n: 0 }
    }
    fn remove(&mut self, k: u8) {
        if let Some(p) = self.a[..self.n].iter().position(|x| *x == k) {
            self.a.copy_within(p + 1..self.n, p);
            self.n -= 1;
        }
    }
    fn push(&mut self, k: u8) {
        self.a[self.n] = k;
        self.n += 1;
    }
    fn to_back(&mut self, k: u8) {
        self.remove(k);
        self.push(k);
    }
    fn as_slice(&self) -> &[u8] {
        &self.a[..self.n]
    }
    fn clear(&mut self) {
        self.n = 0;
    }
}

pub struct Model {
    kind: Kind,
    keys: [KeySt; MAXK],
    /// index 0 = least recently used
    lru: Order,
    /// index 0 = first in; a resident key keeps its position when re-admitted
    fifo_first: Order,
    /// index 0 = first in; re-admission counts as a new insertion
    fifo_latest: Order,
    /// which FIFO readings still explain everything seen in this history (bit0 first, bit1 latest)
    fifo_alive: u8,
}

fn lowest_cost(mask: u8) -> u64 {
    mask.trailing_zeros() as u64
}
fn mask_to_vec(mask: u8) -> Vec<u64> {
    (0..8).filter(|b| mask & (1 << b) != 0).collect()
}

impl Model {
    pub fn new(kind: Kind) -> Self {
        Model {
            kind,
            keys: [KeySt { tracked: false, cur: 0, stale: 0, admitted_at: 0, gone: Gone::Never }; MAXK],
            lru: Order::new(),
            fifo_first: Order::new(),
            fifo_latest: Order::new(),
            fifo_alive: 3,
        }
    }
    fn admit(&mut self, k: u8, c: u64, step: usize) {
        let ks = &mut self.keys[k as usize];
        if ks.tracked {
            ks.stale |= ks.cur;
            ks.cur = 1 << c;
            self.lru.to_back(k);
            self.fifo_latest.to_back(k);
        } else {
            ks.tracked = true;
            ks.cur = 1 << c;
            ks.stale = 0;
            self.lru.push(k);
            self.fifo_first.push(k);
            self.fifo_latest.push(k);
        }
        self.keys[k as usize].admitted_at = step;
    }
    fn access(&mut self, k: u8, c: u64) {
        let ks = &mut self.keys[k as usize];
        if ks.tracked {
            ks.cur |= 1 << c;
            self.lru.to_back(k);
        }
    }
    fn untrack(&mut self, k: u8, why: Gone) {
        let ks = &mut self.keys[k as usize];
        if ks.tracked {
            ks.tracked = false;
            ks.gone = why;
            ks.cur = 0;
            ks.stale = 0;
            self.lru.remove(k);
            self.fifo_first.remove(k);
            self.fifo_latest.remove(k);
        } else if why == Gone::Rejected {
            ks.gone = why;
        }
    }
    fn clear(&mut self) {
        for k in 0..MAXK as u8 {
            self.untrack(k, Gone::Cleared);
        }
        self.lru.clear();
        self.fifo_first.clear();
        self.fifo_latest.clear();
    }
    pub fn tracked_keys(&self) -> Vec<u8> {
        (0..MAXK as u8).filter(|k| self.keys[*k as usize].tracked).collect()
    }
    pub fn tracked_json(&self) -> Value {
        let mut m = serde_json::Map::new();
        for k in self.tracked_keys() {
            let c = mask_to_vec(self.keys[k as usize].cur);
            m.insert(k.to_string(), if c.len() == 1 { json!(c[0]) } else { json!({"one_of": c}) });
        }
        Value::Object(m)
    }
    fn min_tracked_cost(&self) -> u64 {
        self.keys.iter().filter(|k| k.tracked).map(|k| lowest_cost(k.cur)).sum()
    }
    /// set of sums obtainable by choosing one admissible cost per victim (bit i = sum i)
    fn sums(&self, victims: &[u8], with_stale: bool) -> u64 {
        let mut s: u64 = 1;
        for v in victims {
            let ks = &self.keys[*v as usize];
            let mask = if with_stale { ks.cur | ks.stale } else { ks.cur };
            let mut t = 0u64;
            for c in 0..8 {
                if mask & (1 << c) != 0 {
                    t |= s << c;
                }
            }
            s = t;
        }
        s
    }
}

// ---------------------------------------------------------------- outcome hashing (FNV-1a, incremental)

#[derive(Clone, Copy)]
struct Fnv(u64);
impl Fnv {
    fn new() -> Self {
        Fnv(0xcbf29ce484222325)
    }
    #[inline]
    fn byte(&mut self, b: u8) {
        self.0 ^= b as u64;
        self.0 = self.0.wrapping_mul(0x100000001b3);
    }
    fn u64(&mut self, v: u64) {
        for b in v.to_le_bytes() {
            self.byte(b);
        }
    }
    fn keys(&mut self, ks: &[u8]) {
        self.byte(ks.len() as u8);
        for k in ks {
            self.byte(*k);
        }
    }
}

// ---------------------------------------------------------------- running one history

pub struct RunOut {
    /// first violation of the history (several only when the final drain misses several keys for different reasons)
    pub found: Vec<Found>,
    /// hash of the full observable result vector (see `run_history`)
    pub outcome: u64,
    /// at least one evict() call of the history itself (not the final drain) returned >= 1 victim
    pub nontrivial: bool,
    /// policy calls applied in the main execution (history + final drain)
    pub calls_applied: u64,
    /// policy calls applied in auxiliary re-executions (evictability probes)
    pub probe_calls: u64,
    /// victims of the final evict(everything)
    pub drained: Vec<u8>,
}

thread_local! {
    /// which operation the current thread is executing on the policy (for attributing a panic)
    pub static CUR_OP: Cell<u8> = const { Cell::new(0) };
    pub static CUR_STEP: Cell<usize> = const { Cell::new(0) };
}

/// Re-executes `prefix` on a fresh policy object and asks it to evict everything:
/// the keys the policy is *able* to nominate in that state.
fn probe_evictable(cfg: &Config, prefix: &[Call], probe_calls: &mut u64) -> Vec<u8> {
    let pol = cfg.build();
    for c in prefix {
        match *c {
            Call::Admit(k, c) => {
                let _ = pol.on_admit(&k, c);
            }
            Call::Access(k, c) => pol.on_access(&k, c),
            Call::Remove(k) => pol.on_remove(&k),
            Call::Evict(n) => {
                let _ = pol.evict(n);
            }
            Call::Clear => pol.clear(),
        }
    }
    *probe_calls += prefix.len() as u64 + 1;
    pol.evict(HUGE).0
}

struct Runner<'a> {
    cfg: &'a Config,
    calls: &'a [Call],
    /// `anc[i]` = what evict(everything) returns after `calls[..=i]`, for i < calls.len() - 1, when the
    /// caller already knows it (the explorer does: it is the final drain of the ancestor history)
    anc: Option<&'a [Vec<u8>]>,
    m: Model,
    found: Vec<Found>,
    tracing: bool,
    probe_calls: u64,
}

impl<'a> Runner<'a> {
    fn flag(&mut self, rule: Rule, op: Op, step: usize, detail: impl FnOnce() -> String) {
        self.found.push(Found { rule, op, step, detail: if self.tracing { detail() } else { String::new() } });
    }
    fn checking(&self) -> bool {
        self.found.is_empty()
    }
    /// the keys the policy is able to nominate after `calls[..=i]`
    fn evictable_after(&mut self, i: usize) -> Vec<u8> {
        match self.anc {
            Some(a) if i < a.len() => a[i].clone(),
            _ => probe_evictable(self.cfg, &self.calls[..=i], &mut self.probe_calls),
        }
    }

    /// Victim list of `evict` (freed = Some) or of `AdmitAndEvict` (freed = None).
    /// Checks the oracles (only while the history has no violation yet) and updates the model.
    fn victims(&mut self, victims: &[u8], freed: Option<u64>, requested: u64, step: usize, op: Op, is_drain: bool) {
        let checking = self.checking();
        // 1. every victim is tracked, none twice
        let mut seen = [false; MAXK];
        let mut valid: Vec<u8> = Vec::with_capacity(victims.len());
        for &v in victims {
            let vi = v as usize;
            if vi >= MAXK {
                if checking && self.checking() {
                    self.flag(Rule::VictimNeverAdmitted, op, step, || format!("victim {v} is not a key that was ever passed to the policy"));
                }
                continue;
            }
            if seen[vi] {
                if checking && self.checking() {
                    self.flag(Rule::DuplicateVictim, op, step, || format!("key {v} appears twice in the victim list {victims:?}"));
                }
                continue;
            }
            seen[vi] = true;
            if !self.m.keys[vi].tracked {
                if checking && self.checking() {
                    let (rule, why) = match self.m.keys[vi].gone {
                        Gone::Never => (Rule::VictimNeverAdmitted, "it was never admitted"),
                        Gone::Victim => (Rule::VictimRenominated, "it was already nominated as a victim and not re-admitted since"),
                        Gone::Removed => (Rule::VictimAfterRemove, "the policy was told it was removed (on_remove) and it was not re-admitted since"),
                        Gone::Cleared => (Rule::VictimAfterClear, "it was admitted before the last clear() and not since"),
                        Gone::Rejected => (Rule::VictimAfterReject, "the policy rejected its admission"),
                    };
                    self.flag(rule, op, step, || format!("victim {v} in {victims:?} is not tracked: {why}"));
                }
                continue;
            }
            valid.push(v);
        }
        // 2. reported cost == sum of recorded costs
        if let Some(f) = freed {
            if checking && self.checking() {
                let ok = |s: u64| f < 64 && s & (1u64 << f) != 0;
                if !ok(self.m.sums(&valid, false)) {
                    let recorded: Vec<String> = if self.tracing {
                        valid.iter().map(|v| format!("{}:{:?}", v, mask_to_vec(self.m.keys[*v as usize].cur))).collect()
                    } else {
                        vec![]
                    };
                    if ok(self.m.sums(&valid, true)) {
                        let stale: Vec<String> = if self.tracing {
                            valid
                                .iter()
                                .filter(|v| self.m.keys[**v as usize].stale != 0)
                                .map(|v| format!("{}:{:?}", v, mask_to_vec(self.m.keys[*v as usize].stale)))
                                .collect()
                        } else {
                            vec![]
                        };
                        self.flag(Rule::ReadmitCostNotUpdated, Op::OnAdmit, step, || {
                            format!(
                                "evict reported freed cost {f} for victims {victims:?}; recorded costs are {{{}}}; the report only adds up with the cost a victim had BEFORE it was re-admitted ({{{}}}): on_admit of a tracked key did not update its cost",
                                recorded.join(", "),
                                stale.join(", ")
                            )
                        });
                    } else {
                        self.flag(Rule::FreedCostMismatch, op, step, || {
                            format!("evict reported freed cost {f} for victims {victims:?} whose recorded costs are {{{}}}", recorded.join(", "))
                        });
                    }
                }
            }
        }
        // 3. textbook order (LRU, FIFO)
        if checking && self.checking() && valid.len() == victims.len() {
            match self.m.kind {
                Kind::Lru => {
                    let exp = self.m.lru.as_slice();
                    if exp.len() < victims.len() || &exp[..victims.len()] != victims {
                        let exp = exp.to_vec();
                        self.flag(Rule::LruOrder, op, step, || {
                            format!("victims {victims:?} are not the least recently used keys in order; least-recently-used-first order of the tracked keys is {exp:?}")
                        });
                    }
                }
                Kind::Fifo => {
                    let mut alive = self.m.fifo_alive;
                    for (bit, ord) in [(1u8, &self.m.fifo_first), (2u8, &self.m.fifo_latest)] {
                        let exp = ord.as_slice();
                        if exp.len() < victims.len() || &exp[..victims.len()] != victims {
                            alive &= !bit;
                        }
                    }
                    if alive == 0 {
                        let a = self.m.fifo_first.as_slice().to_vec();
                        let b = self.m.fifo_latest.as_slice().to_vec();
                        self.flag(Rule::FifoOrder, op, step, || {
                            format!("victims {victims:?} are not in insertion order under either reading: first-in order {a:?} (re-admission keeps the position), {b:?} (re-admission counts as a new insertion)")
                        });
                    } else {
                        self.m.fifo_alive = alive;
                    }
                }
                _ => {}
            }
        }
        // 4. the victims leave the tracked set
        for v in &valid {
            self.m.untrack(*v, Gone::Victim);
        }
        // 5. frees at least the requested cost whenever its evictable keys are worth that much
        if let Some(f) = freed {
            if !is_drain && checking && self.checking() && f < requested {
                let missing = requested - f;
                // cheapest admissible reading of what is still tracked; if even all of it is
                // worth less than the remainder the policy was entitled to stop
                if self.m.min_tracked_cost() >= missing {
                    let (worth, left): (u64, Vec<u8>) = if self.cfg.kind == Kind::Random {
                        // not replayable; it keeps no protected keys: evictable == tracked
                        (self.m.min_tracked_cost(), self.m.tracked_keys())
                    } else {
                        // what it is able to evict right now, measured on a twin object
                        let e = self.evictable_after(step);
                        let e: Vec<u8> = e.into_iter().filter(|k| (*k as usize) < MAXK && self.m.keys[*k as usize].tracked).collect();
                        (e.iter().map(|k| lowest_cost(self.m.keys[*k as usize].cur)).sum(), e)
                    };
                    if worth >= missing {
                        self.flag(Rule::FreesEnough, op, step, || {
                            format!("evict({requested}) freed only {f} (victims {victims:?}) although it was able to evict {left:?} worth >= {worth} more")
                        });
                    }
                }
            }
        }
    }

    /// final drain: a tracked key was not returned by evict(everything). Find out since when.
    fn diagnose_missing(&mut self, k: u8, drained: &[u8]) {
        let n = self.calls.len();
        let ks = self.m.keys[k as usize];
        let costs = mask_to_vec(ks.cur);
        let calls = self.calls;
        if self.cfg.kind == Kind::Random {
            self.flag(Rule::StaysEvictable, Op::Evict, n, || format!("key {k} (cost {costs:?}) is tracked but the final evict({HUGE}) returned only {drained:?}"));
            return;
        }
        if ks.cur == 1 {
            // A resident whose only admissible recorded cost is 0. Kept under one rule whatever call
            // left it stranded: no operation accounts anything for it, what is deficient is evict's
            // selection/termination condition, which never gets to a key that frees nothing.
            self.flag(Rule::ZeroCostKeyNotEvictable, Op::Evict, n, || {
                format!("key {k} is tracked with cost 0 but the final evict({HUGE}) returned only {drained:?}: a zero-cost resident can not be evicted")
            });
            return;
        }
        // since when? the longest suffix of states (after call #a, ..., after the last call) in all of
        // which the key is not evictable
        let a = ks.admitted_at;
        let mut first_bad = None;
        for i in (a..n).rev() {
            let e = if i + 1 == n { drained.to_vec() } else { self.evictable_after(i) };
            if e.contains(&k) {
                break;
            }
            first_bad = Some(i);
        }
        match first_bad {
            Some(i) if i == a => self.flag(Rule::NotEvictableSinceAdmit, Op::OnAdmit, n, || {
                format!(
                    "key {k} (cost {costs:?}) was admitted by call #{a} {} and never removed or nominated, yet evict({HUGE}) does not return it at any point from that call on (final drain returned {drained:?}): an admitted resident key is not evictable",
                    calls[a].show()
                )
            }),
            Some(i) => self.flag(Rule::LostWithoutNomination, calls[i].op(), n, || {
                format!(
                    "key {k} (cost {costs:?}, admitted by call #{a}) was evictable until call #{i} {}; that call neither nominated it as a victim nor removed it, but from then on evict({HUGE}) no longer returns it (final drain returned {drained:?}): a resident key stopped being evictable without having been nominated or removed",
                    calls[i].show()
                )
            }),
            None => self.flag(Rule::StaysEvictable, Op::Evict, n, || format!("key {k} (cost {costs:?}) is tracked but the final evict({HUGE}) returned only {drained:?} (not reproducible on a twin object)")),
        }
    }
}

/// Executes `calls` on a fresh policy object, then a final `evict(HUGE)`, checking every oracle of C14.
/// `anc`: see `Runner::anc` (None = measure evictability on twin objects when a diagnosis needs it).
/// `trace`: when given, one JSON record per step (call, result, model state, violation) is appended.
///
/// Outcome hash: every admission decision (with its victim list), every evict result (victim list in
/// order + freed cost) and the final drain. For `Random`, whose choices come from `rand::rng()` and can
/// not be controlled from outside, only the run-independent part is hashed (decisions, and for each
/// evict up to the first non-empty one whether it was empty) so that reports stay deterministic.
pub fn run_history(cfg: &Config, calls: &[Call], anc: Option<&[Vec<u8>]>, mut trace: Option<&mut Vec<Value>>) -> RunOut {
    let pol = cfg.build();
    let tracing = trace.is_some();
    let mut r = Runner { cfg, calls, anc, m: Model::new(cfg.kind), found: Vec::new(), tracing, probe_calls: 0 };
    let mut h = Fnv::new();
    let mut nontrivial = false;
    let is_random = cfg.kind == Kind::Random;
    let mut random_seen_victims = false;

    for (i, call) in calls.iter().enumerate() {
        CUR_OP.with(|c| c.set(call.op() as u8));
        CUR_STEP.with(|c| c.set(i));
        let nfound_before = r.found.len();
        let mut result = Value::Null;
        match *call {
            Call::Admit(k, c) => match pol.on_admit(&k, c) {
                AdmissionDecision::Admit => {
                    h.byte(1);
                    r.m.admit(k, c, i);
                    if tracing {
                        result = json!("Admit");
                    }
                }
                AdmissionDecision::Reject => {
                    h.byte(2);
                    r.m.untrack(k, Gone::Rejected);
                    if tracing {
                        result = json!("Reject");
                    }
                }
                AdmissionDecision::AdmitAndEvict(v) => {
                    h.byte(3);
                    h.keys(&v);
                    r.m.admit(k, c, i);
                    r.victims(&v, None, 0, i, Op::OnAdmit, false);
                    if tracing {
                        result = json!({"AdmitAndEvict": v});
                    }
                }
            },
            Call::Access(k, c) => {
                pol.on_access(&k, c);
                h.byte(4);
                r.m.access(k, c);
            }
            Call::Remove(k) => {
                pol.on_remove(&k);
                h.byte(5);
                r.m.untrack(k, Gone::Removed);
            }
            Call::Evict(n) => {
                let (v, f) = pol.evict(n);
                h.byte(6);
                if !is_random {
                    h.keys(&v);
                    h.u64(f);
                } else if !random_seen_victims {
                    h.byte(v.is_empty() as u8);
                    random_seen_victims = !v.is_empty();
                }
                if !v.is_empty() {
                    nontrivial = true;
                }
                r.victims(&v, Some(f), n, i, Op::Evict, false);
                if tracing {
                    result = json!({"victims": v, "freed": f});
                }
            }
            Call::Clear => {
                pol.clear();
                h.byte(7);
                r.m.clear();
            }
        }
        if let Some(t) = trace.as_deref_mut() {
            let mut rec = json!({"step": i, "call": call.show(), "result": result, "model_tracked_after": r.m.tracked_json()});
            if r.found.len() > nfound_before {
                let f = &r.found[nfound_before];
                rec["VIOLATION"] = json!({"fingerprint": fingerprint(cfg.kind, f.rule, f.op), "detail": f.detail});
            }
            t.push(rec);
        }
    }

    // final drain: every key the model still tracks must come out, and nothing else
    let n = calls.len();
    CUR_OP.with(|c| c.set(Op::Evict as u8));
    CUR_STEP.with(|c| c.set(n));
    let tracked_before = if tracing { r.m.tracked_json() } else { Value::Null };
    let nfound_before = r.found.len();
    let (v, f) = pol.evict(HUGE);
    h.byte(8);
    if !is_random {
        h.keys(&v);
        h.u64(f);
    }
    let was_clean = r.checking();
    r.victims(&v, Some(f), HUGE, n, Op::Evict, true);
    if was_clean && r.checking() {
        for k in r.m.tracked_keys() {
            r.diagnose_missing(k, &v);
        }
        // one entry per distinct fingerprint
        let mut uniq: Vec<Found> = Vec::new();
        for f in r.found.drain(..) {
            if !uniq.iter().any(|u| u.rule == f.rule && u.op == f.op) {
                uniq.push(f);
            }
        }
        r.found = uniq;
    }
    if let Some(t) = trace.as_deref_mut() {
        let mut rec = json!({"step": "final", "call": format!("evict({HUGE})"), "result": {"victims": v, "freed": f},
            "model_tracked_before": tracked_before, "model_tracked_after": r.m.tracked_json()});
        if r.found.len() > nfound_before {
            let fs: Vec<Value> = r.found[nfound_before..]
                .iter()
                .map(|f| json!({"fingerprint": fingerprint(cfg.kind, f.rule, f.op), "detail": f.detail}))
                .collect();
            rec["VIOLATION"] = json!(fs);
        }
        t.push(rec);
    }

    RunOut { found: r.found, outcome: h.0, nontrivial, calls_applied: n as u64 + 1, probe_calls: r.probe_calls, drained: v }
}
