//! policyx — exhaustive call-sequence enumeration of the eviction policies of fibre_cache
//! against the bookkeeping contract C14 (see /verif/DESIGN.md "C14 policy contract").
//!
//!   policyx run --tier quick|thorough --out report.json [--props C14] [--jobs N]
//!               [--depth D] [--policies lru,fifo,...]
//!   policyx replay <replay.json>
//!
//! Exploration: depth-first over ALL call sequences of length 0..=depth over the alphabet
//! on_admit(k,c), on_access(k,c), on_remove(k), evict(n), clear() with k in {1,2,3},
//! c in {1,2,0}, n in {1,2,5}. A state is the history that reaches it: every history (every
//! node of the tree, not only the leaves) is executed from scratch on a fresh policy object,
//! checked step by step against the reference model, and closed by a final evict(everything).
//! No sampling, no randomness, no state merging.

mod model;

use model::*;
use serde_json::{json, Value};
use std::collections::{BTreeMap, HashSet};
use std::hash::{BuildHasherDefault, Hasher};
use std::panic::{catch_unwind, AssertUnwindSafe};
use std::sync::atomic::{AtomicUsize, Ordering};
use std::sync::Mutex;
use std::time::Instant;
use vcommon::{Report, Scenario, Violation};

const ENGINE: &str = "policyx";
const PROPERTY: &str = "C14";

// ---------------------------------------------------------------- alphabet

const KEYS: [u8; 3] = [1, 2, 3];
const COSTS: [u64; 3] = [1, 2, 0];
const EVICTS: [u64; 3] = [1, 2, 5];

fn alphabet() -> Vec<Call> {
    let mut a = Vec::new();
    for k in KEYS {
        for c in COSTS {
            a.push(Call::Admit(k, c));
        }
    }
    for k in KEYS {
        for c in COSTS {
            a.push(Call::Access(k, c));
        }
    }
    for k in KEYS {
        a.push(Call::Remove(k));
    }
    for n in EVICTS {
        a.push(Call::Evict(n));
    }
    a.push(Call::Clear);
    a
}

// ---------------------------------------------------------------- identity hasher for u64 outcome hashes

#[derive(Default)]
struct IdHasher(u64);
impl Hasher for IdHasher {
    fn finish(&self) -> u64 {
        self.0
    }
    fn write(&mut self, _: &[u8]) {
        unreachable!()
    }
    fn write_u64(&mut self, v: u64) {
        self.0 = v;
    }
}
type U64Set = HashSet<u64, BuildHasherDefault<IdHasher>>;

// ---------------------------------------------------------------- one checked execution (panic-safe)

fn panic_message(p: Box<dyn std::any::Any + Send>) -> String {
    if let Some(s) = p.downcast_ref::<&str>() {
        s.to_string()
    } else if let Some(s) = p.downcast_ref::<String>() {
        s.clone()
    } else {
        "<non-string panic payload>".into()
    }
}

fn run_checked(cfg: &Config, calls: &[Call], anc: Option<&[Vec<u8>]>, trace: Option<&mut Vec<Value>>) -> RunOut {
    let mut trace = trace;
    let res = catch_unwind(AssertUnwindSafe(|| run_history(cfg, calls, anc, trace.as_deref_mut())));
    match res {
        Ok(o) => o,
        Err(p) => {
            let op = Op::from_idx(CUR_OP.with(|c| c.get()) as usize);
            let step = CUR_STEP.with(|c| c.get());
            let msg = panic_message(p);
            let what = if step < calls.len() { format!("call #{step} {}", calls[step].show()) } else { format!("the final evict({HUGE})") };
            let detail = format!("the policy panicked in {what}: {msg}");
            if let Some(t) = trace {
                t.push(json!({"step": step, "call": what, "VIOLATION": {"fingerprint": fingerprint(cfg.kind, Rule::NoPanic, op), "detail": detail}}));
            }
            RunOut {
                found: vec![Found { rule: Rule::NoPanic, op, step, detail }],
                outcome: vcommon::fnv(format!("panic@{step}").as_bytes()),
                nontrivial: false,
                calls_applied: step as u64 + 1,
                probe_calls: 0,
                drained: Vec::new(),
            }
        }
    }
}

// ---------------------------------------------------------------- exploration task

struct TaskResult {
    executions: u64,
    transitions: u64,
    probe_transitions: u64,
    nontrivial: u64,
    violating: u64,
    outcomes: U64Set,
    /// per (rule, op): shortest, then lexicographically first, violating history (as symbol indices)
    best: Vec<Option<Vec<u8>>>,
    first_sample: Option<Vec<u8>>,
    last_sample: Option<Vec<u8>>,
    started: Instant,
    ended: Instant,
}

struct TaskCtx<'a> {
    cfg: Config,
    alpha: &'a [Call],
    depth: usize,
    calls: Vec<Call>,
    /// final drains of the ancestors of the current node: anc[i] = drain after calls[..=i]
    anc: Vec<Vec<u8>>,
    res: TaskResult,
}

impl<'a> TaskCtx<'a> {
    fn new(cfg: Config, alpha: &'a [Call], depth: usize) -> Self {
        let now = Instant::now();
        TaskCtx {
            cfg,
            alpha,
            depth,
            calls: Vec::with_capacity(depth),
            anc: Vec::with_capacity(depth),
            res: TaskResult {
                executions: 0,
                transitions: 0,
                probe_transitions: 0,
                nontrivial: 0,
                violating: 0,
                outcomes: U64Set::default(),
                best: vec![None; NRULES * NOPS],
                first_sample: None,
                last_sample: None,
                started: now,
                ended: now,
            },
        }
    }

    fn execute(&mut self, hist: &[u8]) -> Vec<u8> {
        // Random's drains are not a function of the history; it never needs them either
        let anc = if self.cfg.kind == Kind::Random { None } else { Some(self.anc.as_slice()) };
        let out = run_checked(&self.cfg, &self.calls, anc, None);
        let r = &mut self.res;
        r.executions += 1;
        r.transitions += out.calls_applied;
        r.probe_transitions += out.probe_calls;
        r.outcomes.insert(out.outcome);
        if out.nontrivial {
            r.nontrivial += 1;
            // samples: full-depth non-trivial histories that mix at least four kinds of call
            let kinds = self.calls.iter().fold(0u8, |m, c| m | (1 << c.op() as u8));
            if hist.len() == self.depth && (kinds.count_ones() >= 4 || self.depth < 4) {
                if r.first_sample.is_none() {
                    r.first_sample = Some(hist.to_vec());
                }
                match &mut r.last_sample {
                    Some(v) => {
                        v.clear();
                        v.extend_from_slice(hist);
                    }
                    None => r.last_sample = Some(hist.to_vec()),
                }
            }
        }
        if !out.found.is_empty() {
            r.violating += 1;
            for f in &out.found {
                let slot = &mut r.best[f.rule as usize * NOPS + f.op as usize];
                let better = match slot {
                    None => true,
                    Some(old) => (hist.len(), hist) < (old.len(), old.as_slice()),
                };
                if better {
                    *slot = Some(hist.to_vec());
                }
            }
        }
        out.drained
    }

    fn dfs(&mut self, hist: &mut Vec<u8>) {
        let drained = self.execute(hist);
        if hist.len() == self.depth {
            return;
        }
        self.anc.push(drained);
        for s in 0..self.alpha.len() {
            hist.push(s as u8);
            self.calls.push(self.alpha[s]);
            self.dfs(hist);
            self.calls.pop();
            hist.pop();
        }
        self.anc.pop();
    }
}

/// `first`: None = only the empty history; Some(s) = the whole subtree below first symbol s.
fn run_task(cfg: Config, alpha: &[Call], depth: usize, first: Option<u8>) -> TaskResult {
    let mut ctx = TaskCtx::new(cfg, alpha, depth);
    let mut hist: Vec<u8> = Vec::with_capacity(depth);
    match first {
        None => {
            ctx.execute(&hist);
        }
        Some(s) => {
            if depth >= 1 {
                hist.push(s);
                ctx.calls.push(alpha[s as usize]);
                ctx.dfs(&mut hist);
            }
        }
    }
    ctx.res.ended = Instant::now();
    ctx.res
}

// ---------------------------------------------------------------- configurations and tiers

fn configs(tier: &str) -> Vec<Config> {
    let mut v = Vec::new();
    for kind in Kind::ALL {
        if !kind.has_capacity() {
            v.push(Config { kind, capacity: 0 });
            continue;
        }
        // SLRU: protected capacity = cap - max(1, round(0.2 cap)) -> 0, 1, 2, 3 for cap 1..4
        // ARC: capacity is the replace() trigger, the ghost list bound and the bound of p
        // TinyLFU: window target = max(1, round(1% cap)); protected capacity of the main SLRU
        //   = (cap - window) - max(1, round(0.2 (cap - window))) -> cap 2: (1, 0), 3: (1, 1), 4: (1, 2), 200: (2, 158)
        // (SLRU cap 4 and TinyLFU cap 4 were measured at depth 6: SLRU cap 4 gives exactly the outcome
        // counts of cap 3; TinyLFU is by far the most expensive policy to construct, cap 4 differs from
        // cap 3 only in protected capacity 2 vs 1. Both left out to keep thorough well inside its budget.)
        let caps: &[u64] = match (kind, tier) {
            (Kind::Slru, _) => &[1, 2, 3],
            (Kind::Arc, "quick") => &[1, 2, 3],
            (Kind::Arc, _) => &[1, 2, 3, 4],
            (Kind::TinyLfu, _) => &[2, 3, 200],
            _ => unreachable!(),
        };
        for c in caps {
            v.push(Config { kind, capacity: *c });
        }
    }
    v
}

fn default_depth(tier: &str) -> usize {
    match tier {
        "quick" => 5,
        _ => 6,
    }
}

// ---------------------------------------------------------------- replay artefacts

fn replay_json(cfg: &Config, calls: &[Call]) -> Value {
    json!({
        "policy": cfg.kind.name(),
        "capacity": if cfg.kind.has_capacity() { json!(cfg.capacity) } else { Value::Null },
        "constructor": cfg.describe(),
        "calls": calls.iter().map(|c| c.to_json()).collect::<Vec<_>>(),
        "then": format!("evict({HUGE}) must return exactly the keys still tracked"),
    })
}

fn parse_replay(v: &Value) -> Result<(Config, Vec<Call>), String> {
    let kind = v.get("policy").and_then(|p| p.as_str()).and_then(Kind::parse).ok_or("replay without a known \"policy\"")?;
    let capacity = v.get("capacity").and_then(|c| c.as_u64()).unwrap_or(0);
    if kind.has_capacity() && v.get("capacity").and_then(|c| c.as_u64()).is_none() {
        return Err(format!("policy {} needs a \"capacity\"", kind.name()));
    }
    let calls = v.get("calls").and_then(|c| c.as_array()).ok_or("replay without \"calls\"")?;
    let calls: Result<Vec<Call>, String> = calls.iter().map(Call::from_json).collect();
    Ok((Config { kind, capacity }, calls?))
}

// ---------------------------------------------------------------- run

fn silence_panics() {
    std::panic::set_hook(Box::new(|_| {}));
}

struct Args {
    tier: String,
    out: String,
    props: Option<Vec<String>>,
    jobs: usize,
    depth: Option<usize>,
    policies: Option<Vec<Kind>>,
}

fn parse_run_args(args: &[String]) -> Result<Args, String> {
    let mut a = Args { tier: "quick".into(), out: String::new(), props: None, jobs: 16, depth: None, policies: None };
    let mut i = 0;
    while i < args.len() {
        let val = |i: usize| args.get(i + 1).cloned().ok_or(format!("{} needs a value", args[i]));
        match args[i].as_str() {
            "--tier" => a.tier = val(i)?,
            "--out" => a.out = val(i)?,
            "--props" => a.props = Some(val(i)?.split(',').map(|s| s.trim().to_string()).collect()),
            "--jobs" => a.jobs = val(i)?.parse().map_err(|_| "--jobs N")?,
            "--depth" => a.depth = Some(val(i)?.parse().map_err(|_| "--depth D")?),
            "--policies" => {
                let mut v = Vec::new();
                for p in val(i)?.split(',') {
                    v.push(Kind::parse(p.trim()).ok_or(format!("unknown policy {p}"))?);
                }
                a.policies = Some(v);
            }
            o => return Err(format!("unknown argument {o}")),
        }
        i += 2;
    }
    if a.out.is_empty() {
        return Err("--out <report.json> is required".into());
    }
    if a.tier != "quick" && a.tier != "thorough" {
        return Err("--tier quick|thorough".into());
    }
    if a.jobs == 0 {
        a.jobs = 1;
    }
    Ok(a)
}

fn cmd_run(args: &[String]) -> i32 {
    let a = match parse_run_args(args) {
        Ok(a) => a,
        Err(e) => {
            eprintln!("policyx run: {e}");
            return 2;
        }
    };
    let mut report = Report::new(ENGINE, &a.tier);
    if let Some(p) = &a.props {
        if !p.iter().any(|x| x == PROPERTY) {
            report.write(&a.out);
            return 0;
        }
    }
    silence_panics();
    let t_all = Instant::now();
    let alpha = alphabet();
    assert!(alpha.len() < 256);
    let depth = a.depth.unwrap_or_else(|| default_depth(&a.tier));
    let mut cfgs = configs(&a.tier);
    if let Some(p) = &a.policies {
        cfgs.retain(|c| p.contains(&c.kind));
    }

    // task list: per configuration the empty history + one subtree per first symbol
    let mut tasks: Vec<(usize, Option<u8>)> = Vec::new();
    for ci in 0..cfgs.len() {
        tasks.push((ci, None));
        for s in 0..alpha.len() {
            tasks.push((ci, Some(s as u8)));
        }
    }
    let next = AtomicUsize::new(0);
    let results: Mutex<Vec<Option<TaskResult>>> = Mutex::new((0..tasks.len()).map(|_| None).collect());
    std::thread::scope(|sc| {
        for _ in 0..a.jobs {
            sc.spawn(|| loop {
                let t = next.fetch_add(1, Ordering::Relaxed);
                if t >= tasks.len() {
                    break;
                }
                let (ci, first) = tasks[t];
                let r = run_task(cfgs[ci], &alpha, depth, first);
                results.lock().unwrap()[t] = Some(r);
            });
        }
    });
    let mut results: Vec<Option<TaskResult>> = results.into_inner().unwrap();

    // aggregate per configuration, in task order (deterministic)
    // fingerprint -> (cfg index, history)
    let mut best: BTreeMap<(usize, usize, usize), (usize, Vec<u8>)> = BTreeMap::new(); // key: (kind idx, rule, op)
    for (ci, cfg) in cfgs.iter().enumerate() {
        let mut sc = Scenario { name: cfg.scenario_name(), properties: vec![PROPERTY.into()], exhaustive: true, ..Default::default() };
        let mut outcomes = U64Set::default();
        let mut first_sample: Option<Vec<u8>> = None;
        let mut last_sample: Option<Vec<u8>> = None;
        let mut started: Option<Instant> = None;
        let mut ended: Option<Instant> = None;
        let mut probe_transitions = 0u64;
        let mut violating = 0u64;
        for (t, (tci, _)) in tasks.iter().enumerate() {
            if *tci != ci {
                continue;
            }
            let r = results[t].take().expect("task result");
            sc.executions += r.executions;
            sc.transitions += r.transitions;
            probe_transitions += r.probe_transitions;
            sc.nontrivial += r.nontrivial;
            violating += r.violating;
            outcomes.extend(r.outcomes.iter().copied());
            if first_sample.is_none() {
                first_sample = r.first_sample;
            }
            if r.last_sample.is_some() {
                last_sample = r.last_sample;
            }
            started = Some(started.map_or(r.started, |s| s.min(r.started)));
            ended = Some(ended.map_or(r.ended, |s| s.max(r.ended)));
            let kind_idx = Kind::ALL.iter().position(|k| *k == cfg.kind).unwrap();
            for (slot, h) in r.best.into_iter().enumerate() {
                if let Some(h) = h {
                    let key = (kind_idx, slot / NOPS, slot % NOPS);
                    let better = match best.get(&key) {
                        None => true,
                        Some((_, old)) => (h.len(), h.as_slice()) < (old.len(), old.as_slice()),
                    };
                    if better {
                        best.insert(key, (ci, h));
                    }
                }
            }
        }
        sc.states = sc.executions; // a state is the history that reaches it; every visited prefix is executed and drained
        sc.distinct_outcomes = outcomes.len() as u64;
        sc.nontrivial_rule = "histories in which at least one evict() call of the history itself (the final drain not counted) returned >= 1 victim".into();
        sc.wall_s = match (started, ended) {
            (Some(s), Some(e)) => e.duration_since(s).as_secs_f64(),
            _ => 0.0,
        };
        sc.bound.insert("depth".into(), json!(depth));
        sc.bound.insert("histories".into(), json!(format!("all call sequences of length 0..={depth}, each closed by evict({HUGE})")));
        sc.bound.insert("alphabet_size".into(), json!(alpha.len()));
        sc.bound.insert("keys".into(), json!(KEYS));
        sc.bound.insert("costs".into(), json!(COSTS));
        sc.bound.insert("evict_requests".into(), json!(EVICTS));
        sc.bound.insert("constructor".into(), json!(cfg.describe()));
        sc.bound.insert("violating_histories".into(), json!(violating));
        sc.bound.insert("probe_transitions".into(), json!(probe_transitions));
        if cfg.kind == Kind::Random {
            sc.bound.insert(
                "note".into(),
                json!("RandomPolicy draws its victims from rand::rng() (no seed hook): the call sequences are enumerated exhaustively, the policy's internal coin is not; every oracle applied to it is independent of the coin; the outcome hash covers only the coin-independent part of the results"),
            );
        }
        for h in [first_sample, last_sample].into_iter().flatten() {
            let calls: Vec<Call> = h.iter().map(|s| alpha[*s as usize]).collect();
            let mut trace = Vec::new();
            let out = run_checked(cfg, &calls, None, Some(&mut trace));
            sc.samples.push(json!({
                "policy": cfg.describe(),
                "history": calls.iter().map(|c| c.show()).collect::<Vec<_>>(),
                "observed": trace,
                "violations": out.found.iter().map(|f| fingerprint(cfg.kind, f.rule, f.op)).collect::<Vec<_>>(),
            }));
            if sc.samples.len() == 2 {
                break;
            }
        }
        report.scenarios.push(sc);
    }

    // violations: one per fingerprint, shortest history; re-executed from scratch (twice) before being reported
    for ((kind_idx, rule_idx, op_idx), (ci, h)) in best {
        let cfg = &cfgs[ci];
        let kind = Kind::ALL[kind_idx];
        let (rule, op) = (Rule::from_idx(rule_idx), Op::from_idx(op_idx));
        let calls: Vec<Call> = h.iter().map(|s| alpha[*s as usize]).collect();
        let mut detail = String::new();
        let mut reproduced = 0;
        for _ in 0..2 {
            let mut trace = Vec::new();
            let out = run_checked(cfg, &calls, None, Some(&mut trace));
            if let Some(f) = out.found.iter().find(|f| f.rule == rule && f.op == op) {
                reproduced += 1;
                detail = f.detail.clone();
            }
        }
        // the minimal failing call sequence (shortest, then first in enumeration order) is part of the identity of a
        // finding: another defect that trips the same rule at the same operation has another minimal witness.
        // RandomPolicy's victims are not reproducible, so its classes carry no witness.
        let fp = if kind == Kind::Random {
            fingerprint(kind, rule, op)
        } else {
            format!("{}@{}:{}", fingerprint(kind, rule, op), cfg.describe().split(' ').next().unwrap_or(""), show_calls(&calls).replace(' ', ""))
        };
        if reproduced < 2 {
            eprintln!("policyx: {fp} seen during exploration on {} {} but reproduced only {reproduced}/2 times on re-execution; not reported", cfg.describe(), show_calls(&calls));
            continue;
        }
        report.push_violation(Violation {
            property: PROPERTY.into(),
            fingerprint: fp,
            message: format!("{} after {}: {}", cfg.describe(), show_calls(&calls), detail),
            scenario: cfg.scenario_name(),
            replay: replay_json(cfg, &calls),
        });
    }

    let tot_exec: u64 = report.scenarios.iter().map(|s| s.executions).sum();
    let tot_tr: u64 = report.scenarios.iter().map(|s| s.transitions).sum();
    eprintln!(
        "policyx {}: depth {depth}, {} scenarios, {tot_exec} histories, {tot_tr} calls, {} fingerprints, {:.1}s on {} threads",
        a.tier,
        report.scenarios.len(),
        report.violations.len(),
        t_all.elapsed().as_secs_f64(),
        a.jobs
    );
    for v in &report.violations {
        eprintln!("  {}\n      {}", v.fingerprint, v.message);
    }
    report.write(&a.out);
    0
}

// ---------------------------------------------------------------- replay

fn cmd_replay(path: &str) -> i32 {
    let text = match std::fs::read_to_string(path) {
        Ok(t) => t,
        Err(e) => {
            eprintln!("policyx replay: cannot read {path}: {e}");
            return 2;
        }
    };
    let v: Value = match serde_json::from_str(&text) {
        Ok(v) => v,
        Err(e) => {
            eprintln!("policyx replay: {path} is not JSON: {e}");
            return 2;
        }
    };
    // either the driver's wrapper {"fingerprint", "replay": {...}} or a bare replay object
    let (inner, expected) = match v.get("replay") {
        Some(r) => (r.clone(), v.get("fingerprint").and_then(|f| f.as_str()).map(|s| s.to_string())),
        None => (v.clone(), v.get("fingerprint").and_then(|f| f.as_str()).map(|s| s.to_string())),
    };
    let (cfg, calls) = match parse_replay(&inner) {
        Ok(x) => x,
        Err(e) => {
            eprintln!("policyx replay: {e}");
            return 2;
        }
    };
    silence_panics();
    println!("policy: {}", cfg.describe());
    println!("history: {}", show_calls(&calls));
    if let Some(e) = &expected {
        println!("expected fingerprint: {e}");
    }
    let mut trace = Vec::new();
    let out = run_checked(&cfg, &calls, None, Some(&mut trace));
    for rec in &trace {
        let step = match &rec["step"] {
            Value::String(s) => s.clone(),
            o => format!("#{o}"),
        };
        let mut line = format!("  {step:>6} {:<18} -> {}", rec["call"].as_str().unwrap_or("?"), rec["result"]);
        if let Some(b) = rec.get("model_tracked_before") {
            line.push_str(&format!("   model tracked before: {b}"));
        }
        if let Some(a) = rec.get("model_tracked_after") {
            line.push_str(&format!("   model tracked after: {a}"));
        }
        println!("{line}");
        if let Some(viol) = rec.get("VIOLATION") {
            let list = match viol {
                Value::Array(a) => a.clone(),
                o => vec![o.clone()],
            };
            for x in list {
                println!("         VIOLATION {}: {}", x["fingerprint"].as_str().unwrap_or("?"), x["detail"].as_str().unwrap_or("?"));
            }
        }
    }
    let fps: Vec<String> = out.found.iter().map(|f| fingerprint(cfg.kind, f.rule, f.op)).collect();
    let reproduced = match &expected {
        // the expected fingerprint may carry the minimal witness after '@': compare the class
        Some(e) => fps.iter().any(|f| f == e.split('@').next().unwrap_or(e)),
        None => !fps.is_empty(),
    };
    if reproduced {
        println!("REPRODUCED: {}", expected.unwrap_or_else(|| fps.join(", ")));
        1
    } else if !fps.is_empty() {
        println!("NOT REPRODUCED (the history violates {} instead)", fps.join(", "));
        0
    } else {
        println!("NOT REPRODUCED: the history satisfies every C14 oracle");
        0
    }
}

fn main() {
    let args: Vec<String> = std::env::args().skip(1).collect();
    let code = match args.first().map(|s| s.as_str()) {
        Some("run") => cmd_run(&args[1..]),
        Some("replay") if args.len() >= 2 => cmd_replay(&args[1]),
        _ => {
            eprintln!("usage: policyx run --tier quick|thorough --out <report.json> [--props C14] [--jobs N] [--depth D] [--policies a,b]\n       policyx replay <replay.json>");
            2
        }
    };
    std::process::exit(code);
}
