#!/usr/bin/env python3
"""Regenerates MANIFEST.json from checks_table.py and validates it against the schema."""
import json, os, sys
ROOT = os.path.dirname(os.path.abspath(__file__))
sys.path.insert(0, ROOT)
import checks_table as T

checks = []
for pid in sorted(T.CHECKS):
    s = T.CHECKS[pid]
    checks.append({
        "property_id": pid,
        "quick_cmd": f"./check {pid} quick",
        "thorough_cmd": f"./check {pid} thorough",
        "evidence_file": f"/verif/evidence/{pid}.json",
        "replay_cmd_template": "./check --replay {path}",
        "engine": "+".join(sorted({j["crate"] for j in s["jobs"]})),
        "level_claimed": {"category": s["level"], "text": s["level_text"], "design_ref": s["design_ref"]},
        "level_note": s["level_note"],
        "technique": s["technique"],
    })
na = [{"property_id": p, "reason": r} for p, r in sorted(T.NOT_APPLICABLE.items()) if p not in T.CHECKS]
engines = {}
for pid, s in T.CHECKS.items():
    for j in s["jobs"]:
        e = engines.setdefault(j["crate"], {"name": j["crate"], "path": f"/verif/engines/{j['crate']}", "serves_properties": set(), "kind_free_text": j.get("about", "")})
        e["serves_properties"].add(pid)
for e in engines.values():
    e["serves_properties"] = sorted(e["serves_properties"])
m = {
    "version": 1,
    "setup_cmd": "./check --build-all",
    "hooks": {
        "guard": "--cfg excsn_fibre_verif",
        "enable": "RUSTFLAGS=\"--cfg excsn_fibre_verif\" (plus --cfg loom for the loom engine); set by ./check per engine, separate CARGO_TARGET_DIR per flag set under /verif/target/",
        "baseline_off_cmd": "cd /repo && cargo nextest run --workspace --no-fail-fast --test-threads 8 --offline || cargo test --workspace --no-fail-fast --offline",
        "source_commits": T.HOOK_COMMITS,
        "add_only": True,
    },
    "engines": sorted(engines.values(), key=lambda e: e["name"]),
    "checks": checks,
    "not_applicable": na,
    "notes": "Model checking by stateless exhaustive exploration of the real code (see DESIGN.md). Known genuine defects are listed in /verif/known_findings.json.",
}
with open(os.path.join(ROOT, "MANIFEST.json"), "w") as f:
    json.dump(m, f, indent=1)
try:
    import jsonschema
    jsonschema.validate(m, json.load(open("/root/.vp/MANIFEST.schema.json")))
    print("MANIFEST.json valid;", len(checks), "checks,", len(na), "not_applicable")
except ImportError:
    print("jsonschema not importable here; MANIFEST.json written (validate with python3-vt)")
