#!/usr/bin/env python3
"""helper (dev only): merge fingerprints of engine reports into known_findings.json with a 'what' derived from rules; never used by checks"""
import json, sys, re
kf = json.load(open('/verif/known_findings.json'))
have = {f['fingerprint'] for f in kf['findings']}
def what(fp, msg):
    m = msg.split(' | history:')[0]
    hist = msg.split(' | history: ')[-1] if ' | history: ' in msg else ''
    return (m[:260] + (' — e.g. history ' + hist[:300] if hist else ''))
for path in sys.argv[1:]:
    r = json.load(open(path))
    for v in r['violations']:
        if v['fingerprint'] in have: continue
        kf['findings'].append({'property': v['property'], 'fingerprint': v['fingerprint'], 'status': 'known', 'what': what(v['fingerprint'], v['message'])})
        have.add(v['fingerprint'])
kf['findings'].sort(key=lambda f: (f['property'], f['fingerprint']))
json.dump(kf, open('/verif/known_findings.json', 'w'), indent=1, ensure_ascii=False)
print(len(kf['findings']), 'entries')
