"""Which engine jobs serve which property (single source for ./check and gen_manifest.py)."""

CHECKS = {}

# properties not (yet) claimed: id -> reason (kept current; see DESIGN.md)
NOT_APPLICABLE = {
    f"C{i:02d}": "check not built yet in this session (engine under construction; see DESIGN.md plan)" for i in range(1, 21)
}

HOOK_COMMITS = []
