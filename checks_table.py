"""Which engine jobs serve which property (single source for ./check and gen_manifest.py)."""

SEQX = {"name": "seqx-chan", "crate": "seqx", "bin": "seqx", "kind": "verif", "args": [],
        "about": "E2: exhaustive single-thread operation/poll/drop histories on the real channels vs a nondeterministic FIFO reference model (stateless DFS, history = state)"}
SEQX_ASAN = {"name": "seqx-chan-asan", "crate": "seqx", "bin": "seqx", "kind": "asan", "args": ["--space", "quick"], "tiers": ("thorough",),
             "about": "E2 under AddressSanitizer: the quick space re-executed with every heap access checked"}
SEQX_TOPIC = {"name": "seqx-topic", "crate": "seqx", "bin": "seqx", "kind": "verif", "args": ["--suite", "topic"],
              "about": "E2: exhaustive subscribe/unsubscribe/send/recv/clone/close/drop/convert histories on the topic channel vs a routing model"}
LOOMX = {"name": "loomx", "crate": "loomx", "bin": "loomx", "kind": "loom", "args": [],
         "about": "E1: loom (0.7.2, vendored with 4 documented patches guarded by a litmus self-test) exploring all interleavings up to the preemption bound of tiny 2–3 thread programs on the real channels / hybrid locks built with --cfg loom; event-log oracles"}
POLICYX = {"name": "policyx", "crate": "policyx", "bin": "policyx", "kind": "verif", "args": [],
           "about": "E2: exhaustive call sequences on each public eviction policy vs a bookkeeping model"}
IOCX = {"name": "iocx", "crate": "iocx", "bin": "iocx", "kind": "verif", "args": [],
        "about": "E2 + gate scheduler: exhaustive registration/resolution histories; all factory-gate schedules of concurrent first resolution"}

LOGX = {"name": "logx", "crate": "logx", "bin": "logx", "kind": "verif", "args": ["--tmp", "{scratch}"],
        "about": "E2: exhaustive strings through both encoders; exhaustive write/clock-step/restart sequences through the real roller with an injected clock"}

PROCX = {"name": "procx", "crate": "procx", "bin": "procx", "kind": "verif", "args": [],
         "about": "E4: one child process per logging configuration (process-global dispatchers); exhaustive configuration lattice × event script vs a reference routing function; shutdown cut at every script position"}

TOPICX = {"name": "topicx", "crate": "topicx", "bin": "topicx", "kind": "verif", "args": [],
          "about": "E3 on the topic channel: controlled scheduler over real OS threads with scheduling points inside publish / subscribe / unsubscribe / close / clone (hook H8); DFS over schedules with preemption bound 2 (quick) / 3 (thorough); every history checked for linearizability against the routing model by brute force"}

LOCKX = {"name": "lockx", "crate": "lockx", "bin": "lockx", "kind": "verif", "args": [],
         "about": "E2 on the hybrid locks: exhaustive single-thread histories (try_*, uncontended blocking acquisitions, lock futures created/polled/re-polled/dropped, guards released in every order) on the real HybridMutex / HybridRwLock; oracles: mutual exclusion, value under guard, writer gate, idle-stall probe on a fully released lock"}

CACHEX = {"name": "cachex", "crate": "cachex", "bin": "cachex", "kind": "verif", "args": [],
          "about": "E2: exhaustive operation / clock-step / maintenance histories on the real cache (virtual clock H1, no background threads H2) vs a register-per-key model; residency dump, synchronous listener pump"}

LOCKSTEP = {"name": "lockstep", "crate": "lockstep", "bin": "lockstep", "kind": "verif", "args": [],
            "about": "E3: CHESS-style controlled scheduler over real OS threads; scheduling points at every hybrid-lock acquisition (hook H3), park/unpark/spawn in the loader path and in the harness loader body; DFS over schedules with preemption bound 2 (quick) / 3 (thorough)"}

CACHE_ASSUME = [
    "single thread, background threads off (hook H2): the janitor's work happens only through run_maintenance(); interleavings are the lockstep engine's job",
    "time is the virtual clock of hook H1; Adv steps land before, exactly on and after each deadline",
    "fixed identity hasher (key k lives in shard k mod shards); RandomPolicy's victim choice is not controlled",
    "which non-get/fetch operations refresh the idle timer is unspecified: enumeration and entry() may or may not",
]
CACHE_RULE = ("all histories up to the depth over per-family alphabets (cost/cost2: inserts with costs 1, 2, capacity+1, remove, clear, maintenance, snapshot+restore; "
              "ttl/ttlshort/tti: inserts, per-insert TTL, every read API, enumeration, maintenance, clock steps to deadline−1ns/deadline/deadline+; read: every read API, entry, compute, invalidate; "
              "iter: contents 0..5 entries × batch sizes 1..3 × shards 1/2/4 × snapshot round trip) for each policy/capacity/shard configuration listed in the scenarios; "
              "each history re-executed on a fresh real cache; after every step: read results vs the per-key register model, listener notifications vs the residency diff, "
              "current_cost vs resident cost; after maintenance also the capacity bound; non-trivial = ≥1 hit and ≥1 value overwritten/removed/evicted/expired")


def cache(level_text, design_ref, lockstep=False):
    return {
        "jobs": [CACHEX] + ([LOCKSTEP] if lockstep else []),
        "level": "model_checking",
        "level_text": level_text,
        "level_note": "trusts the per-key register model and the residency dump of hook verif::dump; cachex explores sequential histories of the Cache and AsyncCache handles (depth and alphabets as reported per scenario)" + ("; lockstep explores schedules of 2-3 real threads/tasks with scheduling points at every hybrid-lock acquisition (sync and async forms), park/unpark/spawn in the loader path; code between two points is an atomic block" if lockstep else "; interleavings are not explored for this property"),
        "technique": "stateless exhaustive DFS over operation/clock/maintenance histories of the real cache vs reference model" + ("; stateless exhaustive DFS over thread schedules under a controlled scheduler with iterative preemption bounding" if lockstep else ""),
        "design_ref": design_ref,
        "rule": CACHE_RULE,
        "assumptions": CACHE_ASSUME,
    }


CHAN_ASSUME = [
    "single OS thread per history: interleavings are the loom engine's job (loomx), not this one's",
    "a future is dropped before the handle it borrows; a Stream poll and a future of the same handle are never awaited at once (the borrow checker enforces both)",
    "one task per handle: every waker handed out through a handle wakes the same task; a task that drops a future re-polls what it still awaits before suspending",
    "blocking forms are issued only where the reference model says they cannot wait (bounded mpsc: even unpublished consumer progress must leave room)",
    "values outside the id alphabet are irrelevant by parametricity (the channels never inspect T)",
]
CHAN_RULE = ("all histories over the per-flavour alphabet (try/blocking/batch/in-place sends and receives, futures: create/poll-task/drop, "
             "Stream polls, clone/close/drop/convert of ≤2 handles per side) up to the depth in each scenario's bound, from the initial state, "
             "from warmed-up cursors and from start states with pending futures; every history re-executed on fresh real objects and checked "
             "step by step against the FIFO/handle reference model, then the idle-stall probe and the drop ledger; "
             "non-trivial = ≥1 successful send and ≥1 of {successful receive, Full, Closed, Disconnected, partial batch, Pending}")


def chan(level_text, design_ref, extra_jobs=(), loom=True):
    return {
        "jobs": [SEQX] + ([LOOMX] if loom else []) + list(extra_jobs),
        "level": "model_checking",
        "level_text": level_text,
        "level_note": "trusts the reference model in engines/seqx/src/chan/model.rs (≈700 lines, FIFO + handle states + pending-future nondeterminism) and the adapters; depth/handle/future bounds as reported per scenario; thread interleavings are not explored by this engine",
        "technique": "stateless exhaustive DFS over operation histories of the real implementation vs reference model",
        "design_ref": design_ref,
        "rule": CHAN_RULE,
        "assumptions": CHAN_ASSUME,
    }


CHECKS = {
    "C01": chan("every sequential API program up to the bound delivers exactly the values whose send succeeded, hands back failed ones, and failed operations change nothing — decided on every history, not sampled", "§4 C01, §2 E2"),
    "C02": chan("in every explored history without overlapping operations the channel equals a FIFO queue step by step (single, batch, in-place, across ring wrap / slab boundaries reached by warm-ups)", "§4 C02, §2 E2"),
    "C03": chan("try_send succeeds exactly when the model queue is neither full nor closed, len()/is_full()/capacity() agree with the model after every step, for capacities 1..3, rendezvous and oneshot", "§4 C03, §2 E2"),
    "C04": chan("every order of clone/close/drop/convert on ≤2 handles per side within the bound: drain then Disconnected, Closed hands the value back, closed handles reject every form, close is idempotent (point-to-point flavours and topic)", "§4 C04, §2 E2", extra_jobs=(SEQX_TOPIC,)),
    "C05": chan("loom: every interleaving up to the preemption bound of park/notify shapes on all migrated flavours (back-pressure, consumer parks, drop vs parked peer, batch vs two parked receivers): loom's deadlock report is the oracle; seqx: a single-threaded history that the model says cannot wait must return", "§4 C05, §2 E1"),
    "C06": chan("idle-stall probe after every explored history: when no task is runnable no pending future/stream may be able to complete; cancellation at every point of every history loses/duplicates nothing", "§4 C06, §2 E2"),
    "C07": chan("sequential half: every history of sends/batches/receives/clone/close/drop/convert on the broadcast channel (1 sender, ≤2 receivers, capacities 1..3) equals the per-receiver-view model: each receiver sees every value once in order from its creation point, the sender is held back by the slowest open receiver, closing/dropping a receiver releases it", "§4 C07, §12"),
    "C08": {
        "jobs": [SEQX_TOPIC, TOPICX],
        "level": "model_checking",
        "level_text": "every history up to the depth over subscribe/unsubscribe (2 topics), send, try_recv/recv_timeout, clone/close/drop/convert of ≤2 sender and ≤2 receiver handles, mailbox capacity 1–2, against a routing model (subscription relation, bounded drop-newest mailboxes, live sender-handle count); every schedule (preemption bound 2 quick / 3 thorough) of a publisher thread racing 1–2 threads that subscribe, unsubscribe, read, clone, close or drop receivers / drop or close the sender, each history checked for linearizability against the same routing model",
        "level_note": "seqx-topic: single-thread histories. topicx: real threads under the controlled scheduler; scheduling points are the cfg-only points of hooks H8 (between the steps of publish/subscribe/unsubscribe/close/clone) and H11 (in front of every papaya map operation, every left-right enter/modify and every mailbox deliver/disconnect/try_recv, i.e. at the primitives, so code added later is covered too) — each such primitive operation is itself an atomic block: interleavings inside papaya, left-right and the parking_lot-protected mailbox are not explored",
        "technique": "stateless exhaustive DFS over operation histories of the real topic channel vs reference routing model; stateless exhaustive DFS over thread schedules under a controlled scheduler with iterative preemption bounding, brute-force linearizability check per schedule",
        "design_ref": "§4 C08, §12.6",
        "rule": "seqx-topic: all histories up to depth d over the alphabet above, each re-executed on a fresh channel and compared step by step with the routing model; non-trivial = at least one message received. topicx: all schedules with ≤ bound preemptions of the programs listed in the scenarios, each re-executed on a fresh channel, followed by a sequential epilogue (drop the sender, drain every open receiver); non-trivial = operations of two threads overlap",
        "assumptions": ["seqx-topic: single thread; async receivers are driven through try_recv (their futures are covered by the mailbox unit of C06 only)", "topicx: blocking recv is not used (try_recv only); papaya / left-right / parking_lot internals are atomic blocks"],
    },
    "C09": chan("drop ledger after every explored history and every teardown order in the alphabet: each payload instance dropped exactly once; the quick space is re-run under AddressSanitizer in the thorough tier", "§4 C09, §2 E2", extra_jobs=(SEQX_ASAN,)),
    "C11": cache("every read API on every explored history (Cache and AsyncCache handles, bulk and entry/compute forms) returns nothing or the latest live value of its own key; or_insert inserts at most once; compute applies once; lockstep: every schedule (preemption bound 2/3) of insert/remove/invalidate/compute/or_insert/clear racing reads is linearizable against the per-key register", "§5 C11, §2 E3", lockstep=True),
    "C12": cache("every read API at every explored virtual time: never an entry at/after its expiry; unbounded caches never lose a live entry however many maintenance passes run; lockstep: every schedule of an overwrite racing the TTL / TTI cleanup passes leaves the fresh (live) value resident", "§5 C12, §2 E3", lockstep=True),
    "C13": cache("after every step of every explored history current_cost equals the resident cost, and after maintenance the resident cost is within capacity, for all eight policies; lockstep: the same quiescent oracle after every schedule of user operations racing the janitor", "§5 C13, §2 E3", lockstep=True),
    "C16": cache("after every step the listener's notifications are matched against the residency diff: truthful, right reason, never twice, none missing; lockstep: same after every schedule of removals racing eviction", "§5 C16, §2 E3", lockstep=True),
    "C17": cache("every enumeration API on every explored content/batch/shard combination yields exactly the stored unexpired entries once; snapshot → bincode → restore preserves mapping, costs, lifetimes, and the restored cache is held to the capacity oracle", "§5 C17"),
    "C15": {
        "jobs": [LOCKSTEP],
        "level": "model_checking",
        "level_text": "every critical-section interleaving (preemption bound 2 quick / 3 thorough) of 2–3 fetch_with callers (threads on the Cache handle, tasks on the AsyncCache handle, mixed) and the loader thread or async loader task the cache spawns: loader invocations per miss generation, returned values, residency, no caller parked forever",
        "level_note": "scheduling points are the hybrid-lock acquisitions, the acquisitions of the load future's state lock (hook H9), thread::park/unpark/spawn in the loader path (hook H3) and two points inside the harness loader body; code between two points is an atomic block; async tasks run one per OS thread under the same scheduler (a Pending poll parks the thread in the scheduler, its waker makes it runnable)",
        "technique": "stateless exhaustive DFS over schedules of real threads under a controlled scheduler with iterative preemption bounding",
        "design_ref": "§5 C15, §2 E3",
        "rule": "all schedules with ≤ bound preemptions of the programs listed in the scenarios (2–3 callers, same key / same stripe / two shards, after invalidation, stale-within-grace); every schedule re-executed on a fresh cache; non-trivial = operations of two threads overlap",
        "assumptions": ["parking_lot mutexes, atomics and channel operations inside the cache contain no scheduling point (atomic blocks)", "no spurious thread::park wakeups"],
    },
    "C10": {
        "jobs": [LOOMX, LOCKX],
        "level": "model_checking",
        "level_text": "lockx: every single-thread history up to the depth over try_* / uncontended blocking acquisitions / lock futures (created and polled, re-polled with a fresh waker, dropped) / guard releases on the real locks — mutual exclusion, writer gate, and the idle-stall probe (a fully released lock with nobody woken must not leave a pending future able to acquire); loom: every interleaving up to the preemption bound of 2–3 threads on HybridMutex / HybridRwLock (sync and async acquirers, try_*, future drop after wake) with the protected value in a loom cell: mutual exclusion, wake on release, writer gate, cancel-safe acquisition",
        "level_note": "lockx trusts its 40-line bookkeeping of live guards and pending futures; loom's bounded DPOR within the stated preemption bound; loom is vendored with four documented patches (RMW atomicity, park token, coroutine pool, SeqCst-load rule) that a litmus self-test guards on every run; memory-model effects loom does not model are out of scope",
        "technique": "stateless exhaustive DFS over operation/poll/drop histories of the real locks; stateless exploration of thread interleavings of the real lock code under loom with preemption bounding",
        "design_ref": "§4 C10, §2 E1",
        "rule": "lockx: all histories up to depth d (mutex 10 quick / 12 thorough, rwlock 8 / 10) with ≤3 pending futures and ≤3 live guards, each re-executed on a fresh lock; non-trivial = a future went pending and was re-polled or dropped, and a guard was released. loomx: all loom executions of the lock shapes listed in the scenarios (2t/3t lock, sync vs async, woken future dropped, try_* under contention, reader/writer mixes, writer gate) at preemption bound 2/1 (quick) and 4/2 (thorough); non-trivial = ≥2 distinct outcomes and overlapping operations in the event log",
        "assumptions": ["Duration::ZERO stands in for timeouts (loom has no clock)"],
    },
    "C14": {
        "jobs": [POLICYX],
        "level": "model_checking",
        "level_text": "every admit/access/remove/evict/clear call sequence up to the depth on every built-in policy, each executed on a fresh real policy object against a bookkeeping model",
        "level_note": "trusts the bookkeeping model in engines/policyx/src/model.rs; Random's internal coin is not enumerable (its oracles are choice-independent); TinyLFU sketch hashing is randomly seeded",
        "technique": "stateless exhaustive DFS over call sequences of the real policy objects vs reference model",
        "design_ref": "§5 C14",
        "rule": "all call sequences over on_admit/on_access (keys {1,2,3} × costs {1,2,0}), on_remove, evict(n∈{1,2,5}), clear up to the depth, closed by evict(∞); non-trivial = at least one evict returned a victim",
        "assumptions": ["policies are driven directly through the public CachePolicy trait (no cache around them)"],
    },
    "C18": {
        "jobs": [IOCX],
        "level": "model_checking",
        "level_text": "every registration/resolution history up to the depth on instance, local and global containers against a map model (exhaustive); concurrent first resolution enumerated over all schedules at factory-gate granularity",
        "level_note": "schedules inside once_cell/dashmap are not intercepted: the concurrent half is exhaustive only at gate granularity and uses quiescence timeouts to recognise a thread blocked inside the library",
        "technique": "stateless exhaustive DFS over histories; exhaustive DFS over gate-level schedules of real threads under a token scheduler",
        "design_ref": "§6 C18",
        "rule": "Part A: all histories over registration forms × 9 keys × get up to depth d on fresh containers; Part B: all token-scheduler choice sequences of 2–4 threads at gates (thread start, factory entry/exit, between operations); non-trivial = ≥1 successful get after ≥2 registrations / ≥2 threads overlapping in a factory",
        "assumptions": ["a thread asleep inside once_cell for the quiescence timeout is blocked (timing-assisted)"],
    },
    "C19": {
        "jobs": [PROCX],
        "level": "model_checking",
        "level_text": "every configuration of the stated logger lattice (names root/a/a::b/ab × level × additivity × wiring) × every (target, level, front end) event executed in its own process against a 30-line reference routing function; shutdown/drop cut after every script position; emitter-thread shapes",
        "level_note": "configuration and cut-position dimensions are exhaustive; the interleaving of writer/drainer/emitter threads with shutdown is whatever the OS produces (repeated, labelled non-exhaustive in the scenario) — no installed tool intercepts std::thread + real files",
        "technique": "exhaustive enumeration of configurations × events on the real logging stack (one process each) vs reference routing model",
        "design_ref": "§6 C19",
        "rule": "route: complete products of the logger lattice listed in the scenario bound × 60-event script (5 targets × 3 levels × log/tracing, forward and reverse); shutdown-cuts: every cut position × {shutdown, drop} × drain modes; non-trivial = ≥1 event delivered and ≥1 filtered",
        "assumptions": ["a child that exceeds the kill timeout twice is a hang, once is machine noise"],
    },
    "C20": {
        "jobs": [LOGX],
        "level": "model_checking",
        "level_text": "every string up to length L over an escaping-critical alphabet through the JSON and pattern encoders, every pattern of ≤k directives; every write/clock-step/restart sequence up to the depth through the real rolling appender (injected clock, real files) against a list-of-records model",
        "level_note": "trusts the record-list model and the serde_json parser used as the JSON oracle; the roller clock is injected through hook H6 (cfg-only); strings outside the alphabet / longer than L and histories deeper than d are not covered",
        "technique": "exhaustive enumeration of inputs and of operation histories on the real encoder/roller code vs reference model",
        "design_ref": "§6 C20",
        "rule": "encoders: all strings ≤ L over {a,\",\\,\\n,U+0001,é,U+2028,{} in message/target/field key/field value, all field value types incl. non-finite floats, all patterns ≤ k directives; roller: all sequences over Write(len∈{1,limit−1,limit,limit+1}), Step(1s|1 period), Restart for each rolling policy (size × period × retention × compression); non-trivial = string needs escaping / ≥1 roll happened",
        "assumptions": ["the file system under the scratch directory behaves like a POSIX file system (tmpfs when available)"],
    },
}

# properties not (yet) claimed: id -> reason (kept current; see DESIGN.md)
NOT_APPLICABLE = {}  # every listed property is claimed; a property dropped from CHECKS must be given a reason here

HOOK_COMMITS = ["750f6f3", "65ea752", "ed0735a", "ff174a5", "d8f7bf2", "82203ff", "b03adbd", "7e9a18f", "49628c7", "1549af9", "2337661", "a83b00a", "4beb1d1"]
